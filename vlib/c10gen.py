"""C10: per-schema generated C++ driver (generic part: harness/c10_driver.hpp), the
specification-side walker that says which bytes an accessor chain needs, the
enumeration of every accessor kind of a generated message and the rendering of a
chain for the C++ driver and for the Lean model (`guard` requests, Drive/C10.lean).

A chain is a list of steps (tuples); the same list is rendered three ways:
  * `cpp_path`   tokens for the generated driver, which calls the NAMED accessors of
                 the generated views on `make_view<Msg>(p, n)` in a checked build,
  * `lean_ops`   numeric accessor kinds for the Lean model (offsets/sizes from the layout),
  * `Spec.needs` the end of the bytes the chain needs: from the SBE layout rules applied to
                 the image (header values read from the image steer dynamic offsets).
"""
import os

from . import core

INF = 1 << 62
GUARDED = 1 << 40        # size of the PROT_NONE region behind the buffer (harness/c10_driver.hpp)
CONTAINER_OPS = ('fr', 'bk', 'pb', 'pop', 'cl', 'er', 'er1', 'ins', 'ins1', 'rs', 'rv', 'af', 'an', 'as', 'ai', 'insr',
                 'insi')
# container operations that have a Lean model (Rt/Guards.lean): step kind -> model operation
MODELLED_OPS = {'pb': 'dpb', 'pop': 'dpop', 'cl': 'dcl', 'af': '(da %d)', 'an': '(dan %d)', 'as': '(dan %d)',
                'ai': '(dai %d)'}
# steps that write to the buffer (the chains run in canary mode)
WRITE_DATA_OPS = ('w', 'rw', 'r', 'a', 'pb', 'pop', 'cl', 'er', 'er1', 'ins', 'ins1', 'rs', 'rv', 'af', 'an', 'as', 'ai',
                  'insr', 'insi')
CANARY_SLACK = 1024       # > the largest write an enumerated chain performs (counts are capped at 512)
CANARY_FILL = 0xC3


class Beyond(Exception):
    """the specification walker ran off the image: the bytes needed do not exist"""


# ------------------------------------------------------------------ C++ driver generation

def _chain(var, path):
    return var + ''.join('.%s()' % p for p in path)


def _leaf_cases(leaves, var, ind):
    out = []
    for i, lf in enumerate(leaves):
        get = _chain(var, lf['path'])
        if lf['kind'] == 'array':
            out.append('%scase %d: c10::array(t, [&]{ return %s; }); return;' % (ind, i, get))
        else:
            setter = _chain(var, lf['path'][:-1]) + '.%s' % lf['path'][-1]
            out.append('%scase %d: c10::scalar(t, [&]{ return %s; }, [&](std::uint64_t bits){ using T = decltype(%s); '
                       '%s(gd::make<T>(bits)); }); return;' % (ind, i, get, get, setter))
    out.append('%sdefault: throw c10::bad_path{};' % ind)
    return out


def is_flat(level):
    return not level['groups'] and not level['datas']


def _gen_header_nav(src, uid, leaves):
    src.append('template<typename H> static void navH_%d(H h, const c10::path& p, std::size_t i) {' % uid)
    src.append('  if(i >= p.size()) { return; }')
    src.append('  const c10::tok& t = p[i];')
    src.append('  if(t.k != "l") { throw c10::bad_path{}; }')
    src.append('  switch(t.a) {')
    src += _leaf_cases(leaves, 'h', '    ')
    src.append('  }')
    src.append('}')
    src.append('struct HN_%d { template<typename H> void operator()(H h, const c10::path& p, std::size_t i) const '
               '{ navH_%d(h, p, i); } };' % (uid, uid))


def _gen_level_nav(src, level, counter, msg_hdr_uid=None):
    """post-order: children first.  Returns the uid of this level's nav function."""
    children = []
    for g in level['groups']:
        cu = _gen_level_nav(src, g['level'], counter)
        du = next(counter)
        _gen_header_nav(src, du, g['dim']['leaves'])
        children.append((cu, du))
    uid = next(counter)
    src.append('template<typename V> static void navL_%d(V v, const c10::path& p, std::size_t i) {' % uid)
    src.append('  if(i >= p.size()) { return; }')
    src.append('  const c10::tok& t = p[i];')
    src.append('  if(t.k == "l") {')
    src.append('    switch(t.a) {')
    src += _leaf_cases(level['leaves'], 'v', '      ')
    src.append('    }')
    src.append('  }')
    src.append('  if(t.k == "G") {')
    src.append('    switch(t.a) {')
    for k, (g, (cu, du)) in enumerate(zip(level['groups'], children)):
        src.append('      case %d: c10::group_ops<%s>(v.%s(), p, i + 1, EN_%d{}, HN_%d{}); return;' % (
            k, 'true' if is_flat(g['level']) else 'false', g['name'], cu, du))
    src.append('      default: throw c10::bad_path{};')
    src.append('    }')
    src.append('  }')
    src.append('  if(t.k == "D") {')
    src.append('    switch(t.a) {')
    for k, d in enumerate(level['datas']):
        src.append('      case %d: c10::data_ops(v.%s(), p, i + 1); return;' % (k, d['name']))
    src.append('      default: throw c10::bad_path{};')
    src.append('    }')
    src.append('  }')
    src.append('  if(t.k == "z") { c10::sink(sbepp::size_bytes(v)); return; }')
    if msg_hdr_uid is not None:
        src.append('  if(t.k == "H") { navH_%d(sbepp::get_header(v), p, i + 1); return; }' % msg_hdr_uid)
    src.append('  throw c10::bad_path{};')
    src.append('}')
    src.append('struct EN_%d { template<typename E> void operator()(E e, const c10::path& p, std::size_t i) const '
               '{ navL_%d(e, p, i); } };' % (uid, uid))
    return uid


def level_fields(level, base_off=0):
    """non-constant fields of a level as the generated cursor accessors see them:
    (name, rel, abs, size, is_view, last)"""
    out = []
    # consecutive leaves with the same first path element form one field
    groups = []
    for lf in level['leaves']:
        if groups and groups[-1][0] == lf['path'][0]:
            groups[-1][1].append(lf)
        else:
            groups.append((lf['path'][0], [lf]))
    prev_end = 0
    for i, (name, lfs) in enumerate(groups):
        off = min(l['off'] for l in lfs)
        end = max(l['off'] + l['size'] for l in lfs)
        is_view = not (len(lfs) == 1 and len(lfs[0]['path']) == 1 and lfs[0]['kind'] != 'array')
        out.append({'name': name, 'rel': off - prev_end, 'abs': off + base_off, 'size': end - off,
                    'is_view': is_view, 'last': i == len(groups) - 1})
        prev_end = end
    return out


def _gen_trav(src, level, counter):
    children = [_gen_trav(src, g['level'], counter) for g in level['groups']]
    uid = next(counter)
    src.append('template<typename V, typename C> static void travL_%d(V v, C& c, c10::ctrav& t) {' % uid)
    src.append('  (void)v; (void)c; (void)t;')
    for f in level_fields(level):
        # scalar fields: getters and setters (C10_ACCS); composite / array fields are obtained as views only
        src.append('  %s(t, v, %s, c) (void)v.%s(c);' % ('C10_ACC' if f['is_view'] else 'C10_ACCS', f['name'], f['name']))
    for g, cu in zip(level['groups'], children):
        src.append('  { C10_ACC(t, v, %s, c) auto g = v.%s(c);' % (g['name'], g['name']))
        src.append('    for(auto e : g.cursor_range(c)) { travL_%d(e, c, t); } }' % cu)
    for d in level['datas']:
        src.append('  C10_ACC(t, v, %s, c) (void)v.%s(c);' % (d['name'], d['name']))
    src.append('}')
    return uid


def _counter():
    n = 0
    while True:
        n += 1
        yield n


def gen_driver(pkg, layout):
    src = ['#define SBEPP_ENABLE_ASSERTS_WITH_HANDLER', '#include <%s/%s.hpp>' % (pkg, pkg),
           '#include "c10_driver.hpp"', '']
    rows = []
    counter = _counter()
    for m in layout['messages']:
        if 'error' in m:
            continue
        hu = next(counter)
        _gen_header_nav(src, hu, m['hdrLeaves'])
        lu = _gen_level_nav(src, m['level'], counter, msg_hdr_uid=hu)
        cls = '::%s::messages::%s' % (pkg, m['name'])
        src.append('static void run_%s(char* p, std::size_t n, const c10::path& path) {' % m['name'])
        src.append('  auto m = sbepp::make_view<%s>(p, n);' % cls)
        src.append('  navL_%d(m, path, 0);' % lu)
        src.append('}')
        tu = _gen_trav(src, m['level'], counter)
        src.append('static void crun_%s(char* p, std::size_t n, c10::ctrav& t) {' % m['name'])
        src.append('  auto m = sbepp::make_view<%s>(p, n);' % cls)
        src.append('  auto c = sbepp::init_cursor(m);')
        src.append('  travL_%d(m, c, t);' % tu)
        src.append('}')
        rows.append('  {"%s", c10::msg_entry{c10::fn_t{run_%s}, c10::cfn_t{crun_%s}}},' % (m['name'], m['name'], m['name']))
    src.append('int main() { return c10::main_loop({')
    src += rows
    src.append('}); }')
    return '\n'.join(src) + '\n'


def build(case, cxx, std, opt='-O0'):
    """case: wire.SchemaCase with .layout; returns (exe|None, log)"""
    src = os.path.join(case.dir, 'c10_driver.cpp')
    if not os.path.exists(src):
        tmp = src + '.%d.%s%s' % (os.getpid(), cxx, std)
        open(tmp, 'w').write(gen_driver(case.s['package'], case.layout))
        os.replace(tmp, src)
    exe = os.path.join(case.dir, 'c10-%s-%s' % (cxx.replace('+', 'p'), std))
    cmd = [cxx, '-std=' + std, opt, '-g0', '-w', '-fsanitize=undefined', '-fsanitize-undefined-trap-on-error',
           '-I' + os.path.join(case.dir, 'gen'), '-I' + os.path.join(core.REPO, 'sbepp/src'),
           '-I' + os.path.join(core.VERIF, 'harness'), src, '-o', exe]
    rc, log = core.sh(cmd, timeout=900)
    return (exe if rc == 0 else None), log


# ------------------------------------------------------------------ Lean request rendering

def level_sexp(level):
    gs = ' '.join('(g (dim %d %d %d %d %d) %s)' % (
        g['dim']['size'], g['dim']['blOff'], g['dim']['blSize'], g['dim']['numOff'], g['dim']['numSize'],
        level_sexp(g['level'])) for g in level['groups'])
    ds = ' '.join(str(d['lenSize']) for d in level['datas'])
    return '(lv %d (groups %s) (datas %s))' % (level['blockLen'], gs, ds)


def max_hdr_bytes(m):
    """width in bytes of the widest blockLength / numInGroup / length member the message uses"""
    bl = [l for l in m['hdrLeaves'] if l['path'] == ['blockLength']][0]

    def lv(level):
        w = [d['lenSize'] for d in level['datas']]
        for g in level['groups']:
            w += [g['dim']['blSize'], g['dim']['numSize'], lv(g['level'])]
        return max(w) if w else 0
    return max(bl['size'], lv(m['level']))


def msg_sexp(m):
    bl = [l for l in m['hdrLeaves'] if l['path'] == ['blockLength']][0]
    return '(msg (hdr %d %d %d) %s)' % (m['hdrSize'], bl['off'], bl['size'], level_sexp(m['level']))


def lean_request(bo, base, img, ns, m, chains, detail=False, canary=False):
    """chains: list of (needs_end, lean_ops string); canary: the view is followed by CANARY_SLACK writable bytes"""
    ps = ' '.join('(p %d %s)' % (min(ne, INF), ops) for ne, ops in chains)
    return 'guard (req (bo %s) (base %d) (img x%s) (ns %s) %s (paths %s)%s%s)' % (
        'be' if bo == 'big' else 'le', base, ''.join('%02x' % b for b in img), ns, msg_sexp(m), ps,
        ' (detail)' if detail else '', ' (canary %d %d)' % (CANARY_SLACK, CANARY_FILL) if canary else '')


# ------------------------------------------------------------------ specification walker

def _prefix_off(leaves, prefix):
    """begin of the composite/array a path prefix denotes: its first leaf (a composite begins at or before its
    first leaf; both give the same verdicts because every access through it lies at or after that leaf)"""
    return min(l['off'] for l in leaves if l['path'][:len(prefix)] == prefix)


class Chain:
    """result of evaluating a step list against an image"""

    def __init__(self):
        self.cpp = []
        self.lean = []
        self.needs_end = 0
        self.pre_ok = True
        self.kind = ''
        self.view_begin = 0      # begin of the view the LAST accessor is called on
        self.steps = []          # (kind, needs_end_of_step, view_begin)
        self.max_view = 0        # largest begin of any view the chain derives (also inside size computations)
        self.huge = False        # some computed position does not fit a pointer (64-bit header values)
        self.modelled = True     # False: judged against the specification only (container operations)
        self.mutating = False    # the last accessor writes: the chain is also run in canary mode

    def view(self, p):
        if p > self.max_view:
            self.max_view = p
        if p >= GUARDED - (1 << 20):
            # outside the guarded address range (or not a pointer at all): what the hardware does there is not
            # observable reliably
            self.huge = True
        return p

    def past_end(self, n):
        return self.max_view > n

    def need(self, end):
        self.needs_end = max(self.needs_end, min(end, INF))


class Spec:
    """positions and needed bytes by the SBE layout rules, reading header values from the image.

    A position is (type, layout..., numbers...) where the numbers are None once the walk has run off the
    image (`lost`): the chain is still rendered for the C++ driver and the model, and needs bytes that do
    not exist (needs_end = INF)."""

    def __init__(self, bo, m, img):
        self.bo = 'little' if bo == 'little' else 'big'
        self.m = m
        self.img = img
        self.L = len(img)
        hl = [l for l in m['hdrLeaves'] if l['path'] == ['blockLength']][0]
        self.blOff, self.blSize = hl['off'], hl['size']
        self.cur = Chain()

    def rd(self, pos, w):
        if pos + w > self.L:
            raise Beyond()
        return int.from_bytes(bytes(self.img[pos:pos + w]), self.bo)

    # ---- sizes: (end position, end of the bytes that must be readable)
    def size_data(self, d, p):
        self.cur.view(p)
        n = self.rd(p, d['lenSize'])
        if p + d['lenSize'] + n >= GUARDED - (1 << 20):
            self.cur.huge = True
        return p + d['lenSize'] + n, p + d['lenSize']

    def size_level(self, level, q, bl):
        p = q + bl
        need = 0
        for g in level['groups']:
            p, nd = self.size_group(g, p)
            need = max(need, nd)
        for d in level['datas']:
            p, nd = self.size_data(d, p)
            need = max(need, nd)
        return p, need

    def size_group(self, g, p):
        self.cur.view(p)
        dim = g['dim']
        need = p + dim['size']
        if need > self.L:
            raise Beyond()
        num = self.rd(p + dim['numOff'], dim['numSize'])
        bl = self.rd(p + dim['blOff'], dim['blSize'])
        if is_flat(g['level']):
            if p + dim['size'] + num * bl >= GUARDED - (1 << 20):
                self.cur.huge = True
            return p + dim['size'] + num * bl, need
        q = p + dim['size']
        if num > self.L:
            # every entry of a nested group has at least one byte of dynamic-member header: the walk leaves the
            # image, i.e. some entry begins behind it
            self.cur.view(self.L + 1)
            raise Beyond()
        for _ in range(num):
            self.cur.view(q)
            end, nd = self.size_level(g['level'], q, bl)
            # stepping over an entry requires the whole entry inside the buffer
            need = max(need, nd, end)
            if end > self.L:
                raise Beyond()
            q = end
        return q, need

    # ---- positions: ('msg',) ('msghdr',) ('entry', level, q, bl) ('group', g, p) ('dim', g, p)
    #                 ('iter', g, ptr, bl) ('data', d, p)
    def leaves_of(self, pos):
        t = pos[0]
        if t == 'msg':
            return self.m['level']['leaves'], self.m['hdrSize']
        if t == 'msghdr':
            return self.m['hdrLeaves'], 0
        if t == 'entry':
            return pos[1]['leaves'], 0
        if t == 'dim':
            return pos[1]['dim']['leaves'], 0
        raise ValueError('no leaves on %s' % t)

    def render(self, pos, st):
        """(cpp token, lean ops, position type after the step with unknown numbers)"""
        k, t = st[0], pos[0]
        if k == 'leaf':
            leaves, base_off = self.leaves_of(pos)
            _, idx, op, arg = st
            lf = leaves[idx]
            path = lf['path']
            cur, first, ops = 0, True, []
            nstat = len(path) if lf['kind'] == 'array' else len(path) - 1
            for j in range(1, nstat + 1):
                off = _prefix_off(leaves, path[:j])
                ops.append('(st %d)' % (off - cur + (base_off if first else 0)))
                first, cur = False, off
            rel = lf['off'] - cur + (base_off if first else 0)
            if lf['kind'] == 'array':
                N = lf['count']
                if op in ('d', 'D'):
                    ops.append('(ad %d)' % N)
                elif op in ('e', 'w', 'E', 'W'):
                    ops.append('(%s %d %d)' % ('ae' if op in ('e', 'E') else 'aw', N, arg))
                elif op == 'a':
                    ops.append('(aa %d %d)' % (N, arg))
                cpp = 'l:%d:%s' % (idx, op) + ('' if op in ('g', 'd', 'D') else ':%d' % arg)
            elif op == 'g':
                ops.append('(f %d %d)' % (rel, lf['size']))
                cpp = 'l:%d:g' % idx
            else:
                ops.append('(s %d %d)' % (rel, lf['size']))
                cpp = 'l:%d:s:%x' % (idx, arg)
            return cpp, ops, None
        if k == 'H':
            return 'H', ['h'], (('msghdr',) if t == 'msg' else ('dim', pos[1], None))
        if k in ('G', 'D'):
            level = self.m['level'] if t == 'msg' else pos[1]
            nxt = ('group', level['groups'][st[1]], None) if k == 'G' else ('data', level['datas'][st[1]], None)
            return '%s:%d' % (k, st[1]), ['(%s %d)' % ('g' if k == 'G' else 'd', st[1])], nxt
        if k == 'z':
            return 'z', ['sz'], None
        if t == 'group':
            if k == 'n':
                return 'n', ['gn'], None
            if k == 'b':
                return 'b', ['gb'], ('iter', pos[1], None, None)
            if k == 'i':
                return 'i:%d' % st[1], ['(gi %d)' % st[1]], ('entry', pos[1]['level'], None, None)
            if k in ('gbk', 'ed'):
                return k, ['nomodel'], ('entry', pos[1]['level'], None, None)
            if k == 'em':
                return 'em:%d' % st[1], ['nomodel'], ('entry', pos[1]['level'], None, None)
        if t == 'iter':
            if k == '+':
                return '+', ['inc'], ('iter', pos[1], None, None)
            if k == '*':
                return '*', ['deref'], ('entry', pos[1]['level'], None, None)
        if t == 'data':
            if k == 'n':
                return 'n', ['dn'], None
            if k == 'dd':
                return 'dd', ['dd'], None
            if k in ('e', 'w', 're', 'rw'):
                return '%s:%d' % (k, st[1]), ['(%s %d)' % ('de' if k in ('e', 're') else 'dw', st[1])], None
            if k == 'rn':
                return 'rn', ['dn'], None
            if k == 'r':
                return 'r:%d' % st[1], ['(dr %d)' % st[1]], None
            if k == 'a':
                return 'a:%d' % st[1], ['(da %d)' % st[1]], None
            if k in CONTAINER_OPS:
                ops = ['nomodel']
                if k in MODELLED_OPS:
                    ops = [MODELLED_OPS[k] % st[1] if '%' in MODELLED_OPS[k] else MODELLED_OPS[k]]
                return ':'.join([k] + [str(x) for x in st[1:]]), ops, None
        raise ValueError('step %r on %s' % (st, t))

    def first_dyn(self, pos):
        """(position, needs_end)"""
        if pos[0] == 'msg':
            if self.m['hdrSize'] > self.L:
                raise Beyond()
            return self.m['hdrSize'] + self.rd(self.blOff, self.blSize), self.m['hdrSize']
        return pos[2] + pos[3], 0

    def advance(self, pos, st, ch):
        """numeric part of a step: needed bytes into `ch`, returns the position after it.
        Raises Beyond when a value that steers the position lies outside the image."""
        k, t = st[0], pos[0]
        if t not in ('msg', 'msghdr') and pos[2] is None:
            raise Beyond()
        if k == 'leaf':
            leaves, _ = self.leaves_of(pos)
            _, idx, op, arg = st
            lf = leaves[idx]
            vb = 0 if t == 'msghdr' else (self.m['hdrSize'] if t == 'msg' else pos[2])
            path = lf['path']
            nstat = len(path) if lf['kind'] == 'array' else len(path) - 1
            for j in range(1, nstat + 1):
                ch.need(vb + _prefix_off(leaves, path[:j]))
            a = vb + lf['off']
            if lf['kind'] == 'array':
                N = lf['count']
                if op != 'g':
                    ch.need(a + N)
                if op in ('e', 'w', 'E', 'W') and arg >= N:
                    ch.pre_ok = False
                if op == 'a' and arg > N:
                    ch.pre_ok = False
            else:
                ch.need(a + lf['size'])
            return None
        if k == 'H':
            if t == 'msg':
                ch.need(self.m['hdrSize'])
                return ('msghdr',)
            ch.need(pos[2] + pos[1]['dim']['size'])
            return ('dim', pos[1], pos[2])
        if k in ('G', 'D'):
            idx = st[1]
            level = self.m['level'] if t == 'msg' else pos[1]
            p, nd = self.first_dyn(pos)
            ch.need(nd)
            for g in (level['groups'] if k == 'D' else level['groups'][:idx]):
                p, nd = self.size_group(g, p)
                ch.need(nd)
            if k == 'G':
                return ('group', level['groups'][idx], p)
            for d in level['datas'][:idx]:
                p, nd = self.size_data(d, p)
                ch.need(nd)
            return ('data', level['datas'][idx], p)
        if k == 'z':
            if t == 'msg':
                ch.need(self.m['hdrSize'])
                p, nd = self.first_dyn(pos)
                if not is_flat(self.m['level']):
                    _, nd2 = self.size_level(self.m['level'], self.m['hdrSize'], self.rd(self.blOff, self.blSize))
                    ch.need(nd2)
            elif t == 'entry':
                _, nd = self.size_level(pos[1], pos[2], pos[3])
                ch.need(nd)
            elif t == 'group':
                ch.need(pos[2] + pos[1]['dim']['size'])
                _, nd = self.size_group(pos[1], pos[2])
                ch.need(nd)
            elif t == 'data':
                ch.need(pos[2] + pos[1]['lenSize'])
            return None
        if t == 'group':
            g, p = pos[1], pos[2]
            dim = g['dim']
            ch.need(p + dim['size'])
            if k == 'n':
                return None
            if p + dim['size'] > self.L:
                raise Beyond()
            bl = self.rd(p + dim['blOff'], dim['blSize'])
            if k == 'b':
                return ('iter', g, p + dim['size'], bl)
            if k == 'i':
                if st[1] >= self.rd(p + dim['numOff'], dim['numSize']):
                    ch.pre_ok = False
                return ('entry', g['level'], p + dim['size'] + st[1] * bl, bl)
            if k in ('gbk', 'ed', 'em'):
                # the entry reached through the past-the-end iterator (no Lean model of this composition: judged
                # implementation vs specification)
                ch.modelled = False
                num = self.rd(p + dim['numOff'], dim['numSize'])
                back = 1 if k in ('gbk', 'ed') else st[1]
                if not 1 <= back <= num:
                    ch.pre_ok = False
                    return ('entry', g['level'], p + dim['size'], bl)
                return ('entry', g['level'], p + dim['size'] + (num - back) * bl, bl)
        if t == 'iter':
            g, ptr, bl = pos[1:]
            if k == '+':
                if is_flat(g['level']):
                    ch.need(ptr + bl)
                    return ('iter', g, ptr + bl, bl)
                ch.need(INF if ptr > self.L else 0)
                end, nd = self.size_level(g['level'], ptr, bl)
                ch.need(max(nd, end))
                return ('iter', g, end, bl)
            if k == '*':
                return ('entry', g['level'], ptr, bl)
        if t == 'data':
            d, p = pos[1], pos[2]
            ls = d['lenSize']
            ch.need(p + ls)
            if k in ('n', 'rn'):
                return None
            if k == 'r' or k == 'a':
                ch.need(p + ls + st[1])
                return None
            if k in ('af', 'an', 'as', 'ai'):
                # the new content replaces the old one: only the new size matters
                ch.need(p + ls + st[1])
                if st[1] > 256 ** ls - 1:
                    ch.pre_ok = False
                return None
            if k in CONTAINER_OPS:
                if k not in MODELLED_OPS:
                    ch.modelled = False
                n = self.rd(p, ls)
                if p + ls + n >= GUARDED - (1 << 20):
                    ch.huge = True
                mx = 256 ** ls - 1
                # documented: the buffer holds size() elements (and the elements added)
                ch.need(p + ls + n)
                if k in ('fr', 'bk', 'pop') and n == 0:
                    ch.pre_ok = False
                if k == 'pb':
                    ch.need(p + ls + n + 1)
                    if n + 1 > mx:
                        ch.pre_ok = False
                if k == 'er' and not (st[1] <= st[2] <= n):
                    ch.pre_ok = False
                if k == 'er1' and not st[1] < n:
                    ch.pre_ok = False
                if k in ('ins', 'insr', 'insi'):
                    ch.need(p + ls + n + st[2])
                    if st[1] > n or n + st[2] > mx:
                        ch.pre_ok = False
                if k == 'ins1':
                    ch.need(p + ls + n + 1)
                    if st[1] > n or n + 1 > mx:
                        ch.pre_ok = False
                if k in ('rs', 'rv'):
                    ch.need(p + ls + max(n, st[1]))
                return None
            n = self.rd(p, ls)
            if p + ls + n >= GUARDED - (1 << 20):
                ch.huge = True
            ch.need(p + ls + n)
            if k in ('e', 'w', 're', 'rw') and st[1] >= n:
                ch.pre_ok = False
            return None
        raise ValueError('step %r on %s' % (st, t))

    def eval(self, steps):
        ch = Chain()
        pos = ('msg',)
        for st in steps:
            if pos is None:
                raise ValueError('step after a terminal accessor: %r' % (steps,))
            cpp, ops, lost_next = self.render(pos, st)
            ch.cpp.append(cpp)
            ch.lean += ops
            ch.kind = kind_name(pos, st)
            ch.view_begin = view_begin(pos)
            ch.mutating = (st[0] == 'leaf' and st[2] in ('s', 'w', 'W', 'a')) or (pos[0] == 'data' and st[0] in WRITE_DATA_OPS)
            before = ch.needs_end
            self.cur = ch
            try:
                nxt = self.advance(pos, st, ch)
                if nxt is not None and nxt[0] not in ('msg', 'msghdr'):
                    ch.view(nxt[2])
            except Beyond:
                ch.need(INF)
                nxt = lost_next
            ch.steps.append((ch.kind, ch.needs_end if ch.needs_end > before else 0, ch.view_begin))
            pos = nxt
        ch.cpp_path = '.'.join(ch.cpp)
        ch.lean_ops = ' '.join(ch.lean)
        return ch

    def goto(self, steps):
        """position after `steps` (numbers known) or raise Beyond"""
        pos = ('msg',)
        ch = Chain()
        self.cur = ch
        for st in steps:
            pos = self.advance(pos, st, ch)
        return pos


CVARS = ['plain', 'init', 'dont_move', 'init_dont_move', 'skip']
# setter variants of scalar fields: `v.NAME(value, wrapper)`; `skip` has no setters
SETVARS = ['set.plain', 'set.init', 'set.dont_move', 'set.init_dont_move']
# variant number of the protocols (harness/c10_driver.hpp `ctrav`, Drive/C10.lean `ctrav`)
VARNUM = {v: i for i, v in enumerate(CVARS + SETVARS)}


def clevel_sexp(level, base_off=0):
    fs = ' '.join('(f %d %d %d %d %d)' % (f['rel'], f['abs'], f['size'], 1 if f['is_view'] else 0,
                                           1 if f['last'] else 0) for f in level_fields(level, base_off))
    gs = ' '.join('(g (dim %d %d %d %d %d) %s)' % (
        g['dim']['size'], g['dim']['blOff'], g['dim']['blSize'], g['dim']['numOff'], g['dim']['numSize'],
        clevel_sexp(g['level'])) for g in level['groups'])
    ds = ' '.join(str(d['lenSize']) for d in level['datas'])
    return '(cl (fields %s) (groups %s) (datas %s))' % (fs, gs, ds)


def lean_ctrav_request(bo, base, img, ns, m, runs, detail=False):
    """runs: [(k, var, needs_end, ...)] with var in CVARS + SETVARS"""
    bl = [l for l in m['hdrLeaves'] if l['path'] == ['blockLength']][0]
    # `abs` of message fields includes the header; `rel` is relative to the cursor, which init_cursor puts behind it
    lv = clevel_sexp(m['level'], m['hdrSize'])
    return 'ctrav (req (bo %s) (base %d) (img x%s) (ns %s) (cmsg (hdr %d %d %d) %s) (runs %s)%s)' % (
        'be' if bo == 'big' else 'le', base, ''.join('%02x' % b for b in img), ns, m['hdrSize'], bl['off'], bl['size'],
        lv, ' '.join('(%d %d %d)' % (r[0], VARNUM[r[1]], min(r[2], INF)) for r in runs), ' (detail)' if detail else '')


def cpp_ctrav_runs(runs):
    """the run list of a `ctrav` driver line (`0`: no runs)"""
    return ';'.join('%d:%d' % (r[0], VARNUM[r[1]]) for r in runs) or '0'


class CursorSpec:
    """needs of a cursor traversal of the whole message (plain cursor; entries through cursor_range) and of
    each member accessed through each wrapper, by the SBE layout rules applied to the image"""

    def __init__(self, spec):
        self.s = spec
        self.members = []      # dict(kind, pre, needs{var}, view)
        self.pending = 0
        self.max_view = 0
        spec.cur = Chain()
        try:
            self._level(spec.m['level'], {'vb': 0, 'msg': True, 'bl': 0})
        except Beyond:
            # the traversal runs off the image behind the last recorded member: later members are not enumerated
            pass
        self.huge = spec.cur.huge

    def _add(self, kind, needs, view, field=None):
        self.members.append({'kind': kind, 'pre': self.pending, 'needs': needs, 'view': view,
                             'max_view': max(self.max_view, self.s.cur.max_view), 'field': field})
        self.pending = 0

    def _lv_end(self, view):
        s = self.s
        if view['msg']:
            if s.m['hdrSize'] > s.L:
                raise Beyond()
            return s.m['hdrSize'] + s.rd(s.blOff, s.blSize), s.m['hdrSize']
        return view['vb'] + view['bl'], 0

    def _level(self, level, view):
        s = self.s
        base_off = s.m['hdrSize'] if view['msg'] else 0
        for f in level_fields(level, base_off):
            nd = view['vb'] + f['abs'] + (0 if f['is_view'] else f['size'])
            kind = 'cursor.field.' + ('view' if f['is_view'] else 'scalar') + ('.last' if f['last'] else '')
            # a setter accesses the bytes the getter of the same wrapper accesses (Properties/C10:
            # cursor_setter_as_getter); `field`: where the plain cursor stands before the accessor, the gap
            # (cursor-relative offset) and the size, for the coverage counters
            self._add(kind, {v: nd for v in CVARS}, view['vb'],
                      None if f['is_view'] else {'cur': view['vb'] + f['abs'] - f['rel'], 'rel': f['rel'],
                                                 'size': f['size'], 'last': f['last']})
            # the cursor behind the field is the base pointer of the next accessor's check
            self.max_view = max(self.max_view, view['vb'] + f['abs'] + f['size'])
        if not level['groups'] and not level['datas']:
            return
        p, lvneed = self._lv_end(view)
        getter_need = lvneed
        first = True
        for g in level['groups']:
            dim = g['dim']
            self.max_view = max(self.max_view, p)
            hdr = p + dim['size']
            _, sz_need = (None, INF)
            try:
                endg, sz_need = s.size_group(g, p)
            except Beyond:
                endg = None
            base = lvneed if first else getter_need
            needs = {'plain': max(base, hdr), 'init': max(base, hdr), 'dont_move': base, 'init_dont_move': base,
                     'skip': max(base, sz_need, hdr)}
            self._add('cursor.group' + ('.first' if first else ''), needs, p)
            if hdr > s.L:
                raise Beyond()
            num = s.rd(p + dim['numOff'], dim['numSize'])
            bl = s.rd(p + dim['blOff'], dim['blSize'])
            q = hdr
            empty = not level_fields(g['level']) and not g['level']['groups'] and not g['level']['datas']
            if num > max(s.L, 4096):
                if bl > 0 or not is_flat(g['level']):
                    self.max_view = max(self.max_view, s.L + 1)
                raise Beyond()
            for _ in range(num):
                self.max_view = max(self.max_view, q)
                if empty:
                    self.pending = max(self.pending, q + bl)
                    q = q + bl
                else:
                    endq, _nd = s.size_level(g['level'], q, bl)
                    self._level(g['level'], {'vb': q, 'msg': False, 'bl': bl})
                    q = endq
                if q > s.L + (1 << 33):
                    raise Beyond()
            if endg is None:
                raise Beyond()
            getter_need = max(getter_need, sz_need)
            p = endg
            first = False
        for d in level['datas']:
            self.max_view = max(self.max_view, p)
            base = lvneed if first else getter_need
            nd = p + d['lenSize']
            needs = {'plain': max(base, nd), 'init': max(base, nd), 'dont_move': base, 'init_dont_move': base,
                     'skip': max(base, nd)}
            self._add('cursor.data' + ('.first' if first else ''), needs, p)
            endd, dn = s.size_data(d, p)
            getter_need = max(getter_need, dn)
            p = endd
            first = False

    def past_end(self, k, n):
        return self.members[k]['max_view'] > n

    def runs(self, max_members=None):
        """[(k, var, needs_end, kind)]: every member through the five getter variants; scalar fields also through
        the four setter variants (needs of a setter run = needs of the getter run of the same wrapper)"""
        out = []
        acc = self.s.m['hdrSize']     # init_cursor: header check
        for k, mem in enumerate(self.members):
            if max_members is not None and k >= max_members:
                break
            for v in CVARS:
                out.append((k, v, max(acc, mem['pre'], mem['needs'][v]), mem['kind']))
            if mem['field'] is not None:
                for v in SETVARS:
                    out.append((k, v, max(acc, mem['pre'], mem['needs'][v[4:]]), mem['kind']))
            acc = max(acc, mem['pre'], mem['needs']['plain'])
        return out


def exact_composites(sch, m_name):
    """False if a composite-typed field of the message begins before its first non-constant leaf (first element
    with a custom offset): the cursor accessor constants cannot be reconstructed from the leaves then"""
    types = {t['name']: t for t in sch['types'] if 'name' in t}

    def resolve(e):
        while e is not None and e.get('k') == 'ref':
            e = types.get(e.get('type'))
        return e

    def is_const(e):
        t = resolve(e)
        if t is None:
            return False
        if t.get('k') == 'type':
            return t.get('presence') == 'constant'
        if t.get('k') == 'composite':
            return all(is_const(x) for x in t['elems'])
        return False

    def first_off(e):
        """does the first non-constant element (recursively) sit at a non-zero offset of `e`?"""
        t = resolve(e)
        if t is None or t.get('k') != 'composite':
            return False
        for x in t['elems']:
            if is_const(x):
                continue
            if x.get('offset') not in (None, 0, '0'):
                return True
            return first_off(x)
        return False

    def lv(level):
        for f in level.get('fields', []):
            t = types.get(f.get('type'))
            if t and first_off(t):
                return False
        return all(lv(g) for g in level.get('groups', []))
    for m in sch['messages']:
        if m['name'] == m_name:
            return lv(m)
    return True


def view_begin(pos):
    t = pos[0]
    if t in ('msg', 'msghdr'):
        return 0
    return pos[2]


def kind_name(pos, st):
    t, k = pos[0], st[0]
    if k == 'leaf':
        op = {'g': 'get', 's': 'set', 'd': 'array.data', 'e': 'array.elem.read', 'w': 'array.elem.write',
              'a': 'array.assign_range', 'D': 'array.raw.data', 'E': 'array.raw.elem.read',
              'W': 'array.raw.elem.write'}[st[2]]
        where = {'msg': 'message', 'msghdr': 'message.header', 'entry': 'entry', 'dim': 'group.header'}.get(t, t)
        return '%s.field.%s' % (where, op)
    if k in CONTAINER_OPS:
        return 'data.' + {'fr': 'front', 'bk': 'back', 'pb': 'push_back', 'pop': 'pop_back', 'cl': 'clear',
                          'er': 'erase_range', 'er1': 'erase', 'ins': 'insert_n', 'ins1': 'insert', 'rs': 'resize_value',
                          'rv': 'resize_fill', 'af': 'assign_iter', 'an': 'assign_n', 'as': 'assign_string',
                          'ai': 'assign_ilist', 'insr': 'insert_range', 'insi': 'insert_ilist'}[k]
    names = {'gbk': 'back', 'ed': 'end.dec.deref', 'em': 'end.minus.deref',
             'H': 'get_header', 'G': 'group_view', 'D': 'data_view', 'z': 'size_bytes', 'n': 'size', 'b': 'begin',
             'i': 'operator[]', '+': 'iterator.inc', '*': 'iterator.deref', 'dd': 'data', 'e': 'elem.read',
             'w': 'elem.write', 'r': 'resize', 'a': 'assign_range', 'rn': 'raw.size', 're': 'raw.elem.read',
             'rw': 'raw.elem.write'}
    extra = ''
    if t == 'iter' and k == '+':
        extra = '.flat' if is_flat(pos[1]['level']) else '.nested'
    if t == 'group' and k in ('z',):
        extra = '.flat' if is_flat(pos[1]['level']) else '.nested'
    return '%s.%s%s' % ({'msg': 'message', 'msghdr': 'message.header'}.get(t, t), names[k], extra)


# ------------------------------------------------------------------ enumeration of accessor chains

def _bits(size):
    return int.from_bytes(bytes([0x5a] * size), 'little')


def enum_chains(spec, max_entries=2, max_chains=400, extra_counts=(), only_data=False):
    """every accessor kind of the message whose image `spec` holds, each as its own chain"""
    out = []
    seen = set()

    def add(steps):
        key = tuple(tuple(st) for st in steps)
        if len(out) < max_chains and key not in seen:
            seen.add(key)
            out.append(list(steps))

    def leaves(prefix, lvs):
        for i, lf in enumerate(lvs):
            if lf['kind'] == 'array':
                N = lf['count']
                add(prefix + [('leaf', i, 'g', 0)])
                add(prefix + [('leaf', i, 'd', 0)])
                if N > 0:
                    add(prefix + [('leaf', i, 'e', 0)])
                    add(prefix + [('leaf', i, 'e', N - 1)])
                    add(prefix + [('leaf', i, 'w', N - 1)])
                add(prefix + [('leaf', i, 'a', N)])
                # the same accesses through the byte view `raw()` of the array: a derived view must carry the end
                # pointer of the view it was derived from
                add(prefix + [('leaf', i, 'D', 0)])
                if N > 0:
                    add(prefix + [('leaf', i, 'E', 0)])
                    add(prefix + [('leaf', i, 'E', N - 1)])
                    add(prefix + [('leaf', i, 'W', N - 1)])
            else:
                add(prefix + [('leaf', i, 'g', 0)])
                add(prefix + [('leaf', i, 's', _bits(lf['size']))])

    def level(prefix, lv):
        leaves(prefix, lv['leaves'])
        add(prefix + [('z',)])
        for k, g in enumerate(lv['groups']):
            gp = prefix + [('G', k)]
            add(gp)
            add(gp + [('n',)])
            add(gp + [('z',)])
            add(gp + [('H',)])
            leaves(gp + [('H',)], g['dim']['leaves'])
            add(gp + [('b',)])
            # number of entries according to the image (if it can be read at all)
            try:
                gpos = spec.goto(gp)
                num = spec.rd(gpos[2] + g['dim']['numOff'], g['dim']['numSize'])
            except Beyond:
                continue
            flat = is_flat(g['level'])
            for j in range(min(num, max_entries)):
                it = gp + [('b',)] + [('+',)] * j + [('*',)]
                try:
                    spec.goto(it)
                except Beyond:
                    break
                if flat:
                    level(gp + [('i', j)], g['level'])
                    add(it)
                    if g['level']['leaves']:
                        add(it + [('leaf', 0, 'g', 0)])
                else:
                    level(it, g['level'])
            # iterate to the end (each ++ on its own has been covered for j < cnt)
            add(gp + [('b',)] + [('+',)] * min(num, max_entries + 1))
            if flat and num > 0:
                add(gp + [('i', num - 1)])
            if flat and 0 < num <= max(max_entries, 64):
                for st_ in (('gbk',), ('ed',), ('em', 1), ('em', num)):
                    add(gp + [st_])
                    if g['level']['leaves']:
                        add(gp + [st_, ('leaf', 0, 'g', 0)])
                        lf0 = g['level']['leaves'][-1]
                        if lf0['kind'] != 'array':
                            add(gp + [st_, ('leaf', len(g['level']['leaves']) - 1, 's', _bits(lf0['size']))])
        for k, d in enumerate(lv['datas']):
            dp = prefix + [('D', k)]
            add(dp)
            add(dp + [('n',)])
            add(dp + [('dd',)])
            add(dp + [('z',)])
            try:
                p = spec.goto(dp)
                n = spec.rd(p[2], d['lenSize'])
            except Beyond:
                continue
            mx = 256 ** d['lenSize'] - 1
            if n > 0:
                add(dp + [('e', 0)])
                add(dp + [('e', n - 1)])
                add(dp + [('w', n - 1)])
                add(dp + [('re', n - 1)])
                add(dp + [('rw', n - 1)])
            add(dp + [('rn',)])
            # counts: the stored one, the one that fits the image exactly, and one more (bounded: the driver
            # allocates the source range)
            fit = spec.L - (p[2] + d['lenSize'])
            for cnt in sorted({c for c in (n, n + 1, fit, fit + 1) + tuple(extra_counts) if 0 <= c <= min(mx, 512)}):
                add(dp + [('r', cnt)])
                add(dp + [('a', cnt)])
                add(dp + [('af', cnt)])
                add(dp + [('an', cnt)])
            # assign family with small sizes at and below the stored size (a stored prefix that already covers the
            # new size must not switch the check off), every overload
            for cnt in sorted({c for c in (0, 1, n - 1, n) + tuple(extra_counts) if 0 <= c <= min(mx, 8)}):
                add(dp + [('ai', cnt)])
                add(dp + [('as', cnt)])
                add(dp + [('a', cnt)])
            # container operations at boundary positions
            if n <= 64:
                add(dp + [('cl',)])
                add(dp + [('pb',)])
                add(dp + [('ins1', n)])
                add(dp + [('ins', 0, 1)])
                add(dp + [('er', n, n)])          # empty range at end()
                add(dp + [('rs', n)])
                add(dp + [('rv', n)])
                add(dp + [('insr', n, 2)])
                add(dp + [('insi', 0, 1)])
                if n + 1 <= mx:
                    add(dp + [('rs', n + 1)])
                    add(dp + [('rv', n + 1)])
                if n > 0:
                    add(dp + [('fr',)])
                    add(dp + [('bk',)])
                    add(dp + [('pop',)])
                    add(dp + [('er', 0, n)])      # erase(begin(), end())
                    add(dp + [('er', n - 1, n)])  # erase(last, end())
                    add(dp + [('er1', n - 1)])
                    add(dp + [('er1', 0)])

    add([('H',)])
    leaves([('H',)], spec.m['hdrLeaves'])
    level([], spec.m['level'])
    if only_data:
        # state sweep images: only the operations of <data> members
        out = [ch for ch in out if any(st[0] == 'D' for st in ch)]
    return out


# ------------------------------------------------------------------ images

def flatten_level(bo, level, v):
    out = list(v['block'])
    for g, gv in zip(level['groups'], v['groups']):
        out += gv['hdr']
        for e in gv['entries']:
            out += flatten_level(bo, g['level'], e)
    for d, dv in zip(level['datas'], v['datas']):
        out += list(len(dv).to_bytes(d['lenSize'], 'little' if bo == 'little' else 'big')) + list(dv)
    return out


def flatten_message(bo, m, v):
    return list(v['hdr']) + flatten_level(bo, m['level'], v['root'])


def header_sites(bo, m, v):
    """(offset, width, kind, value, nested) of every header value that steers a dynamic offset"""
    sites = []
    hl = [l for l in m['hdrLeaves'] if l['path'] == ['blockLength']][0]
    sites.append((hl['off'], hl['size'], 'message.blockLength',
                  int.from_bytes(bytes(v['hdr'][hl['off']:hl['off'] + hl['size']]), 'little' if bo == 'little' else 'big'),
                  False))

    def lv(level, val, pos):
        p = pos + len(val['block'])
        for g, gv in zip(level['groups'], val['groups']):
            dim = g['dim']
            nested = not is_flat(g['level'])
            bl = int.from_bytes(bytes(gv['hdr'][dim['blOff']:dim['blOff'] + dim['blSize']]),
                                'little' if bo == 'little' else 'big')
            sites.append((p + dim['blOff'], dim['blSize'], 'group.blockLength', bl, nested))
            sites.append((p + dim['numOff'], dim['numSize'], 'group.numInGroup', len(gv['entries']), nested))
            p += dim['size']
            for e in gv['entries']:
                p = lv(g['level'], e, p)
        for d, dv in zip(level['datas'], val['datas']):
            sites.append((p, d['lenSize'], 'data.length', len(dv), False))
            p += d['lenSize'] + len(dv)
        return p
    lv(m['level'], v['root'], m['hdrSize'])
    return sites


def mutate(bo, img, site, value):
    off, w = site[0], site[1]
    out = list(img)
    out[off:off + w] = list(value.to_bytes(w, 'little' if bo == 'little' else 'big'))
    return out


def mutation_values(site):
    off, w, kind, cur, nested = site
    mx = min(256 ** w - 1, (1 << 32) - 1)
    vals = {0, max(cur - 1, 0), min(cur + 1, mx)}
    if not (kind == 'group.numInGroup' and nested):
        vals.add(mx)
    else:
        vals.add(min(cur + 2, mx))
    vals.discard(cur)
    return sorted(vals)
