"""Common pipeline of every check: extract -> prove -> audit -> build ->
correspond -> decide -> evidence.  See DESIGN.md section 6."""
import fcntl
import hashlib
import json
import os
import re
import shutil
import subprocess
import sys
import time

VERIF = os.path.dirname(os.path.dirname(os.path.abspath(__file__)))
REPO = os.environ.get('VERIF_REPO', '/repo')
LEAN = os.environ.get('VERIF_LEAN_DIR', os.path.join(VERIF, 'lean'))
BUILD = os.path.join(VERIF, 'build')
EVIDENCE = os.environ.get('VERIF_EVIDENCE_DIR', os.path.join(VERIF, 'evidence'))
REPLAYS = os.path.join(EVIDENCE, 'replays')
NPROC = os.cpu_count() or 4

FORBIDDEN = re.compile(r'\b(sorry|admit|native_decide|bv_decide|implemented_by|unsafe)\b|^\s*axiom\s|maxHeartbeats\s+0')
ALLOWED_AXIOMS = {'propext', 'Classical.choice', 'Quot.sound'}

TRUSTED_BASE = [
    'Lean 4.33.0 kernel (lake build; leanchecker in thorough tiers)',
    'axioms: subset of {propext, Classical.choice, Quot.sound}, audited by #print axioms on every run; no native_decide/bv_decide',
    'translator /verif/extract (C++ kernel bodies and tables -> Lean terms); its output Sbepp/Extracted/*.lean is regenerated from /repo on every run',
    'C++ integer semantics encoded in Sbepp/Base/CInt.lean (LP64, two\'s complement, CWG1457 shifts)',
    'correspondence harnesses /verif/harness/*.cpp built against /repo with g++/clang++ (UBSan trap mode), and the line-protocol diffing in /verif/vlib',
]


def sh(cmd, cwd=None, timeout=None, env=None, input=None):
    p = subprocess.run(cmd, cwd=cwd, timeout=timeout, env=env, input=input,
                       stdout=subprocess.PIPE, stderr=subprocess.STDOUT, text=True,
                       shell=isinstance(cmd, str))
    return p.returncode, p.stdout


class Lock:
    def __init__(self, name):
        os.makedirs(BUILD, exist_ok=True)
        self.path = os.path.join(BUILD, name + '.lock')

    def __enter__(self):
        self.f = open(self.path, 'w')
        fcntl.flock(self.f, fcntl.LOCK_EX)
        return self

    def __exit__(self, *a):
        fcntl.flock(self.f, fcntl.LOCK_UN)
        self.f.close()


def file_hash(paths, extra=''):
    h = hashlib.sha256()
    h.update(extra.encode())
    for p in paths:
        h.update(p.encode())
        try:
            with open(p, 'rb') as f:
                h.update(f.read())
        except FileNotFoundError:
            h.update(b'<missing>')
    return h.hexdigest()[:20]


def repo_sources():
    out = []
    for root in ('sbepp/src', 'sbeppc/src'):
        for d, _, fs in os.walk(os.path.join(REPO, root)):
            for f in sorted(fs):
                out.append(os.path.join(d, f))
    return sorted(out)


def repo_digest():
    return file_hash(repo_sources())


def load_known_findings():
    try:
        return json.load(open(os.path.join(VERIF, 'known_findings.json')))
    except FileNotFoundError:
        return {'findings': []}


def match_finding(entry_match, case):
    """Narrow predicate: every key of `match` must be satisfied by the replay's
    `case` dict. Values: scalar (equality), {"min":..,"max":..} (numeric range),
    {"in":[..]} (membership), {"re": ".."} (regex on str(value))."""
    for k, want in entry_match.items():
        if k not in case:
            return False
        have = case[k]
        if isinstance(want, dict):
            if 'in' in want and have not in want['in']:
                return False
            if 're' in want and not re.search(want['re'], str(have)):
                return False
            if 'min' in want or 'max' in want:
                try:
                    hv = int(have)
                except (TypeError, ValueError):
                    return False
                if 'min' in want and hv < want['min']:
                    return False
                if 'max' in want and hv > want['max']:
                    return False
        elif have != want:
            return False
    return True


class Check:
    def __init__(self, prop, tier, seed):
        self.prop = prop
        self.tier = tier
        self.seed = seed
        self.t0 = time.time()
        self.violations = []       # list of (replay_path, no_input)
        self.known_hits = {}       # finding id -> count
        self.obligations = []      # theorem names
        self.discharged = []
        self.axioms = {}
        self.failed_obligations = {}
        self.cov = {'evaluations': 0, 'distinct_nontrivial': 0, 'samples': [], 'rule': ''}
        self.extra = {}
        self.assumptions = []
        self.level = 'proof'
        self.extract_report = None
        self.log_lines = []
        self.findings = [f for f in load_known_findings().get('findings', []) if f.get('property') == prop or prop in f.get('properties', [])]
        os.makedirs(BUILD, exist_ok=True)
        os.makedirs(REPLAYS, exist_ok=True)
        # keep the replay directory bounded: drop this property's replays of earlier runs (older than 6 h)
        try:
            now = time.time()
            for f in os.listdir(REPLAYS):
                if f.startswith(prop + '-'):
                    q = os.path.join(REPLAYS, f)
                    if now - os.path.getmtime(q) > 6 * 3600:
                        os.unlink(q)
        except OSError:
            pass

    def log(self, *a):
        msg = ' '.join(str(x) for x in a)
        self.log_lines.append(msg)
        print('[%s %6.1fs] %s' % (self.prop, time.time() - self.t0, msg), flush=True)

    # ------------------------------------------------------------ extract
    def extract(self):
        sys.path.insert(0, VERIF)
        from extract import run_all
        with Lock('lake'):
            self.extract_report = run_all.run(REPO, os.path.join(LEAN, 'Sbepp', 'Extracted'))
        failed = self.extract_report.get('failed', {})
        if failed:
            self.log('extraction failures:', json.dumps(failed))
        return self.extract_report

    # ------------------------------------------------------------ prove
    def lake_build(self, targets):
        with Lock('lake'):
            rc, out = sh(['lake', 'build'] + targets, cwd=LEAN, timeout=3000)
        return rc == 0, out

    def prove(self, module, theorems, extra_targets=()):
        """Build the property module; audit every obligation."""
        self.obligations = list(theorems)
        t = time.time()
        ok, out = self.lake_build([module] + list(extra_targets))
        self.log('lake build %s: %s (%.1fs)' % (module, 'ok' if ok else 'FAILED', time.time() - t))
        if not ok:
            errs = [l for l in out.splitlines() if 'error' in l][:20]
            self.extra['lake_errors'] = errs
            for th in theorems:
                self.failed_obligations[th] = 'module does not build: ' + (errs[0] if errs else '?')
            # try to find which theorems still check, by building a copy without
            # failing on first error: lean continues after errors, so ask lean
            # directly which declarations exist
            self._audit_partial(module, theorems)
            return False
        self._audit(module, theorems, extra_targets)
        return not self.failed_obligations

    def _forbidden_scan(self):
        hits = []
        for d, _, fs in os.walk(os.path.join(LEAN, 'Sbepp')):
            for f in fs:
                if not f.endswith('.lean'):
                    continue
                p = os.path.join(d, f)
                txt = open(p, encoding='utf-8').read()
                txt = re.sub(r'/-.*?-/', lambda m: '\n' * m.group(0).count('\n'), txt, flags=re.S)
                for i, line in enumerate(txt.splitlines(), 1):
                    line = line.split('--')[0]
                    if FORBIDDEN.search(line):
                        hits.append('%s:%d: %s' % (os.path.relpath(p, LEAN), i, line.strip()))
        return hits

    def _audit(self, module, theorems, extra_modules=()):
        hits = self._forbidden_scan()
        if hits:
            self.extra['forbidden_tokens'] = hits[:20]
        src = ''.join('import %s\n' % m for m in [module] + list(extra_modules)) + ''.join('#print axioms %s\n' % t for t in theorems)
        tmp = os.path.join(BUILD, 'audit_%s_%d.lean' % (self.prop, os.getpid()))
        open(tmp, 'w').write(src)
        try:
            with Lock('lake'):
                rc, out = sh(['lake', 'env', 'lean', tmp], cwd=LEAN, timeout=900)
        finally:
            os.unlink(tmp)
        # parse: "'X' depends on axioms: [a, b]" or "'X' does not depend on any axioms"
        found = {}
        for m in re.finditer(r"'([^']+)' depends on axioms: \[([^\]]*)\]", out, re.S):
            found[m.group(1)] = [a.strip() for a in m.group(2).replace('\n', ' ').split(',') if a.strip()]
        for m in re.finditer(r"'([^']+)' does not depend on any axioms", out):
            found[m.group(1)] = []
        for t in theorems:
            if t not in found:
                self.failed_obligations[t] = 'theorem not found by #print axioms'
                continue
            self.axioms[t] = found[t]
            bad = [a for a in found[t] if a not in ALLOWED_AXIOMS]
            if bad:
                self.failed_obligations[t] = 'depends on axioms outside the allowed set: %s' % bad
            elif hits:
                self.failed_obligations[t] = 'forbidden token in the Lean sources: %s' % hits[0]
            else:
                self.discharged.append(t)

    def _audit_partial(self, module, theorems):
        # module failed: nothing is counted as discharged
        pass

    def leanchecker(self, module):
        with Lock('lake'):
            rc, out = sh(['lake', 'env', 'leanchecker', module], cwd=LEAN, timeout=1800)
        self.extra.setdefault('leanchecker', {})[module] = 'ok' if rc == 0 else out[-400:]
        if rc != 0:
            for t in list(self.discharged):
                self.discharged.remove(t)
                self.failed_obligations[t] = 'leanchecker rejected ' + module
        return rc == 0

    # ------------------------------------------------------------ build
    def model_exe(self):
        ok, out = self.lake_build(['sbepp_model'])
        if not ok:
            self.log('driver build failed:\n' + out[-2000:])
            return None
        return os.path.join(LEAN, '.lake', 'build', 'bin', 'sbepp_model')

    def build_cxx(self, name, sources, flags=None, cxx='g++', std='c++17', deps=None, checks=True):
        """Compile a harness against /repo's headers; cached by content hash."""
        flags = list(flags or [])
        srcs = [os.path.join(VERIF, 'harness', s) if not os.path.isabs(s) else s for s in sources]
        hdrs = [os.path.join(REPO, 'sbepp/src/sbepp/sbepp.hpp'), os.path.join(VERIF, 'harness', 'proto.hpp')]
        hdrs += list(deps or [])
        base = ['-std=' + std, '-O1', '-g', '-I' + os.path.join(REPO, 'sbepp/src'),
                '-I' + os.path.join(VERIF, 'harness')]
        if checks:
            base += ['-fsanitize=undefined', '-fsanitize-undefined-trap-on-error']
        cmd_flags = base + flags
        key = file_hash(srcs + hdrs, extra=' '.join([cxx] + cmd_flags))
        out = os.path.join(BUILD, 'bin', '%s-%s' % (name, key))
        if os.path.exists(out):
            return out, ''
        os.makedirs(os.path.dirname(out), exist_ok=True)
        with Lock('cxx-' + name):
            if os.path.exists(out):
                return out, ''
            tmp = out + '.tmp%d' % os.getpid()
            rc, log = sh([cxx] + cmd_flags + srcs + ['-o', tmp], timeout=1200)
            if rc != 0:
                return None, log
            os.replace(tmp, out)
        return out, ''

    def run_lines(self, exe, lines, timeout=1200, env=None):
        rc, out = sh([exe], input='\n'.join(lines) + '\n', timeout=timeout, env=env)
        outs = out.splitlines()
        return rc, outs

    # ------------------------------------------------------------ decide
    def write_replay(self, replay):
        replay.setdefault('property', self.prop)
        replay.setdefault('seed', self.seed)
        replay.setdefault('repo_digest', repo_digest())
        blob = json.dumps(replay, sort_keys=True, indent=1)
        h = hashlib.sha256(blob.encode()).hexdigest()[:12]
        path = os.path.join(REPLAYS, '%s-%s.json' % (self.prop, h))
        open(path, 'w').write(blob)
        return path

    def report_failure(self, replay, case=None):
        """An input on which implementation != specification.  Suppressed only
        if it matches a known (open) finding."""
        case = case if case is not None else replay.get('case', {})
        for f in self.findings:
            if f.get('status') == 'open' and match_finding(f.get('match', {}), case):
                self.known_hits[f['id']] = self.known_hits.get(f['id'], 0) + 1
                return False
        self.failure_count = getattr(self, 'failure_count', 0) + 1
        if self.failure_count <= 5:
            path = self.write_replay(replay)
            self.violations.append((path, False))
        else:
            self.violations.append((None, False))
        return True

    def report_unproved(self, what, detail):
        """A theorem / extraction / correspondence no longer checks and no
        failing input was found."""
        self.unproved_count = getattr(self, 'unproved_count', 0) + 1
        if self.unproved_count > 5:
            # keep the count, do not flood the replay directory
            self.violations.append((None, True))
            return
        replay = {'kind': what, 'detail': detail, 'no_failing_input_found': True}
        path = self.write_replay(replay)
        self.violations.append((path, True))

    def sample(self, s):
        if len(self.cov['samples']) < 8:
            self.cov['samples'].append(s)

    def finish(self):
        wall = time.time() - self.t0
        cov = dict(self.cov)
        cov.update(self.extra)
        cov['obligations'] = len(self.obligations)
        cov['discharged'] = len(self.discharged)
        cov['obligation_names'] = self.obligations
        cov['axioms'] = self.axioms
        if self.failed_obligations:
            cov['failed_obligations'] = self.failed_obligations
        cov['checker_cmd'] = 'cd /verif/lean && lake build Sbepp.Properties.%s && lake env lean <#print axioms of each obligation>' % self.prop
        cov['trusted_base'] = TRUSTED_BASE
        if self.extract_report is not None:
            cov['extraction'] = {'failed': self.extract_report.get('failed', {}),
                                 'digest': self.extract_report.get('digest')}
        cov['known_finding_hits'] = self.known_hits
        cov['repo_digest'] = repo_digest()
        level = self.level
        if level == 'proof' and (cov['obligations'] == 0):
            level = 'translation_validation'
        ev = {
            'property_id': self.prop, 'tier': self.tier, 'seed': self.seed, 'level': level,
            'coverage': cov, 'assumptions': self.assumptions, 'wall_s': round(wall, 2),
            'violations': len(self.violations),
        }
        os.makedirs(EVIDENCE, exist_ok=True)
        tmp = os.path.join(EVIDENCE, '%s.json.tmp%d' % (self.prop, os.getpid()))
        json.dump(ev, open(tmp, 'w'), indent=1, default=str)
        os.replace(tmp, os.path.join(EVIDENCE, '%s.json' % self.prop))
        for f in self.findings:
            if f.get('status') == 'open' and self.known_hits.get(f['id']):
                print('KNOWN-FINDING: property=%s %s (%d cases matched; id=%s)' % (
                    self.prop, f['what'], self.known_hits[f['id']], f['id']))
        if self.violations:
            seen = set()
            for path, no_input in sorted(self.violations, key=lambda v: v[1]):
                if path is None or path in seen:
                    continue
                seen.add(path)
                print('VIOLATION property=%s replay=%s%s' % (
                    self.prop, path, ' no-failing-input-found' if no_input else ''))
            return 1
        print('OK property=%s tier=%s obligations=%d/%d evaluations=%d wall=%.1fs' % (
            self.prop, self.tier, len(self.discharged), len(self.obligations),
            cov.get('evaluations', 0), wall))
        return 0
