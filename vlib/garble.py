"""Structure-aware garbling of valid schemas and of sbeppc command lines
(property C09, DESIGN 5.4).

A *case* is a small directory tree plus a command line:

    {'files': {relpath: bytes},      # 'schema.xml' is the main file
     'dirs':  [relpath, ...],        # directories to create (besides parents)
     'argv':  [str, ...],            # placeholders: {OUT} output dir, {MAIN} main file
     'mutation': str,                # name of the (first) mutation, for the histogram
     'detail': str}

sbeppc is run with the case directory as its working directory (include
`href`s are resolved against the working directory by `schema_parser`).

All randomness comes from the `random.Random` handed in.
"""
import copy
import re
import xml.etree.ElementTree as ET

from . import schema as S

SBE_NS = 'http://fixprotocol.io/2016/sbe'
XI_NS = 'http://www.w3.org/2001/XInclude'
ET.register_namespace('sbe', SBE_NS)
ET.register_namespace('xi', XI_NS)

DEFAULT_ARGV = ['--output-dir', '{OUT}', '{MAIN}']

NUMBERS = ['0', '1', '-1', '-0', '+1', ' 1', '1 ', '01', '00', '000', '-00', '007', '08', '-010', '0' * 300, '0' * 300 + '7',
           '0x1', '0x10', '1.5', '1e3', '255', '256', '127', '128', '-128', '-129',
           '32767', '32768', '65534', '65535', '65536', '2147483647', '2147483648', '-2147483648', '-2147483649',
           '4294967295', '4294967296', '9223372036854775807', '9223372036854775808', '-9223372036854775808',
           '-9223372036854775809', '18446744073709551615', '18446744073709551616', '9' * 40, '9' * 400, '-' + '9' * 400,
           '1e400', '-1e400', '1e-400', 'NaN', '-NaN', '+NaN', 'nan', 'INF', '+INF', '-INF', 'inf', 'Infinity', '0x1p3',
           '1e', 'e1', '.', '-', '+', '--1', '1-', '0.0000000000000000000000000000000000000000000001', '3.4028235e38',
           '3.4028236e38', '1.7976931348623157e308', '1.7976931348623159e308', '١٢', '1 ', '1,5']
STRINGS = ['', ' ', '  ', '\t', '{', '}', '{}', '{0}', '{:d}', '{{', '}}', '{name}', '%s', '%n', '"', "'", '\\', '\\0', '\\n',
           '*/', '/*', '//', '#', '\n', 'a b', 'a-b', 'a.b', '.', '..', '../x', 'a/b', '/abs', 'x' * 300, 'x' * 5000,
           'é', '中文', '\U0001f600', '﻿', '\u0000'.replace('\u0000', '\u0001'), '_', '__x', '_X', '0abc',
           'class', 'int', 'std', 'posix', 'template', 'Byte', 'types', 'messages', 'schema', 'detail', 'sbepp', 'this',
           'operator', 'char', 'uint8', 'uint64', 'double', 'float', 'int64', 'CHAR', 'Uint8', 'messageHeader',
           'groupSizeEncoding', 'varDataEncoding', 'blockLength', 'numInGroup', 'length', 'varData', 'templateId',
           'schemaId', 'version', 'required', 'optional', 'constant', 'Required', 'littleEndian', 'bigEndian',
           'E.', '.A', 'E.A', 'E..A', 'E.A.B', 'nosuch.A']
ATTRS = ['name', 'id', 'type', 'primitiveType', 'length', 'presence', 'offset', 'minValue', 'maxValue', 'nullValue',
         'valueRef', 'encodingType', 'dimensionType', 'blockLength', 'sinceVersion', 'deprecated', 'description',
         'semanticType', 'characterEncoding', 'package', 'version', 'byteOrder', 'headerType', 'semanticVersion', 'href']
REF_ATTRS = ['type', 'encodingType', 'dimensionType', 'headerType', 'valueRef']
# numbers that stay valid for (nearly) every integer type but are not canonical C++ literals
ZERO_LED = ['0', '00', '000', '-0', '-00', '007', '08', '09', '010', '-07', '-010', '0' * 60, '0' * 300 + '7', '0' * 5000,
            '-' + '0' * 300 + '1', '0012', '100', '7']
FLOAT_TEXTS = ['0', '00', '5', '-5', '007', '010', '1e5', '1E5', '-1e-5', '5.', '.5', '-.5', '0.', '00.5', '1.0', 'NaN', 'INF',
               '-INF', '+INF', '0' * 300, '1' + '0' * 30, '3e38', '16777217', '9007199254740993', '0x1', '1f', '1.0f']
# texts that end up between the quotes of generated C++ string / character literals.  @@REF:n@@ becomes the
# character reference &#n; and @@RAW:hh..@@ the raw bytes hh.. after serialisation
LITERAL_TEXTS = ['"', "'", '\\', 'abc\\', '\\\\', '\\"', '"\\', '?', '??=', '??/', '??)', "??'", 'a?b', '*/', '/*', '//', '\\n', '\\0',
                 '\\x41', '\\u0041', '%s', '{}', '{', '}', ')"', 'R"(', ')";int x;//', 'a\nb', 'a\tb', 'a\rb', ' lead', 'trail ',
                 '@@REF:1@@', '@@REF:7@@', '@@REF:27@@', '@@REF:31@@x', '@@REF:127@@', '@@REF:0@@', 'a@@REF:0@@b', '@@REF:9@@',
                 '@@REF:10@@', '@@REF:13@@', '@@REF:1@@7', '@@REF:65536@@', '@@REF:1114112@@', '@@REF:55296@@',
                 '@@RAW:ff@@', '@@RAW:c3@@', '@@RAW:c328@@', '@@RAW:e28228@@', '@@RAW:f0288cbc@@', '@@RAW:c0af@@', '@@RAW:eda080@@',
                 'x@@RAW:80@@y', '\u00e9', '\u4e2d\u6587', '\U0001f600', '\ufeff', '\u2028', 'x' * 300, 'q"' * 2000, '\\' * 5001,
                 '?' * 3000, 'y' * 100000]
TEXT_ATTRS = ['description', 'semanticType', 'characterEncoding', 'semanticVersion']
TAGS = ['type', 'composite', 'enum', 'set', 'ref', 'validValue', 'choice', 'field', 'group', 'data', 'message', 'types',
        'messageSchema', 'include', 'unknown']
NUMERIC_ATTRS = ['id', 'length', 'offset', 'blockLength', 'sinceVersion', 'deprecated', 'version', 'minValue', 'maxValue',
                 'nullValue']


def local(tag):
    return tag.rsplit('}', 1)[-1] if isinstance(tag, str) else ''


def with_ns(tag, like):
    """keep the namespace decoration of `like` when renaming"""
    if isinstance(like, str) and like.startswith('{'):
        return like.split('}', 1)[0] + '}' + tag
    return tag


def enrich(s, rng):
    """valueRef constants and constant fields (valid), which the base
    generator does not produce"""
    s = copy.deepcopy(s)
    enums = [t for t in s['types'] if t['k'] == 'enum']
    if not enums:
        return s
    e = rng.choice(enums)
    v = rng.choice(e['values'])
    enc = e['enc']
    prim = enc
    for t in s['types']:
        if t['name'] == enc and t['k'] == 'type':
            prim = t['prim']
    if rng.random() < 0.7:
        s['types'].append({'k': 'type', 'name': 'KVR%d' % rng.randint(0, 99), 'prim': prim, 'presence': 'constant',
                           'valueRef': '%s.%s' % (e['name'], v['name'])})
    for m in s['messages']:
        if rng.random() < 0.6:
            m['fields'].append({'name': 'cf%d' % rng.randint(0, 999), 'id': rng.randint(1, 60000), 'type': e['name'],
                                'presence': 'constant', 'valueRef': '%s.%s' % (e['name'], v['name'])})
        if rng.random() < 0.4:
            m['fields'].append({'name': 'cp%d' % rng.randint(0, 999), 'id': rng.randint(1, 60000), 'type': prim,
                                'presence': 'constant', 'valueRef': '%s.%s' % (e['name'], v['name'])})
    return s


class Garbler:
    def __init__(self, rng):
        self.r = rng
        self.hist = {}

    # ------------------------------------------------------------ helpers
    def elements(self, root):
        return [e for e in root.iter() if isinstance(e.tag, str)]

    def parent_map(self, root):
        return {c: p for p in root.iter() for c in p}

    def names(self, root):
        out = []
        for e in self.elements(root):
            n = e.get('name')
            if n:
                out.append((local(e.tag), n))
        return out

    def value(self):
        r = self.r
        c = r.random()
        if c < 0.45:
            return r.choice(NUMBERS)
        if c < 0.9:
            return r.choice(STRINGS)
        return ''.join(r.choice('abcXYZ019_{}<>&"\' .-+eEé') for _ in range(r.randint(1, 12)))

    @staticmethod
    def to_bytes(root):
        data = b'<?xml version="1.0" encoding="UTF-8"?>\n' + ET.tostring(root, encoding='utf-8')
        data = re.sub(rb'@@REF:(\d+)@@', lambda m: b'&#' + m.group(1) + b';', data)
        data = re.sub(rb'@@RAW:([0-9a-f]+)@@', lambda m: bytes.fromhex(m.group(1).decode()), data)
        return data

    # ------------------------------------------------------------ tree mutations
    def m_attr_delete(self, root):
        cands = [e for e in self.elements(root) if e.attrib]
        if not cands:
            return None
        e = self.r.choice(cands)
        a = self.r.choice(sorted(e.attrib))
        del e.attrib[a]
        return '%s@%s' % (local(e.tag), a)

    def m_attr_garble(self, root):
        cands = [e for e in self.elements(root) if e.attrib]
        if not cands:
            return None
        e = self.r.choice(cands)
        a = self.r.choice(sorted(e.attrib))
        e.set(a, self.value())
        return '%s@%s' % (local(e.tag), a)

    def m_number_extreme(self, root):
        cands = [(e, a) for e in self.elements(root) for a in e.attrib if a in NUMERIC_ATTRS]
        texts = [e for e in self.elements(root) if local(e.tag) in ('choice', 'validValue')]
        if texts and (not cands or self.r.random() < 0.25):
            e = self.r.choice(texts)
            e.text = self.r.choice(NUMBERS)
            return '%s/text' % local(e.tag)
        if not cands:
            return None
        e, a = self.r.choice(cands)
        e.set(a, self.r.choice(NUMBERS))
        return '%s@%s' % (local(e.tag), a)

    def m_attr_add(self, root):
        e = self.r.choice(self.elements(root))
        a = self.r.choice(ATTRS)
        if a in REF_ATTRS and self.r.random() < 0.6:
            ns = self.names(root)
            v = self.r.choice(ns)[1] if ns else 'x'
            if a == 'valueRef':
                v = self.valueref(root)
        elif a == 'presence':
            v = self.r.choice(['required', 'optional', 'constant', 'Constant', ''])
        elif a == 'primitiveType':
            v = self.r.choice(S.PRIMS + ['string', 'CHAR', ''])
        elif a == 'byteOrder':
            v = self.r.choice(['littleEndian', 'bigEndian', 'LittleEndian', ''])
        else:
            v = self.value()
        e.set(a, v)
        return '%s@%s' % (local(e.tag), a)

    def valueref(self, root):
        enums = [e for e in self.elements(root) if local(e.tag) == 'enum' and e.get('name')]
        c = self.r.random()
        if enums and c < 0.6:
            e = self.r.choice(enums)
            vs = [v.get('name') for v in e if v.get('name')]
            return '%s.%s' % (e.get('name'), self.r.choice(vs) if vs and self.r.random() < 0.8 else 'Nope')
        ns = self.names(root)
        if ns and c < 0.9:
            return '%s.%s' % (self.r.choice(ns)[1], self.r.choice(ns)[1])
        return self.r.choice(['', '.', 'E.', '.A', 'x', 'a.b.c'])

    def m_presence_flip(self, root):
        cands = [e for e in self.elements(root) if local(e.tag) in ('type', 'field')]
        if not cands:
            return None
        e = self.r.choice(cands)
        e.set('presence', self.r.choice(['required', 'optional', 'constant']))
        if self.r.random() < 0.3:
            e.set('valueRef', self.valueref(root))
        if local(e.tag) == 'type' and self.r.random() < 0.4:
            e.text = self.r.choice([None, '', 'A', 'abc', '1', '-1', '300', '{', 'x' * 70])
        if self.r.random() < 0.3 and 'length' in e.attrib:
            del e.attrib['length']
        return local(e.tag)

    def m_const_char(self, root):
        """constant char types in all shapes (with/without value, length, valueRef)"""
        cands = [e for e in self.elements(root) if local(e.tag) == 'type']
        if not cands:
            return None
        e = self.r.choice(cands)
        e.set('presence', 'constant')
        e.set('primitiveType', self.r.choice(['char', 'char', 'uint8', 'int8']))
        for a in ('minValue', 'maxValue', 'nullValue'):
            e.attrib.pop(a, None)
        if self.r.random() < 0.5:
            e.attrib.pop('length', None)
        else:
            e.set('length', self.r.choice(['0', '1', '2', '5', '70000']))
        e.text = self.r.choice([None, None, '', 'A', 'ab', 'abcdef', '7'])
        if self.r.random() < 0.2:
            e.set('valueRef', self.valueref(root))
        return 'type'

    def m_literal_text(self, root):
        """texts that the generator pastes into C++ string/character literals; the schema stays valid, so the
        emission (utils::escape_literal) runs"""
        r = self.r
        els = self.elements(root)
        c = r.random()
        if c < 0.6:
            cands = [e for e in els if local(e.tag) in ('type', 'composite', 'enum', 'set', 'validValue', 'choice', 'field',
                                                        'group', 'data', 'message', 'messageSchema')]
            if not cands:
                return None
            e = r.choice(cands)
            a = r.choice(TEXT_ATTRS[:2] if local(e.tag) not in ('type', 'messageSchema') else TEXT_ATTRS)
            if a == 'semanticVersion' and local(e.tag) != 'messageSchema':
                a = 'description'
            e.set(a, r.choice(LITERAL_TEXTS))
            return '%s@%s' % (local(e.tag), a)
        if c < 0.8:
            # constant char types: one character and strings, length deduced or padded
            cands = [e for e in els if local(e.tag) == 'type' and e.get('presence') == 'constant'
                     and e.get('primitiveType') == 'char' and not e.get('valueRef')]
            if not cands:
                cands = [e for e in els if local(e.tag) == 'type' and e.get('presence') in (None, 'required')
                         and e.get('primitiveType') in ('char',) and e.get('name') not in ('varData',)]
                if not cands:
                    return None
                e = r.choice(cands)
                e.set('presence', 'constant')
                for a in ('minValue', 'maxValue', 'nullValue', 'offset'):
                    e.attrib.pop(a, None)
            else:
                e = r.choice(cands)
            t = r.choice(['"', "'", '\\', '?', 'a"b', "a'b", 'a\\', '\\\\', '??=', '"' * 50, '@@REF:1@@', '@@REF:1@@@@REF:2@@', 'a@@REF:9@@b',
                          '@@RAW:ff@@', '@@RAW:c3a9@@', '\u00e9', 'ab\\0cd', '%', '{}', 'x' * 3000])
            e.text = t
            if r.random() < 0.5:
                e.attrib.pop('length', None)
            else:
                e.set('length', str(r.choice([1, 2, 5, 64, 4000])))
            return 'const-char-text'
        # validValue of a char enum
        cands = [v for e in els if local(e.tag) == 'enum' and e.get('encodingType') == 'char' for v in e]
        if not cands:
            return None
        v = r.choice(cands)
        v.text = r.choice(['"', "'", '\\', '?', '@@REF:1@@', '@@REF:31@@', '@@REF:127@@', '@@RAW:ff@@', '\u00e9', '%', '{', '0'])
        return 'validValue-char'

    def m_numeric_text(self, root):
        """numbers that are valid for the type but not canonical C++ literals (leading zeros, -0, floats
        without a point); the schema stays valid, so utils::strip_leading_zeros / the float normalisation run"""
        r = self.r
        els = self.elements(root)
        c = r.random()
        ints = ('int8', 'uint8', 'int16', 'uint16', 'int32', 'uint32', 'int64', 'uint64')
        if c < 0.55:
            cands = [e for e in els if local(e.tag) == 'type' and e.get('presence') != 'constant'
                     and e.get('length') in (None, '1') and e.get('primitiveType') in ints + ('float', 'double')]
            if not cands:
                return None
            e = r.choice(cands)
            pool = FLOAT_TEXTS if e.get('primitiveType') in ('float', 'double') else ZERO_LED
            unsigned = (e.get('primitiveType') or '').startswith('u')
            for a in r.sample(['minValue', 'maxValue', 'nullValue'], r.randint(1, 3)):
                v = r.choice(pool)
                if unsigned and v.startswith('-') and r.random() < 0.8:
                    v = v[1:]
                e.set(a, v)
            if r.random() < 0.5:
                e.set('presence', 'optional')
            return 'type@min/max/null:%s' % e.get('primitiveType')
        if c < 0.75:
            cands = [e for e in els if local(e.tag) == 'type' and e.get('presence') == 'constant'
                     and e.get('primitiveType') in ints + ('float', 'double') and not e.get('valueRef')]
            if not cands:
                return None
            e = r.choice(cands)
            e.text = r.choice(FLOAT_TEXTS if e.get('primitiveType') in ('float', 'double') else ZERO_LED).lstrip(
                '-' if (e.get('primitiveType') or '').startswith('u') else '')
            return 'const:%s' % e.get('primitiveType')
        if c < 0.9:
            cands = [v for e in els if local(e.tag) == 'enum' and e.get('encodingType') != 'char' for v in e]
            if not cands:
                return None
            v = r.choice(cands)
            v.text = r.choice(['0', '00', '007', '08', '010', '0' * 100 + '5', '-0', '-07'])
            return 'validValue'
        cands = [e for e in els if e.get('id') or e.get('sinceVersion') or e.get('blockLength') or e.get('offset')]
        if not cands:
            return None
        e = r.choice(cands)
        a = r.choice([x for x in ('id', 'sinceVersion', 'deprecated', 'blockLength', 'offset', 'version') if e.get(x)] or ['id'])
        e.set(a, '0' * r.choice([1, 2, 50, 1000]) + (e.get(a) or '1'))
        return '%s@%s' % (local(e.tag), a)

    def m_header_values(self, root):
        """values written by the header fillers against small / signed / char / floating header members:
        ids, versions, block lengths at and beyond the member range, 127/128/255/256 groups or data members
        under small counters (numGroups / numVarDataFields are added when missing)"""
        r = self.r
        els = self.elements(root)
        comps = {c.get('name', '').lower(): c for c in els if local(c.tag) == 'composite'}
        msgs = [m for m in els if local(m.tag) == 'message']
        grps = [g for g in els if local(g.tag) == 'group']
        hdr = comps.get((root.get('headerType') or 'messageHeader').lower())
        small = ['uint8', 'int8', 'char', 'int16', 'uint16', 'int32', 'int64', 'float', 'double']
        edge = {'uint8': [255, 256], 'int8': [127, 128], 'char': [127, 128], 'int16': [32767, 32768], 'uint16': [65535, 65536],
                'int32': [2147483647, 2147483648], 'int64': [9223372036854775807, 9223372036854775808],
                'float': [1, 16777217], 'double': [1, 2]}
        what = r.choice(['schemaId', 'version', 'templateId', 'blockLength', 'group-blockLength', 'numGroups', 'numVarDataFields',
                         'group-numGroups', 'counter-type'])

        def member(c, name):
            for k in c:
                if k.get('name') == name:
                    return k
            return None

        def set_type(c, name, prim, add=False):
            k = member(c, name)
            if k is None:
                if not add:
                    return False
                k = ET.SubElement(c, 'type', {'name': name})
            if local(k.tag) == 'ref':
                k.tag = 'type'
                k.attrib.pop('type', None)
            k.set('primitiveType', prim)
            return True
        prim = r.choice(small)
        v = r.choice(edge[prim] + [edge[prim][0] - 1, 0])
        if what in ('schemaId', 'version') and hdr is not None:
            set_type(hdr, what, prim)
            root.set('id' if what == 'schemaId' else 'version', str(v))
        elif what == 'templateId' and hdr is not None and msgs:
            set_type(hdr, what, prim)
            r.choice(msgs).set('id', str(v))
        elif what == 'blockLength' and hdr is not None and msgs:
            set_type(hdr, what, prim)
            r.choice(msgs).set('blockLength', str(v))
        elif what == 'group-blockLength' and grps:
            g = r.choice(grps)
            d = comps.get((g.get('dimensionType') or 'groupSizeEncoding').lower())
            if d is None:
                return None
            set_type(d, 'blockLength', prim)
            g.set('blockLength', str(v))
        elif what in ('numGroups', 'numVarDataFields', 'group-numGroups'):
            prim = r.choice(['uint8', 'int8', 'char', 'uint16'])
            n = r.choice(edge[prim]) if prim != 'uint16' else r.choice([300])
            if what == 'group-numGroups':
                if not grps:
                    return None
                lvl = r.choice(grps)
                c = comps.get((lvl.get('dimensionType') or 'groupSizeEncoding').lower())
            else:
                if not msgs:
                    return None
                lvl = r.choice(msgs)
                c = hdr
            if c is None:
                return None
            name = 'numVarDataFields' if what == 'numVarDataFields' else 'numGroups'
            set_type(c, name, prim, add=True)
            tag = 'data' if name == 'numVarDataFields' else 'group'
            proto = [k for k in lvl if local(k.tag) == tag]
            if proto:
                base = proto[0]
            else:
                other = [k for k in els if local(k.tag) == tag]
                if not other:
                    return None
                base = other[0]
            have = len(proto)
            for i in range(max(0, n - have)):
                k = copy.deepcopy(base)
                for sub in list(k):
                    if local(sub.tag) in ('group', 'data'):
                        k.remove(sub)
                k.set('name', '%s_n%d' % (tag, i))
                k.set('id', str(30000 + i))
                lvl.append(k)            # groups after fields, data after groups: appended copies keep the order for data
            if tag == 'group':
                # keep fields -> groups -> data order
                kids = list(lvl)
                for k in kids:
                    lvl.remove(k)
                order = {'field': 0, 'group': 1, 'data': 2}
                kids.sort(key=lambda k: order.get(local(k.tag), 0))
                lvl.extend(kids)
            v = n
        else:
            cands = [c for c in comps.values() if member(c, 'blockLength') is not None or member(c, 'length') is not None]
            if not cands:
                return None
            c = r.choice(cands)
            names = [k.get('name') for k in c if k.get('name') in ('blockLength', 'numInGroup', 'length', 'templateId', 'schemaId',
                                                                     'version', 'numGroups', 'numVarDataFields')]
            if not names:
                return None
            set_type(c, r.choice(names), prim)
        return '%s:%s=%s' % (what, prim, v)

    def m_enum_dup(self, root):
        """two validValues with the same value in different spellings (`1`/`01`, `0`/`-0`, chars)"""
        r = self.r
        enums = [e for e in self.elements(root) if local(e.tag) == 'enum' and len(e) >= 1]
        if not enums:
            return None
        e = r.choice(enums)
        vals = [v for v in e if local(v.tag) == 'validValue']
        if not vals:
            return None
        a = r.choice(vals)
        t = (a.text or '0').strip()
        if len(vals) >= 2 and r.random() < 0.7:
            b = r.choice([v for v in vals if v is not a])
        else:
            b = copy.deepcopy(a)
            b.set('name', (a.get('name') or 'v') + '_dup')
            e.append(b)
        if e.get('encodingType') == 'char':
            b.text = r.choice([t, t, t.lower(), t.upper(), '0', '00'])
            if r.random() < 0.3:
                a.text = '0'
        else:
            spell = r.choice(['same', 'zero', 'zeros', 'minus0', 'plus'])
            if spell == 'same':
                b.text = t
            elif spell == 'zero':
                b.text = '0' + t.lstrip('-') if not t.startswith('-') else '-0' + t[1:]
            elif spell == 'zeros':
                b.text = '0' * r.choice([2, 50, 2000]) + t.lstrip('-')
            elif spell == 'minus0':
                a.text = '0'
                b.text = r.choice(['-0', '-00', '00', '-000'])
            else:
                b.text = '+' + t
        return '%s:%s' % (e.get('encodingType'), b.text[:12])

    def m_elem_delete(self, root):
        pm = self.parent_map(root)
        cands = [e for e in self.elements(root) if e in pm]
        if not cands:
            return None
        e = self.r.choice(cands)
        pm[e].remove(e)
        return local(e.tag)

    def m_elem_dup(self, root):
        pm = self.parent_map(root)
        cands = [e for e in self.elements(root) if e in pm]
        if not cands:
            return None
        e = self.r.choice(cands)
        p = pm[e]
        c = copy.deepcopy(e)
        if self.r.random() < 0.5 and c.get('name'):
            c.set('name', self.r.choice([c.get('name').upper(), c.get('name').lower(), c.get('name') + '_0',
                                         c.get('name') + '_1']))
        p.insert(list(p).index(e) + self.r.randint(0, 1), c)
        return local(e.tag)

    def m_elem_move(self, root):
        pm = self.parent_map(root)
        cands = [e for e in self.elements(root) if e in pm]
        if len(cands) < 2:
            return None
        e = self.r.choice(cands)
        sub = set(e.iter())
        targets = [t for t in self.elements(root) if t not in sub]
        if not targets:
            return None
        t = self.r.choice(targets)
        pm[e].remove(e)
        t.insert(self.r.randint(0, len(t)), e)
        return '%s->%s' % (local(e.tag), local(t.tag))

    def m_elem_swap(self, root):
        cands = [p for p in self.elements(root) if len(p) >= 2]
        if not cands:
            return None
        p = self.r.choice(cands)
        kids = list(p)
        i, j = self.r.sample(range(len(kids)), 2)
        kids[i], kids[j] = kids[j], kids[i]
        for k in list(p):
            p.remove(k)
        p.extend(kids)
        return local(p.tag)

    def m_elem_rename(self, root):
        e = self.r.choice(self.elements(root))
        old = local(e.tag)
        new = self.r.choice(TAGS)
        e.tag = with_ns(new, e.tag) if self.r.random() < 0.5 else new
        return '%s->%s' % (old, new)

    def m_text_garble(self, root):
        cands = [e for e in self.elements(root) if local(e.tag) in ('validValue', 'choice', 'type')]
        if not cands:
            return None
        e = self.r.choice(cands)
        e.text = self.r.choice([None, '', ' ', self.value()])
        return local(e.tag)

    def m_ref_retarget(self, root):
        """point a reference attribute at an entity of every other kind"""
        cands = [(e, a) for e in self.elements(root) for a in REF_ATTRS if a in e.attrib]
        if not cands:
            return None
        e, a = self.r.choice(cands)
        ns = self.names(root)
        kind, target = self.r.choice(ns) if ns else ('x', 'x')
        c = self.r.random()
        if c < 0.1:
            target = e.get('name', target)           # itself
            kind = 'self'
        elif c < 0.2:
            target = self.r.choice(S.PRIMS)
            kind = 'primitive'
        elif c < 0.3:
            target = target.swapcase()
        if a == 'valueRef':
            target = self.valueref(root)
        e.set(a, target)
        return '%s@%s->%s' % (local(e.tag), a, kind)

    def m_header_garble(self, root):
        """level-header composites: members as ref / composite / enum / set,
        arrays, constants, missing members"""
        comps = [e for e in self.elements(root) if local(e.tag) == 'composite']
        hdr = [c for c in comps if any(k.get('name') in ('blockLength', 'numInGroup', 'length', 'varData', 'templateId',
                                                         'schemaId', 'version') for k in c)]
        if not hdr:
            return None
        c = self.r.choice(hdr)
        kids = [k for k in c if k.get('name') in ('blockLength', 'numInGroup', 'length', 'varData', 'templateId',
                                                  'schemaId', 'version', 'numGroups', 'numVarDataFields')]
        k = self.r.choice(kids)
        what = self.r.choice(['ref', 'ref-nonexistent', 'ref-composite', 'ref-enum', 'composite', 'enum', 'set', 'array',
                              'constant', 'optional', 'float', 'char', 'int8', 'delete', 'length0', 'rename-case'])
        name = k.get('name')
        ns = self.names(root)
        if what.startswith('ref'):
            k.tag = 'ref'
            for a in list(k.attrib):
                if a != 'name':
                    del k.attrib[a]
            pick = {'ref': 'type', 'ref-composite': 'composite', 'ref-enum': 'enum'}.get(what)
            tn = [n for kk, n in ns if kk == pick] if pick else []
            k.set('type', self.r.choice(tn) if tn else 'NoSuchType')
        elif what in ('composite', 'enum', 'set'):
            k.tag = what
            if what != 'composite':
                k.set('encodingType', 'uint8')
        elif what == 'array':
            k.set('length', self.r.choice(['0', '2', '3']))
        elif what == 'constant':
            k.set('presence', 'constant')
            k.text = '1'
        elif what == 'optional':
            k.set('presence', 'optional')
        elif what in ('float', 'char', 'int8'):
            k.set('primitiveType', what)
        elif what == 'delete':
            c.remove(k)
        elif what == 'length0':
            k.set('length', '0')
        else:
            k.set('name', name.swapcase())
        return '%s:%s' % (name, what)

    def m_name_clash(self, root):
        cands = [e for e in self.elements(root) if e.get('name')]
        if not cands:
            return None
        e = self.r.choice(cands)
        ns = self.names(root)
        c = self.r.random()
        if c < 0.5 and ns:
            other = self.r.choice(ns)[1]
            e.set('name', self.r.choice([other, other.upper(), other.lower(), other + '_0', other + '_entry']))
        else:
            e.set('name', self.r.choice(STRINGS))
        return local(e.tag)

    def m_long_name(self, root):
        """names around and beyond NAME_MAX (255): file and directory names"""
        cands = [e for e in self.elements(root) if e.get('name') and local(e.tag) in
                 ('type', 'composite', 'enum', 'set', 'message', 'group', 'field')]
        if not cands:
            return None
        e = self.r.choice(cands)
        n = self.r.choice([200, 250, 251, 252, 255, 256, 300, 1000, 5000])
        e.set('name', 'L' + 'n' * (n - 1))
        return '%s:%d' % (local(e.tag), n)

    def m_schema_attr(self, root):
        a = self.r.choice(['package', 'id', 'version', 'byteOrder', 'headerType', 'semanticVersion', 'description'])
        c = self.r.random()
        if c < 0.3:
            root.attrib.pop(a, None)
        else:
            root.set(a, self.value())
        return a

    def m_many(self, root):
        """size stress: many members / types / choices / validValues"""
        cands = [e for e in self.elements(root) if local(e.tag) in ('field', 'type', 'validValue', 'choice', 'message')]
        if not cands:
            return None
        e = self.r.choice(cands)
        pm = self.parent_map(root)
        if e not in pm:
            return None
        n = self.r.choice([50, 300, 2000])
        p = pm[e]
        for i in range(n):
            c = copy.deepcopy(e)
            if c.get('name'):
                c.set('name', '%s_%d' % (c.get('name'), i))
            if c.get('id'):
                c.set('id', str(20000 + i))
            p.append(c)
        return '%s*%d' % (local(e.tag), n)

    TREE_MUTATIONS = [
        ('attr-delete', 'm_attr_delete', 10), ('attr-garble', 'm_attr_garble', 12), ('attr-add', 'm_attr_add', 8),
        ('number-extreme', 'm_number_extreme', 10), ('presence-flip', 'm_presence_flip', 6),
        ('const-char', 'm_const_char', 4), ('elem-delete', 'm_elem_delete', 8), ('elem-dup', 'm_elem_dup', 6),
        ('elem-move', 'm_elem_move', 8), ('elem-swap', 'm_elem_swap', 3), ('elem-rename', 'm_elem_rename', 5),
        ('text-garble', 'm_text_garble', 5), ('ref-retarget', 'm_ref_retarget', 12), ('header-garble', 'm_header_garble', 8),
        ('name-clash', 'm_name_clash', 6), ('long-name', 'm_long_name', 2), ('schema-attr', 'm_schema_attr', 4),
        ('many', 'm_many', 1), ('literal-text', 'm_literal_text', 12), ('numeric-text', 'm_numeric_text', 10),
        ('header-values', 'm_header_values', 10), ('enum-dup', 'm_enum_dup', 5),
    ]

    def tree_case(self, xml_text):
        root = ET.fromstring(xml_text)
        names, weights = [], []
        for n, f, w in self.TREE_MUTATIONS:
            names.append((n, f))
            weights.append(w)
        k = self.r.choice([1, 1, 1, 2, 2, 3])
        done = []
        for _ in range(k):
            n, f = self.r.choices(names, weights)[0]
            d = getattr(self, f)(root)
            if d is not None:
                done.append((n, d))
        if not done:
            done = [('attr-garble', self.m_attr_garble(root) or '-')]
        try:
            data = self.to_bytes(root)
        except Exception:      # a name ET cannot serialise (e.g. control char): fall back to text
            data = xml_text.encode()
        return {'files': {'schema.xml': data}, 'argv': list(DEFAULT_ARGV), 'mutation': done[0][0],
                'detail': '; '.join('%s(%s)' % x for x in done)}

    # ------------------------------------------------------------ text / byte level
    def text_case(self, xml_text):
        r = self.r
        data = xml_text.encode('utf-8')
        kind = r.choice(['truncate', 'truncate', 'byte-noise', 'byte-noise', 'line-delete', 'line-dup', 'empty', 'attr-dup',
                         'encoding-latin1', 'encoding-utf16', 'encoding-utf32', 'bom', 'nul', 'doctype', 'pi', 'cdata',
                         'entity', 'whitespace-only', 'huge-attr', 'no-root', 'two-roots', 'comment-root', 'crlf',
                         'encoding-bogus'])
        detail = ''
        if kind == 'truncate':
            n = r.randint(0, len(data))
            data = data[:n]
            detail = 'at %d' % n
        elif kind == 'byte-noise':
            b = bytearray(data)
            k = r.choice([1, 1, 2, 5, 20, 200])
            for _ in range(k):
                if not b:
                    break
                i = r.randrange(len(b))
                op = r.random()
                if op < 0.5:
                    b[i] = r.choice([0, 1, 0x7f, 0x80, 0xff, 0x3c, 0x3e, 0x26, 0x22, 0x27, 0x7b, 0x7d, 0x5c, r.randrange(256)])
                elif op < 0.75:
                    del b[i]
                else:
                    b.insert(i, r.randrange(256))
            data = bytes(b)
            detail = '%d bytes' % k
        elif kind == 'line-delete':
            ls = data.split(b'\n')
            for _ in range(r.choice([1, 1, 2, 5])):
                if ls:
                    del ls[r.randrange(len(ls))]
            data = b'\n'.join(ls)
        elif kind == 'line-dup':
            ls = data.split(b'\n')
            i = r.randrange(len(ls))
            ls.insert(i, ls[i])
            data = b'\n'.join(ls)
        elif kind == 'empty':
            data = b''
        elif kind == 'whitespace-only':
            data = r.choice([b' ', b'\n', b'\n\n\n', b'\xef\xbb\xbf', b'\x00', b'<', b'<?xml version="1.0"?>'])
        elif kind == 'attr-dup':
            data = re.sub(rb' name="([^"]*)"', lambda m: m.group(0) + b' name="dup"', data, count=r.randint(1, 3))
        elif kind == 'encoding-latin1':
            # declared single-byte encoding with many high bytes: pugixml converts the
            # buffer to UTF-8 (it grows), node offsets then refer to the converted buffer
            body = xml_text.split('?>', 1)[1]
            pad = 'é' * r.choice([1, 50, 400, 3000])
            where = r.choice(['front', 'desc', 'tail'])
            if where == 'front':
                body = '<!-- %s -->' % pad + body
            elif where == 'desc':
                body = body.replace('package=', 'description="%s" package=' % pad, 1)
            else:
                body = body + '<!-- %s -->' % pad
            if r.random() < 0.7:
                # make sure a diagnostic with a location is produced late in the file
                body = body.replace('</sbe:messageSchema>', '<sbe:message name="%s" id="x"/></sbe:messageSchema>' %
                                    r.choice(['Late', '9bad', 'class']))
            data = ('<?xml version="1.0" encoding="%s"?>' % r.choice(['latin1', 'ISO-8859-1', 'iso-8859-1'])).encode() + \
                body.encode('latin-1', 'replace')
            detail = '%s pad=%d' % (where, len(pad))
        elif kind == 'encoding-utf16':
            enc = r.choice(['utf-16', 'utf-16-le', 'utf-16-be'])
            data = xml_text.replace('UTF-8', 'UTF-16').encode(enc)
            detail = enc
        elif kind == 'encoding-utf32':
            enc = r.choice(['utf-32', 'utf-32-le', 'utf-32-be'])
            data = xml_text.replace('UTF-8', 'UTF-32').encode(enc)
            detail = enc
        elif kind == 'encoding-bogus':
            data = xml_text.replace('UTF-8', r.choice(['EBCDIC', 'utf-7', '', 'x' * 300, 'UTF-16'])).encode()
        elif kind == 'bom':
            data = r.choice([b'\xef\xbb\xbf', b'\xff\xfe', b'\xfe\xff', b'\xff\xfe\x00\x00', b'\x00\x00\xfe\xff']) + data
        elif kind == 'nul':
            i = r.randrange(len(data))
            data = data[:i] + b'\x00' + data[i:]
        elif kind == 'doctype':
            data = data.replace(b'?>\n', b'?>\n<!DOCTYPE x [<!ENTITY a "aaaaaaaaaa"><!ENTITY b "&a;&a;&a;&a;&a;&a;&a;&a;">]>\n', 1)
            data = data.replace(b'package="', b'description="&b;" package="', 1)
        elif kind == 'pi':
            pi = r.choice([b'<?include href="x.xml"?>', b'<?x?>', b'<?xml version="1.0"?>', b'<? ?>', b'<?a b'])
            ls = data.split(b'\n')
            ls.insert(r.randrange(1, len(ls)), pi)
            data = b'\n'.join(ls)
        elif kind == 'cdata':
            data = re.sub(rb'>([^<>\s][^<>]*)</', lambda m: b'><![CDATA[' + m.group(1) + b']]></', data, count=3)
            if r.random() < 0.5:
                data = data.replace(b'<types>', b'<types><![CDATA[ stray ]]>text', 1)
        elif kind == 'entity':
            data = data.replace(b'name="', r.choice([b'name="&lt;', b'name="&#123;', b'name="&#0;', b'name="&nosuch;',
                                                     b'name="&#x7b;&#x7d;', b'name="&amp;']), r.randint(1, 2))
        elif kind == 'huge-attr':
            n = r.choice([10 ** 4, 10 ** 6])
            data = data.replace(b'package="', b'description="' + b'd' * n + b'" package="', 1)
            detail = str(n)
        elif kind == 'no-root':
            data = b'<?xml version="1.0"?>\n<types/>\n'
        elif kind == 'two-roots':
            body = data.split(b'?>', 1)[1]
            data = b'<?xml version="1.0"?>' + body + body
        elif kind == 'comment-root':
            data = b'<?xml version="1.0"?><!-- c --><other/><!-- d -->' + data.split(b'?>', 1)[1]
        elif kind == 'crlf':
            data = data.replace(b'\n', r.choice([b'\r\n', b'\r', b'\n\n', b'']))
        return {'files': {'schema.xml': data}, 'argv': list(DEFAULT_ARGV), 'mutation': kind, 'detail': detail}

    # ------------------------------------------------------------ nesting depth
    def depth_case(self, xml_text):
        r = self.r
        kind = r.choice(['nest-composite', 'nest-group', 'nest-unknown', 'nest-types'])
        # schema_parser refuses more than 64 levels of composites / groups
        n = r.choice([10, 60, 64, 65, 300, 5000, 20000, 100000, 500000])
        if kind == 'nest-composite':
            inner = '<type name="leaf" primitiveType="uint8"/>'
            opn = ''.join('<composite name="c%d">' % i for i in range(n))
            blob = opn + inner + '</composite>' * n
            data = xml_text.replace('</types>', blob + '</types>', 1)
        elif kind == 'nest-group':
            opn = ''.join('<group name="g%d" id="%d" dimensionType="groupSizeEncoding">' % (i, i % 60000) for i in range(n))
            blob = opn + '</group>' * n
            data = re.sub(r'(<sbe:message [^>]*[^/]>)(.*?)(</sbe:message>)',
                          lambda m: m.group(1) + m.group(2) + blob + m.group(3), xml_text, count=1, flags=re.S)
            if blob not in data:
                data = xml_text.replace('</sbe:messageSchema>',
                                        '<sbe:message name="Deep" id="999">' + blob + '</sbe:message></sbe:messageSchema>')
        elif kind == 'nest-unknown':
            data = xml_text.replace('</types>', '<x>' * n + '</x>' * n + '</types>', 1)
        else:
            data = xml_text.replace('<types>', '<types>' * 1 + '<types>' * 0, 1)
            data = data.replace('</sbe:messageSchema>', '<types>' * n + '</types>' * n + '</sbe:messageSchema>')
        return {'files': {'schema.xml': data.encode()}, 'argv': list(DEFAULT_ARGV), 'mutation': kind, 'detail': 'depth=%d' % n}

    # ------------------------------------------------------------ include graphs
    def include_case(self, xml_text):
        r = self.r
        kind = r.choice(['include-split', 'include-split', 'include-missing', 'include-self', 'include-cycle2',
                         'include-cycle3', 'include-dir', 'include-empty', 'include-nohref', 'include-emptyhref',
                         'include-dup', 'include-chain', 'include-full-schema', 'include-malformed', 'include-brace',
                         'include-main', 'include-dup-types', 'include-outside-schema', 'include-truncated'])
        root = ET.fromstring(xml_text)
        types = [e for e in root if local(e.tag) == 'types']
        files, dirs = {}, []
        inc = lambda href: ET.Element('{%s}include' % XI_NS, {'href': href} if href is not None else {})  # noqa: E731
        detail = ''
        hdr = b'<?xml version="1.0" encoding="UTF-8"?>\n'
        if kind in ('include-split', 'include-dup', 'include-chain', 'include-dup-types', 'include-truncated') and types:
            t = types[0]
            idx = list(root).index(t)
            root.remove(t)
            root.insert(idx, inc('types.xml'))
            files['types.xml'] = hdr + ET.tostring(t, encoding='utf-8')
            if kind == 'include-dup':
                root.insert(idx, inc('types.xml'))
            elif kind == 'include-dup-types':
                root.insert(idx + 1, copy.deepcopy(t))
            elif kind == 'include-truncated':
                files['types.xml'] = files['types.xml'][:r.randint(0, len(files['types.xml']))]
            elif kind == 'include-chain':
                n = r.choice([2, 10, 100, 1000])
                detail = 'chain=%d' % n
                files['types.xml'] = hdr + b'<xi:include xmlns:xi="%s" href="c0.xml"/>' % XI_NS.encode()
                for i in range(n):
                    nxt = 'c%d.xml' % (i + 1)
                    files['c%d.xml' % i] = hdr + b'<xi:include xmlns:xi="%s" href="%s"/>' % (XI_NS.encode(), nxt.encode())
                files['c%d.xml' % n] = hdr + ET.tostring(t, encoding='utf-8')
        elif kind == 'include-missing':
            root.insert(r.randint(0, len(root)), inc('missing.xml'))
        elif kind == 'include-self':
            # the included document's top level is scanned for types/message/include:
            # a file consisting of an include of itself recurses for ever
            root.insert(r.randint(0, len(root)), inc('self.xml'))
            files['self.xml'] = hdr + b'<xi:include xmlns:xi="%s" href="self.xml"/>' % XI_NS.encode()
        elif kind == 'include-main':
            # including the main file again: its root is messageSchema, which an
            # included document ignores (warning) -> terminates
            root.insert(r.randint(0, len(root)), inc('schema.xml'))
        elif kind in ('include-cycle2', 'include-cycle3'):
            n = 2 if kind == 'include-cycle2' else 3
            root.insert(r.randint(0, len(root)), inc('a0.xml'))
            for i in range(n):
                files['a%d.xml' % i] = hdr + b'<xi:include xmlns:xi="%s" href="a%d.xml"/>' % (XI_NS.encode(), (i + 1) % n)
        elif kind == 'include-dir':
            root.insert(r.randint(0, len(root)), inc('adir'))
            dirs.append('adir')
        elif kind == 'include-empty':
            root.insert(r.randint(0, len(root)), inc('empty.xml'))
            files['empty.xml'] = b''
        elif kind == 'include-nohref':
            root.insert(r.randint(0, len(root)), inc(None))
        elif kind == 'include-emptyhref':
            root.insert(r.randint(0, len(root)), inc(''))
        elif kind == 'include-full-schema':
            root.insert(r.randint(0, len(root)), inc('other.xml'))
            files['other.xml'] = xml_text.encode()
        elif kind == 'include-malformed':
            root.insert(r.randint(0, len(root)), inc('bad.xml'))
            files['bad.xml'] = r.choice([b'<types>', b'<a></b>', b'\xff\xfe<', b'<types><type/></types>', b'&'])
        elif kind == 'include-brace':
            href = r.choice(['{}.xml', 'a{b.xml', 'x}.xml', '{0}', '{{}}.xml'])
            root.insert(r.randint(0, len(root)), inc(href))
            if r.random() < 0.5:
                files[href] = hdr + b'<types/>'
            detail = href
        elif kind == 'include-outside-schema':
            files['schema.xml'] = hdr + b'<xi:include xmlns:xi="%s" href="schema.xml"/>' % XI_NS.encode()
            return {'files': files, 'dirs': dirs, 'argv': list(DEFAULT_ARGV), 'mutation': kind, 'detail': detail}
        files['schema.xml'] = hdr + ET.tostring(root, encoding='utf-8')
        return {'files': files, 'dirs': dirs, 'argv': list(DEFAULT_ARGV), 'mutation': kind, 'detail': detail}

    # ------------------------------------------------------------ argv
    ARGV_KINDS = ['no-args', 'help', 'version', 'missing-file', 'dir-as-file', 'unknown-option', 'short-option',
                  'option-no-value', 'outdir-nested-new', 'outdir-is-file', 'outdir-under-file', 'outdir-proc',
                  'outdir-empty', 'repeated-options', 'schema-name-bad', 'schema-name-ok', 'inject-include', 'dashdash',
                  'two-files', 'option-after-file', 'brace-arg', 'brace-file', 'empty-arg', 'special-file', 'long-path',
                  'dash-file', 'outdir-long', 'help-after-error', 'nul-device-out']

    def argv_case(self, xml_text):
        r = self.r
        kind = r.choice(self.ARGV_KINDS)
        files = {'schema.xml': xml_text.encode()}
        dirs = []
        a = list(DEFAULT_ARGV)
        detail = ''
        if kind == 'no-args':
            a = []
        elif kind == 'help':
            a = r.choice([['--help'], ['--help', '{MAIN}'], ['--output-dir', '{OUT}', '--help'], ['{MAIN}', '--help']])
        elif kind == 'version':
            a = r.choice([['--version'], ['--version', '--help'], ['--schema-name', 'x', '--version']])
        elif kind == 'missing-file':
            a = ['--output-dir', '{OUT}', r.choice(['nosuch.xml', 'no/such/dir/x.xml', 'schema.xml/x', ''])]
        elif kind == 'dir-as-file':
            dirs.append('somedir')
            a = ['--output-dir', '{OUT}', r.choice(['somedir', '.', '..', '/', 'somedir/'])]
        elif kind == 'unknown-option':
            a = [r.choice(['--foo', '--output', '--schema_name', '--output-dir=x', '---', '--Help'])] + a
        elif kind == 'short-option':
            a = [r.choice(['-h', '-o', '-', '-v', '-x{MAIN}'])] + a
        elif kind == 'option-no-value':
            a = r.choice([['--output-dir'], ['{MAIN}', '--output-dir'], ['--schema-name'], ['--inject-include'],
                          ['--output-dir', '{OUT}', '--schema-name']])
        elif kind == 'outdir-nested-new':
            a = ['--output-dir', '{OUT}/a/b/c/d', '{MAIN}']
        elif kind == 'outdir-is-file':
            a = ['--output-dir', '{MAIN}', '{MAIN}']
        elif kind == 'outdir-under-file':
            a = ['--output-dir', '{MAIN}/sub', '{MAIN}']
        elif kind == 'outdir-proc':
            a = ['--output-dir', r.choice(['/proc/sbeppc-verif-out', '/dev/null/x', '/sys/sbeppc-verif-out',
                                           '/proc/self/fd/out']), '{MAIN}']
        elif kind == 'nul-device-out':
            a = ['--output-dir', '/dev/null', '{MAIN}']
        elif kind == 'outdir-empty':
            a = ['--output-dir', '', '{MAIN}']
        elif kind == 'outdir-long':
            n = r.choice([250, 256, 300, 5000])
            a = ['--output-dir', '{OUT}/' + 'd' * n, '{MAIN}']
            detail = str(n)
        elif kind == 'repeated-options':
            a = ['--output-dir', '{OUT}/first', '--schema-name', 'one', '--output-dir', '{OUT}', '--schema-name', 'two',
                 '--inject-include', 'a.h', '--inject-include', 'b.h', '{MAIN}']
        elif kind == 'schema-name-bad':
            v = r.choice(['', 'class', 'std', 'posix', '{}', '{', 'a/b', '../x', 'a b', '9x', 'x' * 300, 'x' * 5000, '-x', '--',
                          '__x', '_X', 'é', 'a.b', 'a{0}b'])
            a = ['--schema-name', v] + a
            detail = v[:20]
        elif kind == 'schema-name-ok':
            a = ['--schema-name', r.choice(['ok', 'x' * 200, 'x' * 255, '_', 'A1_'])] + a
        elif kind == 'inject-include':
            v = r.choice(['a.h', '', '"', '{}', '../../x.h', 'x' * 10000, '\n#error x', '\\'])
            a = ['--inject-include', v] + a
        elif kind == 'dashdash':
            a = r.choice([['--output-dir', '{OUT}', '--', '{MAIN}'], ['--'], ['--', '--help'], ['--', '{MAIN}', 'x'],
                          ['--output-dir', '{OUT}', '--', '-weird.xml'], ['--', '--', '{MAIN}']])
            files['-weird.xml'] = xml_text.encode()
        elif kind == 'two-files':
            a = ['--output-dir', '{OUT}', '{MAIN}', '{MAIN}']
        elif kind == 'option-after-file':
            a = ['{MAIN}', '--output-dir', '{OUT}']
        elif kind == 'brace-arg':
            a = [r.choice(['-{}', '--{', '-}', '-{0}', '--{x}', '-{{}}'])] + a
        elif kind == 'brace-file':
            fn = r.choice(['no{such}.xml', '{}.xml', 'a}b.xml', '{', '{{x}}.xml'])
            if r.random() < 0.5:
                files[fn] = xml_text.encode()
            elif r.random() < 0.5:
                files[fn] = b'<broken'
            a = ['--output-dir', '{OUT}', fn]
            detail = fn
        elif kind == 'empty-arg':
            a = r.choice([[''], ['', '{MAIN}'], ['--output-dir', '{OUT}', '']])
        elif kind == 'special-file':
            a = ['--output-dir', '{OUT}', r.choice(['/dev/null', '/dev/zero', '/proc/self/status', '/proc/self/cmdline',
                                                    '/dev/stdin', '/proc/self/environ', '/dev/full'])]
        elif kind == 'long-path':
            a = ['--output-dir', '{OUT}', 'x' * r.choice([255, 256, 4095, 4096, 10000])]
        elif kind == 'dash-file':
            files['-weird.xml'] = xml_text.encode()
            a = ['--output-dir', '{OUT}', '-weird.xml']
        elif kind == 'help-after-error':
            a = ['--bogus', '--help']
        return {'files': files, 'dirs': dirs, 'argv': a, 'mutation': 'argv:' + kind, 'detail': detail}

    # ------------------------------------------------------------ driver
    def case(self, xml_text):
        c = self.r.random()
        if c < 0.62:
            case = self.tree_case(xml_text)
        elif c < 0.78:
            case = self.text_case(xml_text)
        elif c < 0.88:
            case = self.include_case(xml_text)
        elif c < 0.96:
            case = self.argv_case(xml_text)
        else:
            case = self.depth_case(xml_text)
        case.setdefault('dirs', [])
        # a diagnostic echoes names: occasionally combine an argv option with a garbled tree
        if case['mutation'] in ('attr-garble', 'ref-retarget') and self.r.random() < 0.1:
            case['argv'] = ['--schema-name', self.r.choice(['ok', 'class', '{}'])] + case['argv']
        self.hist[case['mutation']] = self.hist.get(case['mutation'], 0) + 1
        return case
