"""C11 (read-only views cannot mutate the buffer): per-schema generated probes
on a `wire.SchemaCase` (real sbeppc output).

(a) `static_tu`   one translation unit of detection-idiom static_asserts (the
                  `is_invocable` helper of /repo/test/src/sbepp/test/utils.hpp):
                  every generated setter of every message / entry / composite
                  (incl. header composites), every header filler, array
                  mutators, cursor setters x 4 byte combinations (+ wrappers),
                  `set_by_tag`; every negative probe has its positive twin on the
                  mutable view in the same TU.  Conversion probes (c) live in the
                  same TU.
(b) `negative_tus` tiny TUs for members that are not SFINAE guarded (group
                  resize/clear, writes through element handles): compiled twice,
                  `-DC11_CONST` must fail, without it must succeed.
(d) `runtime_driver` checksum / read-only-page probe around complete read-only
                  traversals through const views.
"""
import os
import re

from . import core, wire

BYTES4 = ['char', 'const char', 'unsigned char', 'const unsigned char']
BYTES6 = BYTES4 + ['std::byte', 'const std::byte']

PRELUDE = r'''
#include <cstddef>
#include <initializer_list>
#include <type_traits>
#include <utility>
#include <vector>
namespace c11
{
// is_invocable as in /repo/test/src/sbepp/test/utils.hpp (C++11)
template<typename F, typename... Args>
struct is_invocable_impl
{
    template<typename...>
    struct always_true : std::true_type
    {
    };
    template<typename F2, typename... Args2>
    static always_true<decltype(std::declval<F2>()(std::declval<Args2>()...))> test(int);
    template<typename...>
    static std::false_type test(...);
    using type = decltype(test<F, Args...>(0));
};
template<typename F, typename... Args>
struct inv : is_invocable_impl<F, Args...>::type
{
};
// byte type of the view a cursor-based accessor returns: const whenever the enclosing view or the cursor is const
template<typename F, typename V, typename C, bool = inv<F, V, C>::value>
struct child_is_const : std::true_type   // the call is ill-formed: nothing is returned
{
};
template<typename F, typename V, typename C>
struct child_is_const<F, V, C, true>
    : std::is_const<typename std::remove_pointer<decltype(std::declval<F>()(std::declval<V>(), std::declval<C>()))>::type>
{
};
template<typename V>
using tag_of = typename ::sbepp::traits_tag<V>::type;
template<typename B>
using cur = ::sbepp::cursor<B>&;
template<typename B>
using cur_init = decltype(::sbepp::cursor_ops::init(std::declval<::sbepp::cursor<B>&>()));
template<typename B>
using cur_dont_move = decltype(::sbepp::cursor_ops::dont_move(std::declval<::sbepp::cursor<B>&>()));
template<typename B>
using cur_init_dont_move = decltype(::sbepp::cursor_ops::init_dont_move(std::declval<::sbepp::cursor<B>&>()));
template<typename From, typename To>
struct conv3
{
    // implicit conversion, explicit construction, assignment
    static constexpr bool implicit_ = std::is_convertible<From, To>::value;
    static constexpr bool explicit_ = std::is_constructible<To, From>::value;
    static constexpr bool assign_ = std::is_assignable<To&, From>::value;
};
} // namespace c11
'''


# ------------------------------------------------------------------ class inventory

class Cls:
    def __init__(self, ident, kind, definition, expr, msg, where):
        self.id = ident          # alias template name
        self.kind = kind         # message | entry | group | composite | header | sarray | data
        self.definition = definition
        self.expr = expr         # expression reaching an object of the class from `m` (message view)
        self.msg = msg
        self.where = where       # human readable path
        self.scalars = []        # accessor names with value setters
        self.level = kind in ('message', 'entry')
        self.flat = None
        self.child_views = []    # members of a level that return views: array/composite fields, groups, data


def _tree(leaves, depth):
    """group leaves by path[depth]: [(name, [leaves])]"""
    out = []
    for lf in leaves:
        key = lf['path'][depth]
        if out and out[-1][0] == key:
            out[-1][1].append(lf)
        else:
            out.append((key, [lf]))
    return out


def inventory(pkg, layout):
    """every generated class reachable from the messages of the schema"""
    classes = []
    n = [0]

    def new(prefix):
        n[0] += 1
        return '%s%d' % (prefix, n[0])

    def members(parent, leaves, depth, msg, where):
        for name, lfs in _tree(leaves, depth):
            if len(lfs) == 1 and len(lfs[0]['path']) == depth + 1:
                lf = lfs[0]
                if lf['kind'] == 'array':
                    a = Cls(new('A'), 'sarray', None, '%s.%s()' % (parent.expr, name), msg, where + '.' + name)
                    a.definition = 'template<class B> using %s = decltype(std::declval<%s<B>>().%s());' % (a.id, parent.id, name)
                    classes.append(a)
                    if depth == 0:
                        parent.child_views.append(name)
                else:
                    parent.scalars.append(name)
            else:
                c = Cls(new('C'), 'composite', None, '%s.%s()' % (parent.expr, name), msg, where + '.' + name)
                c.definition = 'template<class B> using %s = decltype(std::declval<%s<B>>().%s());' % (c.id, parent.id, name)
                classes.append(c)
                if depth == 0:
                    parent.child_views.append(name)
                members(c, lfs, depth + 1, msg, where + '.' + name)

    def level(lv, parent, msg, where):
        members(parent, lv['leaves'], 0, msg, where)
        for g in lv['groups']:
            gc = Cls(new('G'), 'group', None, '%s.%s()' % (parent.expr, g['name']), msg, where + '.' + g['name'])
            gc.definition = 'template<class B> using %s = decltype(std::declval<%s<B>>().%s());' % (gc.id, parent.id, g['name'])
            gc.flat = not g['level']['groups'] and not g['level']['datas']
            classes.append(gc)
            parent.child_views.append(g['name'])
            hc = Cls(new('H'), 'header', None, 'sbepp::get_header(%s)' % gc.expr, msg, where + '.' + g['name'] + '#dimension')
            hc.definition = 'template<class B> using %s = decltype(sbepp::get_header(std::declval<%s<B>>()));' % (hc.id, gc.id)
            classes.append(hc)
            members(hc, g['dim']['leaves'], 0, msg, hc.where)
            ec = Cls(new('E'), 'entry', None, '%s.front()' % gc.expr, msg, where + '.' + g['name'] + '[]')
            ec.definition = 'template<class B> using %s = typename %s<B>::value_type;' % (ec.id, gc.id)
            classes.append(ec)
            level(g['level'], ec, msg, ec.where)
        for d in lv['datas']:
            dc = Cls(new('D'), 'data', None, '%s.%s()' % (parent.expr, d['name']), msg, where + '.' + d['name'])
            dc.definition = 'template<class B> using %s = decltype(std::declval<%s<B>>().%s());' % (dc.id, parent.id, d['name'])
            classes.append(dc)
            parent.child_views.append(d['name'])

    for m in layout['messages']:
        if 'error' in m:
            continue
        mc = Cls(new('M'), 'message', None, 'm', m['name'], m['name'])
        mc.definition = 'template<class B> using %s = ::%s::messages::%s<B>;' % (mc.id, pkg, m['name'])
        classes.append(mc)
        hc = Cls(new('H'), 'header', None, 'sbepp::get_header(m)', m['name'], m['name'] + '#header')
        hc.definition = 'template<class B> using %s = decltype(sbepp::get_header(std::declval<%s<B>>()));' % (hc.id, mc.id)
        classes.append(hc)
        members(hc, m['hdrLeaves'], 0, m['name'], hc.where)
        level(m['level'], mc, m['name'], m['name'])
    return classes


# ------------------------------------------------------------------ (a)+(c) the static TU

ARRAY_MUT = {
    'sarray': [
        ('assign_string(const char*)', 'a.assign_string(std::declval<const char*>())'),
        ('assign_string(range)', 'a.assign_string(std::declval<std::vector<VT>&>())'),
        ('assign_range', 'a.assign_range(std::declval<std::vector<VT>&>())'),
        ('fill', 'a.fill(std::declval<VT>())'),
        ('assign(n,v)', 'a.assign(std::size_t{}, std::declval<VT>())'),
        ('assign(it,it)', 'a.assign(std::declval<const VT*>(), std::declval<const VT*>())'),
        ('assign(ilist)', 'a.assign(std::declval<std::initializer_list<VT>>())'),
    ],
    'data': [
        ('clear', 'a.clear()'),
        ('resize(n)', 'a.resize(std::declval<typename A::size_type>())'),
        ('resize(n,v)', 'a.resize(std::declval<typename A::size_type>(), std::declval<VT>())'),
        ('resize(n,default_init)', 'a.resize(std::declval<typename A::size_type>(), sbepp::default_init)'),
        ('push_back', 'a.push_back(std::declval<VT>())'),
        ('pop_back', 'a.pop_back()'),
        ('erase(it)', 'a.erase(a.begin())'),
        ('erase(it,it)', 'a.erase(a.begin(), a.end())'),
        ('insert(it,v)', 'a.insert(a.begin(), std::declval<VT>())'),
        ('insert(it,n,v)', 'a.insert(a.begin(), std::declval<typename A::size_type>(), std::declval<VT>())'),
        ('insert(it,it,it)', 'a.insert(a.begin(), std::declval<const VT*>(), std::declval<const VT*>())'),
        ('insert(it,ilist)', 'a.insert(a.begin(), std::declval<std::initializer_list<VT>>())'),
        ('assign(n,v)', 'a.assign(std::declval<typename A::size_type>(), std::declval<VT>())'),
        ('assign(it,it)', 'a.assign(std::declval<const VT*>(), std::declval<const VT*>())'),
        ('assign(ilist)', 'a.assign(std::declval<std::initializer_list<VT>>())'),
        ('assign_string', 'a.assign_string(std::declval<const char*>())'),
        ('assign_range', 'a.assign_range(std::declval<std::vector<VT>&>())'),
    ],
}
# writes through element handles: expression SFINAE sees them too (the negative
# compilation probes are the authoritative ones for these)
ELEM_WRITES = [
    ('operator[]=', 'a[0] = std::declval<VT>()'),
    ('front()=', 'a.front() = std::declval<VT>()'),
    ('back()=', 'a.back() = std::declval<VT>()'),
    ('*data()=', '*a.data() = std::declval<VT>()'),
    ('*begin()=', '*a.begin() = std::declval<VT>()'),
    ('*rbegin()=', '*a.rbegin() = std::declval<VT>()'),
    ('raw()[]=', 'a.raw()[0] = std::declval<typename std::remove_cv<typename sbepp::byte_type<A>::type>::type>()'),
]
CURSORS = [('cursor', 'c11::cur'), ('init', 'c11::cur_init'), ('dont_move', 'c11::cur_dont_move'),
           ('init_dont_move', 'c11::cur_init_dont_move')]


class Probe:
    def __init__(self, pid, kind, cls, member, text, expect):
        self.id = pid
        self.kind = kind
        self.cls = cls
        self.member = member
        self.text = text          # the C++ of the probe (functor + asserts)
        self.expect = expect      # [(args, expected bool)]


def static_tu(pkg, layout, model_enabled=None, conv_table=None):
    """returns (source, probes: {id: Probe}, classes)"""
    classes = inventory(pkg, layout)
    src = ['#include <%s/%s.hpp>' % (pkg, pkg), PRELUDE, 'namespace probes {']
    for c in classes:
        src.append(c.definition)
    probes = {}
    pid = [0]

    def enabled(mut, vconst, cconst):
        # specification: a mutator is usable iff every byte it writes through is mutable
        spec = (not vconst) and (not cconst if mut in ('cursorSetter', 'setByTagCursor') else True)
        if model_enabled is not None:
            key = (mut, vconst, cconst)
            if key in model_enabled and model_enabled[key] != spec:
                raise RuntimeError('model/spec disagreement on %r' % (key,))
        return spec

    def add(kind, cls, member, functor_body, tparams, combos):
        """functor_body: expression using v (and c); combos: [(type args list, expected, label)]"""
        pid[0] += 1
        i = pid[0]
        lines = ['struct P%d { template<%s> auto operator()(%s) -> decltype((void)(%s)); };' % (
            i, ', '.join('typename ' + t for t in tparams),
            ', '.join('%s%s %s' % (t, '&&' if t == 'C' else '', t.lower()) for t in tparams), functor_body)]
        for args, exp, label in combos:
            lines.append('static_assert(%sc11::inv<P%d, %s>::value, "C11 %d %s %s");' % (
                '' if exp else '!', i, ', '.join(args), i, 'POS' if exp else 'NEG', label))
        p = Probe(i, kind, cls, member, '\n'.join(lines), [(a, e) for a, e, _ in combos])
        probes[i] = p
        src.append(p.text)
        return p

    def vc(c):
        return [(['%s<char>' % c.id], enabled('setter', False, False), 'mutable'),
                (['%s<const char>' % c.id], enabled('setter', True, True), 'const')]

    for c in classes:
        src.append('// ---- %s %s (%s)' % (c.kind, c.id, c.where))
        if c.kind in ('message', 'entry', 'composite', 'header'):
            for k, f in enumerate(c.scalars):
                val = 'std::declval<decltype(std::declval<%s<char>>().%s())>()' % (c.id, f)
                add('setter', c, f, 'v.%s(%s)' % (f, val), ['V'], vc(c))
                tag = 'typename c11::tag_of<%s<char>>::%s' % (c.id, f)
                add('set_by_tag', c, f, 'sbepp::set_by_tag<%s>(v, %s)' % (tag, val), ['V'], vc(c))
                if c.level:
                    cursors = CURSORS if k == 0 else CURSORS[:1]
                    for wname, walias in cursors:
                        combos = []
                        for vb in ('char', 'const char'):
                            for cb in ('char', 'const char'):
                                exp = enabled('cursorSetter', vb != 'char', cb != 'char')
                                combos.append((['%s<%s>' % (c.id, vb), '%s<%s>' % (walias, cb)], exp,
                                               'view<%s>+%s<%s>' % (vb, wname, cb)))
                        add('cursor_setter', c, '%s(v,%s)' % (f, wname), 'v.%s(%s, std::forward<C>(c))' % (f, val),
                            ['V', 'C'], combos)
                    combos = []
                    for vb in ('char', 'const char'):
                        for cb in ('char', 'const char'):
                            exp = enabled('setByTagCursor', vb != 'char', cb != 'char')
                            combos.append((['%s<%s>' % (c.id, vb), 'c11::cur<%s>' % cb], exp,
                                           'view<%s>+cursor<%s>' % (vb, cb)))
                    add('set_by_tag_cursor', c, f, 'sbepp::set_by_tag<%s>(v, %s, std::forward<C>(c))' % (tag, val),
                        ['V', 'C'], combos)
        if c.level:
            # every member that returns a view, reached through every cursor wrapper: the byte type of the returned
            # view is const whenever the enclosing view or the cursor is ("... also when reached through a more-const
            # cursor on a mutable view"); the all-mutable combination must be callable and give a mutable view
            for nm in c.child_views:
                for wname, walias in CURSORS:
                    pid[0] += 1
                    i = pid[0]
                    lines = ['struct P%d { template<typename V, typename C> auto operator()(V v, C&& c) -> '
                             'decltype(sbepp::addressof(v.%s(std::forward<C>(c)))); };' % (i, nm)]
                    exp = []
                    for vb in ('char', 'const char'):
                        for cb in ('char', 'const char'):
                            args = '%s<%s>, %s<%s>' % (c.id, vb, walias, cb)
                            label = 'child %s view<%s>+%s<%s>' % (nm, vb, wname, cb)
                            if vb == 'char' and cb == 'char':
                                lines.append('static_assert(c11::inv<P%d, %s>::value && !c11::child_is_const<P%d, %s>::value, '
                                             '"C11 %d POS %s");' % (i, args, i, args, i, label))
                                exp.append(([args], True))
                            else:
                                lines.append('static_assert(c11::child_is_const<P%d, %s>::value, "C11 %d NEG %s");' % (
                                    i, args, i, label))
                                exp.append(([args], False))
                    pr = Probe(i, 'child_view_constness', c, '%s(%s)' % (nm, wname), '\n'.join(lines), exp)
                    probes[i] = pr
                    src.append(pr.text)
        if c.kind == 'message':
            add('fill_message_header', c, 'fill_message_header', 'sbepp::fill_message_header(v)', ['V'], vc(c))
        if c.kind == 'group':
            add('fill_group_header', c, 'fill_group_header',
                'sbepp::fill_group_header(v, std::declval<typename V::sbe_size_type>())', ['V'], vc(c))
        if c.kind in ('sarray', 'data'):
            for member, expr in ARRAY_MUT[c.kind] + ELEM_WRITES:
                e = expr.replace('VT', 'typename A::value_type')
                add('array_mutator' if (member, expr) not in ELEM_WRITES else 'element_write_sfinae', c, member, e,
                    ['A'], vc(c))
    # ---- (c) conversions
    src.append('// ---- conversions')
    conv_probes = []
    for c in classes:
        pid[0] += 1
        i = pid[0]
        lines = []
        for what in ('implicit_', 'explicit_', 'assign_'):
            lines.append('static_assert(c11::conv3<%s<char>, %s<const char>>::%s, "C11 %d POS %s char->const char");' % (
                c.id, c.id, what, i, what))
            lines.append('static_assert(!c11::conv3<%s<const char>, %s<char>>::%s, "C11 %d NEG %s const char->char");' % (
                c.id, c.id, what, i, what))
        p = Probe(i, 'conversion', c, 'char<->const char', '\n'.join(lines), [])
        probes[i] = p
        src.append(p.text)
    pid[0] += 1
    i = pid[0]
    lines = []
    for what in ('implicit_', 'explicit_', 'assign_'):
        lines.append('static_assert(c11::conv3<sbepp::cursor<char>, sbepp::cursor<const char>>::%s, "C11 %d POS cursor %s char->const char");' % (what, i, what))
        lines.append('static_assert(!c11::conv3<sbepp::cursor<const char>, sbepp::cursor<char>>::%s, "C11 %d NEG cursor %s const char->char");' % (what, i, what))
    # init_cursor / init_const_cursor give the view's byte type resp. its const version
    if msgs_first(classes) is not None:
        m0 = msgs_first(classes).id
        lines.append('static_assert(std::is_same<decltype(sbepp::init_cursor(std::declval<%s<const char>>())), sbepp::cursor<const char>>::value, "C11 %d NEG init_cursor(const view) is not a const cursor");' % (m0, i))
        lines.append('static_assert(std::is_same<decltype(sbepp::init_const_cursor(std::declval<%s<char>>())), sbepp::cursor<const char>>::value, "C11 %d NEG init_const_cursor(view) is not a const cursor");' % (m0, i))
        lines.append('static_assert(std::is_same<decltype(sbepp::make_const_view<::%s::messages::%s>(std::declval<char*>(), 0)), %s<const char>>::value, "C11 %d NEG make_const_view is not a const view");' % (pkg, msgs_first(classes).msg, m0, i))
    p = Probe(i, 'conversion', None, 'cursor char<->const char', '\n'.join(lines), [])
    probes[i] = p
    src.append(p.text)
    # full byte-type matrix for messages and cursors (expected values: the Lean `conv` table)
    msgs = [c for c in classes if c.kind == 'message']
    for bytes_, guard in ((BYTES4, None), (BYTES6, '#if __cplusplus >= 201703L')):
        if guard:
            src.append(guard)
            src.append('#include <cstddef>')
        for target in msgs[:1] + ['cursor']:
            pid[0] += 1
            i = pid[0]
            lines = []
            for f in bytes_:
                for t in bytes_:
                    if guard and 'byte' not in f and 'byte' not in t:
                        continue
                    exp = conv_expect(f, t, conv_table)
                    if target == 'cursor':
                        ft, tt = 'sbepp::cursor<%s>' % f, 'sbepp::cursor<%s>' % t
                    else:
                        ft, tt = '%s<%s>' % (target.id, f), '%s<%s>' % (target.id, t)
                    lines.append('static_assert(%sstd::is_convertible<%s, %s>::value, "C11 %d %s %s->%s");' % (
                        '' if exp else '!', ft, tt, i, 'POS' if exp else 'NEG', f, t))
                    lines.append('static_assert(%sstd::is_convertible<%s*, %s*>::value, "C11 %d %s ptr %s->%s");' % (
                        '' if exp else '!', f, t, i, 'POS' if exp else 'NEG', f, t))
            p = Probe(i, 'conversion_matrix', target if target != 'cursor' else None,
                      'matrix%d' % len(bytes_), '\n'.join(lines), [])
            probes[i] = p
            src.append(p.text)
        if guard:
            src.append('#endif')
    src.append('} // namespace probes')
    src.append('int main() { return 0; }')
    return '\n'.join(src) + '\n', probes, classes


def msgs_first(classes):
    for c in classes:
        if c.kind == 'message':
            return c
    return None


def conv_expect(f, t, table=None):
    """specification: same underlying type and const is never removed; `table`
    (printed by the Lean model) must agree"""
    fb, tb = f.replace('const ', ''), t.replace('const ', '')
    spec = fb == tb and (not f.startswith('const') or t.startswith('const'))
    if table is not None and (f, t) in table and table[(f, t)] != spec:
        raise RuntimeError('model/spec disagreement on conv %s -> %s' % (f, t))
    return spec


TAG_RE = re.compile(r'C11 (\d+) (NEG|POS)([^"\n]*)')


def parse_static_failures(log):
    """{probe id: [(NEG|POS, label)]} from the compiler output"""
    out = {}
    for m in TAG_RE.finditer(log):
        lab = (m.group(2), m.group(3).strip())
        lst = out.setdefault(int(m.group(1)), [])
        if lab not in lst:
            lst.append(lab)
    return out


# ------------------------------------------------------------------ (b) negative compilation

NEG_MEMBERS = {
    'group': [('resize', 'x.resize(1);'), ('clear', 'x.clear();')],
    'sarray': [('operator[]=', 'x[0] = {};'), ('front()=', 'x.front() = {};'), ('back()=', 'x.back() = {};'),
               ('*data()=', '*x.data() = {};'), ('*begin()=', '*x.begin() = {};'), ('*rbegin()=', '*x.rbegin() = {};'),
               ('*(end()-1)=', '*(x.end() - 1) = {};'), ('for(auto&)', 'for(auto& e : x) { e = {}; }'),
               ('raw()[]=', 'x.raw()[0] = {};')],
    'data': [('operator[]=', 'x[0] = {};'), ('front()=', 'x.front() = {};'), ('back()=', 'x.back() = {};'),
             ('*data()=', '*x.data() = {};'), ('*begin()=', '*x.begin() = {};'), ('*rbegin()=', '*x.rbegin() = {};'),
             ('for(auto&)', 'for(auto& e : x) { e = {}; }'), ('raw()[]=', 'x.raw()[0] = {};')],
}


def negative_tus(pkg, classes):
    """[(cls, member, source)]: one tiny TU per (class, member)"""
    out = []
    for c in classes:
        for member, stmt in NEG_MEMBERS.get(c.kind, []):
            src = ('#include <%s/%s.hpp>\n#ifdef C11_CONST\nusing B = const char;\n#else\nusing B = char;\n#endif\n'
                   'void probe(::%s::messages::%s<B> m)\n{\n    auto x = %s;\n    %s\n}\n' % (
                       pkg, pkg, pkg, c.msg, c.expr, stmt))
            out.append((c, member, src))
    return out


def build_pch(case, cxx, std):
    """precompile <pkg>/<pkg>.hpp once per (schema, configuration); returns the
    flags that make the tiny probe TUs use it ([] when it cannot be built: the
    probes then parse the headers themselves)"""
    pkg = case.s['package']
    tag = '%s-%s' % (cxx.replace('+', 'p'), std.replace('+', 'p'))
    hdr = os.path.join(case.dir, 'gen', pkg, pkg + '.hpp')
    base = [cxx, '-std=' + std, '-w', '-I' + os.path.join(case.dir, 'gen'), '-I' + os.path.join(core.REPO, 'sbepp/src')]
    if cxx.startswith('clang'):
        out = os.path.join(case.dir, 'pch-%s.pch' % tag)
        rc, _ = core.sh(base + ['-x', 'c++-header', hdr, '-o', out], timeout=600)
        return ['-include-pch', out] if rc == 0 else []
    d = os.path.join(case.dir, 'pch-' + tag)
    os.makedirs(os.path.join(d, pkg), exist_ok=True)
    rc, _ = core.sh(base + ['-x', 'c++-header', hdr, '-o', os.path.join(d, pkg, pkg + '.hpp.gch')], timeout=600)
    return ['-I' + d] if rc == 0 else []


def compile_only(case, src_path, cxx, std, defines=(), pch=()):
    cmd = [cxx, '-std=' + std, '-fsyntax-only', '-w'] + list(pch) + [
        '-I' + os.path.join(case.dir, 'gen'), '-I' + os.path.join(core.REPO, 'sbepp/src')] + [
        '-D' + d for d in defines] + [src_path]
    if cxx.startswith('clang'):
        cmd.insert(1, '-ferror-limit=0')
    else:
        cmd.insert(1, '-fmax-errors=0')
    return core.sh(cmd, timeout=600)


CONST_ERR = re.compile(r'read-only|const|no matching (member )?function|cannot assign|not assignable|discards qualifiers',
                       re.I)


def first_error(log):
    for l in log.splitlines():
        if 'error' in l:
            return re.sub(r'^[^:]*:\d+:\d+: ', '', l)[:240]
    return log[:240]


# ------------------------------------------------------------------ (d) run-time probe

RO_PRELUDE = r'''
namespace ro
{
// sums everything it is given, so that no read can be optimised away
static volatile unsigned long long sink = 0;
template<typename A>
void touch_array(A a)
{
    unsigned long long s = a.size() + (a.empty() ? 1 : 0) + sbepp::size_bytes(a);
    for(auto it = a.begin(); it != a.end(); ++it) { s += static_cast<unsigned char>(*it); }
    for(auto it = a.rbegin(); it != a.rend(); ++it) { s += static_cast<unsigned char>(*it); }
    for(std::size_t i = 0; i < static_cast<std::size_t>(a.size()); i++)
    {
        s += static_cast<unsigned char>(a[static_cast<typename A::size_type>(i)]) + static_cast<unsigned char>(a.data()[i]);
    }
    if(a.size()) { s += static_cast<unsigned char>(a.front()) + static_cast<unsigned char>(a.back()); }
    auto r = a.raw();
    s += r.size();
    sink = sink + s;
}
template<typename A>
void touch_static_array(A a)
{
    touch_array(a);
    sink = sink + a.strlen() + a.strlen_r() + a.max_size();
}
template<typename G>
void touch_group(G g)
{
    unsigned long long s = g.size() + (g.empty() ? 1 : 0) + sbepp::size_bytes(g) + g.max_size();
    s += static_cast<unsigned long long>(*g.sbe_size());
    std::size_t n = 0;
    for(auto it = g.begin(); it != g.end(); ++it) { n++; s += sbepp::size_bytes(*it); }
    if(!g.empty()) { s += sbepp::size_bytes(g.front()); }
    s += sbepp::size_bytes(sbepp::get_header(g)) + n;
    sink = sink + s;
}
struct visitor
{
    unsigned long long n = 0;
    template<typename T, typename C, typename Tag>
    void on_message(T m, C& c, Tag) { n++; sbepp::visit(sbepp::get_header(m), *this); sbepp::visit_children(m, c, *this); }
    template<typename T, typename C, typename Tag>
    bool on_group(T g, C& c, Tag) { n += g.size(); sbepp::visit_children(g, c, *this); return false; }
    template<typename T, typename C>
    bool on_entry(T e, C& c) { n++; sbepp::visit_children(e, c, *this); return false; }
    template<typename T, typename Tag>
    bool on_data(T d, Tag) { n += d.size(); return false; }
    template<typename T, typename Tag>
    bool on_field(T f, Tag) { n++; field(f, std::integral_constant<bool, sbepp::is_composite<T>::value>{}); return false; }
    template<typename T> void field(T f, std::true_type) { sbepp::visit(f, *this); }
    template<typename T> void field(T, std::false_type) {}
    template<typename T, typename Tag> bool on_composite(T c, Tag) { n++; sbepp::visit_children(c, *this); return false; }
    template<typename T, typename Tag> bool on_type(T, Tag) { n++; return false; }
    template<typename T, typename Tag> bool on_enum(T, Tag) { n++; return false; }
    template<typename T, typename Tag> bool on_set(T, Tag) { n++; return false; }
};
struct fns
{
    std::function<void(const char*, std::size_t, std::vector<std::string>&)> ra;
    std::function<void(const char*, std::size_t, std::vector<std::string>&)> cur;
    std::function<void(const char*, std::size_t)> extra;
    std::function<void(char*, std::size_t)> control_write;
};
inline unsigned long long fnv(const char* p, std::size_t n)
{
    unsigned long long h = 1469598103934665603ull;
    for(std::size_t i = 0; i < n; i++) { h = (h ^ static_cast<unsigned char>(p[i])) * 1099511628211ull; }
    return h;
}
inline int main_loop(const std::map<std::string, fns>& table)
{
    proto::install_handlers();
    std::string line;
    while(std::getline(std::cin, line))
    {
        std::istringstream is(line);
        std::string cmd, msg, hex;
        is >> cmd >> msg >> hex;
        auto it = table.find(msg);
        if(cmd != "ro" || it == table.end()) { std::cout << "bad-op\n"; continue; }
        const auto img = proto::unhex(hex);
        gd::guard_buf gb{img.size()};
        std::memcpy(gb.p, img.data(), img.size());
        const auto sum0 = fnv(gb.p, gb.n);
        std::vector<std::string> ra, cur, ra2, cur2;
        const auto s1 = proto::guarded([&] { it->second.ra(gb.p, gb.n, ra); });
        const auto s2 = proto::guarded([&] { it->second.cur(gb.p, gb.n, cur); });
        const auto s3 = proto::guarded([&] { it->second.extra(gb.p, gb.n); });
        const bool same = fnv(gb.p, gb.n) == sum0 && std::memcmp(gb.p, img.data(), img.size()) == 0;
        // the same traversals on a read-only mapping: any store faults
        const std::size_t page = static_cast<std::size_t>(sysconf(_SC_PAGESIZE));
        const std::size_t rw = gb.total - page;
        mprotect(gb.base, rw, PROT_READ);
        const auto r1 = proto::guarded([&] { it->second.ra(gb.p, gb.n, ra2); });
        const auto r2 = proto::guarded([&] { it->second.cur(gb.p, gb.n, cur2); });
        const auto r3 = proto::guarded([&] { it->second.extra(gb.p, gb.n); });
        // control: a write through a mutable view must be caught by this set-up
        const auto ctl = proto::guarded([&] { it->second.control_write(gb.p, gb.n); });
        mprotect(gb.base, rw, PROT_READ | PROT_WRITE);
        auto ok = [](const std::string& s) { return s.empty() ? std::string("ok") : s; };
        std::cout << "ra=" << gd::join(ra) << " rast=" << ok(s1) << " cur=" << gd::join(cur) << " curst=" << ok(s2)
                  << " exst=" << ok(s3) << " unchanged=" << (same ? 1 : 0) << " ro=" << ok(r1) << "," << ok(r2) << ","
                  << ok(r3) << " rosame=" << ((ra == ra2 && cur == cur2) ? 1 : 0) << " ctl=" << ok(ctl) << "\n";
    }
    return 0;
}
} // namespace ro
'''

WRAP = ['c', 'sbepp::cursor_ops::dont_move(c)', 'sbepp::cursor_ops::init_dont_move(c)', 'sbepp::cursor_ops::init(c)']


def _extra_level(level, var, ind, uid, depth=0):
    """read-only calls not covered by wire.gen_level_code: array/group helpers,
    get_by_tag, cursor wrappers"""
    L = []
    for fname, lfs in wire.group_fields(level['leaves']):
        single = len(lfs) == 1 and len(lfs[0]['path']) == 1
        tag = 'typename sbepp::traits_tag<typename std::decay<decltype(%s)>::type>::type::%s' % (var, fname)
        L.append('%s{ auto t_ = sbepp::get_by_tag<%s>(%s); (void)t_; }' % (ind, tag, var))
        for lf in lfs:
            if lf['kind'] == 'array':
                L.append('%sro::touch_static_array(%s);' % (ind, wire.cpp_path(var, lf['path'])))
        if not single:
            L.append('%s{ ro::visitor v_; sbepp::visit(%s.%s(), v_); sbepp::visit_children(%s.%s(), v_); '
                     'ro::sink = ro::sink + v_.n + sbepp::size_bytes(%s.%s()); }' % (ind, var, fname, var, fname, var, fname))
    for g in level['groups']:
        gv = 'xg%d' % next(uid)
        ev = 'xe%d' % next(uid)
        L.append('%s{ auto %s = %s.%s(); ro::touch_group(%s);' % (ind, gv, var, g['name'], gv))
        L.append('%s  for(auto %s : %s) {' % (ind, ev, gv))
        L += _extra_level(g['level'], ev, ind + '    ', uid, depth + 1)
        L.append('%s  }' % ind)
        L.append('%s}' % ind)
    for d in level['datas']:
        L.append('%sro::touch_array(%s.%s());' % (ind, var, d['name']))
    return [l for l in L if l]


def _wrapper_walk(level, var, ind):
    """root-level members through the cursor wrappers (dont_move twice, then a moving access)"""
    L = []
    names = [f for f, _ in wire.group_fields(level['leaves'])]
    first = True
    for f in names:
        if first:
            L.append('%s{ sbepp::cursor<const char> c; (void)%s.%s(sbepp::cursor_ops::init_dont_move(c)); '
                     '(void)%s.%s(sbepp::cursor_ops::dont_move(c)); (void)%s.%s(sbepp::cursor_ops::init(c)); }' % (
                         ind, var, f, var, f, var, f))
            first = False
    L.append('%s{ auto c = sbepp::init_const_cursor(%s);' % (ind, var))
    for f in names:
        L.append('%s  (void)%s.%s(sbepp::cursor_ops::dont_move(c)); %s.%s(sbepp::cursor_ops::skip(c));' % (ind, var, f, var, f))
    for g in level['groups']:
        L.append('%s  { auto g_ = %s.%s(sbepp::cursor_ops::dont_move(c)); (void)g_; %s.%s(sbepp::cursor_ops::skip(c)); }' % (
            ind, var, g['name'], var, g['name']))
    for d in level['datas']:
        L.append('%s  { auto d_ = %s.%s(sbepp::cursor_ops::dont_move(c)); (void)d_; %s.%s(sbepp::cursor_ops::skip(c)); }' % (
            ind, var, d['name'], var, d['name']))
    L.append('%s  ro::sink = ro::sink + sbepp::size_bytes(%s, c);' % (ind, var))
    L.append('%s}' % ind)
    return L


def runtime_driver(pkg, layout):
    src = ['#define SBEPP_ENABLE_ASSERTS_WITH_HANDLER', '#include <%s/%s.hpp>' % (pkg, pkg), '#include "gen_driver.hpp"',
           RO_PRELUDE]
    names = []
    for m in layout['messages']:
        if 'error' in m:
            continue
        n = m['name']
        names.append(n)
        cls = '::%s::messages::%s' % (pkg, n)
        uid = wire.counter()
        for mode in ('ra', 'cur'):
            src.append('static void ro_%s_%s(const char* p, std::size_t n, std::vector<std::string>& out) {' % (mode, n))
            src.append('  auto m = sbepp::make_const_view<%s>(p, n);' % cls)
            src.append('  static_assert(std::is_same<decltype(m), %s<const char>>::value, "const view");' % cls)
            src.append('  struct { const char* p; } buf{p}; std::string pfx; (void)buf;')
            src.append('  { auto h = sbepp::get_header(m);')
            for lf in m['hdrLeaves']:
                if lf['kind'] == 'array':
                    src.append('    gd::obs_arr(out, "h.%s", %s);' % ('.'.join(lf['path']), wire.cpp_path('h', lf['path'])))
                else:
                    src.append('    gd::obs(out, "h.%s", gd::bits_of(%s));' % ('.'.join(lf['path']), wire.cpp_path('h', lf['path'])))
            src.append('  }')
            if mode == 'cur':
                src.append('  auto c = sbepp::init_cursor(m);')
                src.append('  static_assert(std::is_same<decltype(c), sbepp::cursor<const char>>::value, "const cursor");')
            src += wire.gen_level_code(m['level'], 'm', mode, '  ', uid)
            if mode == 'cur':
                src.append('  out.push_back("size=" + std::to_string(sbepp::size_bytes(m, c)));')
                src.append('  out.push_back("cursor=" + std::to_string(c.pointer() - buf.p));')
            else:
                src.append('  out.push_back("size=" + std::to_string(sbepp::size_bytes(m)));')
            src.append('}')
        src.append('static void ro_extra_%s(const char* p, std::size_t n) {' % n)
        src.append('  auto m = sbepp::make_const_view<%s>(p, n);' % cls)
        src.append('  { ro::visitor v_; sbepp::visit(m, v_); ro::sink = ro::sink + v_.n; }')
        src.append('  { ro::visitor v_; auto c = sbepp::init_cursor(m); sbepp::visit_children(m, c, v_); ro::sink = ro::sink + v_.n; }')
        src.append('  { auto r_ = sbepp::size_bytes_checked(m, n); ro::sink = ro::sink + r_.size + (r_.valid ? 1 : 0); }')
        src.append('  { %s<const unsigned char> u_{reinterpret_cast<const unsigned char*>(p), n}; ro::sink = ro::sink + sbepp::size_bytes(u_); }' % cls)
        src.append('  { %s<char> mm_{}; %s<const char> cm_ = mm_; (void)cm_; sbepp::cursor<char> c1_; sbepp::cursor<const char> c2_ = c1_; c2_ = c1_; (void)c2_; }' % (cls, cls))
        src += _extra_level(m['level'], 'm', '  ', uid)
        src += _wrapper_walk(m['level'], 'm', '  ')
        src.append('}')
        src.append('static void ctl_%s(char* p, std::size_t n) { auto m = sbepp::make_view<%s>(p, n); sbepp::fill_message_header(m); }' % (n, cls))
    src.append('int main() { return ro::main_loop({')
    for n in names:
        src.append('  {"%s", ro::fns{ro_ra_%s, ro_cur_%s, ro_extra_%s, ctl_%s}},' % (n, n, n, n, n))
    src.append('}); }')
    return '\n'.join(src) + '\n'


def build_runtime_driver(case, cxx, std):
    src = os.path.join(case.dir, 'c11_ro.cpp')
    if not os.path.exists(src):
        tmp = src + '.%d.%s%s' % (os.getpid(), cxx, std)
        open(tmp, 'w').write(runtime_driver(case.s['package'], case.layout))
        os.replace(tmp, src)
    exe = os.path.join(case.dir, 'c11ro-%s-%s' % (cxx.replace('+', 'p'), std))
    cmd = [cxx, '-std=' + std, '-O0', '-g0', '-w', '-fsanitize=undefined', '-fsanitize-undefined-trap-on-error',
           '-I' + os.path.join(case.dir, 'gen'), '-I' + os.path.join(core.REPO, 'sbepp/src'),
           '-I' + os.path.join(core.VERIF, 'harness'), src, '-o', exe]
    rc, log = core.sh(cmd, timeout=900)
    return (exe if rc == 0 else None), log
