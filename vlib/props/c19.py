"""C19 - visiting and tag-based access enumerate members faithfully."""
import random

from .. import wire, wirecheck as W
from . import c01

MODULE = 'Sbepp.Properties.C19'
THEOREMS = [
    'Sbepp.Properties.C19.visit_events',
    'Sbepp.Properties.C19.visit_cursor_at_end',
    'Sbepp.Properties.C19.visit_stops',
    'Sbepp.Properties.C19.visit_tree_is_scan',
    'Sbepp.Properties.C19.visit_stops_tree',
    'Sbepp.Properties.C19.set_visit',
    'Sbepp.Properties.C19.enum_visit',
    'Sbepp.parseL_flatten',
]


def visit_check(chk, run):
    bo_of = {c.idx: c.layout['byteOrder'] for c in run.cases}
    reqs = []
    for c in run.cases:
        for m in c.layout['messages']:
            if not wire.fits(m) or not wire.std_data_headers(m):
                run.stats['messages_skipped_unfit'] += 1
                continue
            run.stats['messages'] += 1
            for k in range(run.values_per_msg):
                rng = random.Random(hash((chk.seed, c.idx, m['name'], k, 19)) & 0xffffffff)
                # small counts keep the number of stopping points manageable
                v = wire.gen_message_value(rng, bo_of[c.idx], m, c.s['id'], c.s['version'], ext_ok=(k % 2 == 1),
                                           sizes={'ext': [0, 1, 8], 'counts': [0, 1, 2], 'data': [0, 1, 3]})
                reqs.append((c, m, v))
    mouts = run.model_lines(['visit (req %s (msg %s) (value %s))' % (c.sexp, m['name'], wire.mval_sexp(v))
                             for (c, m, v) in reqs])
    stats = {'visits': 0, 'stop_points': 0, 'records': 0}
    nontrivial = set()
    per_driver = {}
    for (c, m, v), mo in zip(reqs, mouts):
        mk = W.kvs(mo)
        if 'spec' not in mk:
            chk.report_unproved('model-visit', {'answer': mo[:300], 'schema_xml': open(c.xml).read()})
            continue
        if mk['spec'] != mk['model']:
            chk.report_unproved('visit model ≠ specification on a well-formed image (theorem visit_events says equal)',
                                {'diff': W.first_diff(mk['model'], mk['spec'])})
            continue
        for (cxx, std) in run.configs:
            exe = run.drivers.get((c.idx, cxx, std))
            if exe:
                per_driver.setdefault((exe, cxx, std), []).append((c, m, mk))
    for (exe, cxx, std), items in per_driver.items():
        lines = []
        index = []
        for (c, m, mk) in items:
            recs = [r for r in mk['spec'].split(';') if r]
            ks = list(range(0, len(recs) + 1))
            if chk.tier == 'quick' and len(ks) > 40:
                rng = random.Random(len(recs) * 7919 + chk.seed)
                ks = [0, 1, len(recs)] + rng.sample(ks, 37)
            for k in ks:
                lines.append('visit %s %s %d' % (m['name'], mk['image'], k))
                index.append((c, m, mk, recs, k))
        rc, outs = run.run_driver(exe, lines)
        if rc != 0 or len(outs) != len(lines):
            chk.report_unproved('driver-run', {'rc': rc, 'answers': len(outs), 'requests': len(lines)})
            continue
        for (c, m, mk, recs, k), line, io in zip(index, lines, outs):
            ik = W.kvs(io)
            chk.cov['evaluations'] += 1
            stats['stop_points'] += 1
            nontrivial.add((c.idx, m['name'], mk['image'], k))
            got = [r for r in ik.get('recs', '').split(';') if r]
            if k == 0 or k > len(recs):
                exp, exp_stopped = recs, '0'
            else:
                exp, exp_stopped = recs[:k], '1'
            problems = []
            if ik.get('st') != 'ok':
                problems.append(('status', ik.get('st')))
            if got != exp:
                problems.append(('records', W.first_diff(';'.join(got), ';'.join(exp))))
            if ik.get('stopped') != exp_stopped:
                problems.append(('stopped', ik.get('stopped')))
            if exp_stopped == '0' and ik.get('cursor') != mk['end'] and recs:
                problems.append(('cursor-after-complete-visit', {'impl': ik.get('cursor'), 'expected': mk['end']}))
            if ik.get('unchanged') != '1':
                problems.append(('visit-modified-buffer', ''))
            if problems:
                chk.report_failure({
                    'kind': 'impl≠spec', 'config': {'cxx': cxx, 'std': std}, 'schema_xml': open(c.xml).read(),
                    'message': m['name'], 'driver_line': line, 'observed': {'problems': problems, 'impl': io[:1500]},
                    'case': {'what': 'visit', 'stop_at': k, 'n_records': len(recs), 'problem': problems[0][0],
                             'cxx': cxx, 'std': std,
                             'root_members': len(m['level']['leaves']) + len(m['level']['groups']) + len(m['level']['datas'])}})
            stats['records'] += len(got)
        stats['visits'] += len(items)
    chk.cov['distinct_nontrivial'] += len(nontrivial)
    chk.cov['visit_stats'] = stats


def run(chk):
    chk.extract()
    proved = chk.prove(MODULE, THEOREMS)
    if chk.tier == 'thorough' and proved:
        chk.leanchecker(MODULE)
    n = 120 if chk.tier == 'thorough' else 24
    run = W.WireRun(chk, n, W.configs_for(chk.tier), values_per_msg=2 if chk.tier == 'quick' else 4, ext=True,
                    seed_salt=19)
    try:
        if run.prepare():
            run.gen_cases()
            run.build_drivers()
            visit_check(chk, run)
            # by-tag access: get_by_tag == named accessor for every member (decode, random access) and a complete
            # encode through set_by_tag/get_by_tag produces the same bytes as the named setters
            from . import c02
            W.decode_check(chk, run, lambda ik, mk: bytag_judge(ik, mk))
            W.encode_check(chk, run, modes=('tag',))
    finally:
        run.cleanup()
    W.finish_cov(chk, run, 'visit: one evaluation = one visit of a reference image with a recording visitor that '
                 'returns true at its k-th callback, for every k from 0 (never) to the number of callbacks (a sample '
                 'of 40 stopping points per image in the quick tier): records must be exactly the first k specified '
                 'records (member names come from the traits of the tag each callback received), the stop flag must '
                 'be set iff k>0, after a complete visit the cursor must be at the image end, the buffer unchanged; '
                 'by-tag: get_by_tag compared with the named accessor for every member on decode, and a full encode '
                 'through set_by_tag/get_by_tag compared byte for byte with the specification')
    if chk.failed_obligations and not chk.violations:
        chk.report_unproved('theorem', chk.failed_obligations)
    chk.assumptions += ['the visit model is the specified observer applied to the tree reconstructed from the buffer '
                        '(parseL); that the generated ||-chains call the callbacks in that order is established by '
                        'the differential check only',
                        'enum valid values with equal numeric values (accepted by the validator) make the '
                        'enumerator name ambiguous; the generator does not produce them']


def bytag_judge(ik, mk):
    ra = ik.get('ra', '')
    bad = [r for r in ra.split(';') if r.startswith('BYTAG-MISMATCH')]
    if bad:
        return [('impl≠spec', {'what': 'get_by_tag differs from the named accessor', 'members': bad[:5],
                               'case': {'what': 'by-tag', 'status': ik.get('rast')}})]
    badc = [r for r in ik.get('cur', '').split(';') if r.startswith('BYTAG-CURSOR-MISMATCH')]
    if badc:
        return [('impl≠spec', {'what': 'get_by_tag(view, cursor) differs from the named cursor accessor (value, address '
                               'or the position it leaves the cursor at)', 'members': badc[:5],
                               'case': {'what': 'by-tag-cursor', 'status': ik.get('curst')}})]
    return []


replay = c01.replay
