"""C01 - encoding writes exactly the SBE wire image of the schema."""
from .. import wirecheck as W

MODULE = 'Sbepp.Properties.C01'
THEOREMS = [
    'Sbepp.Properties.C01.encode_image',
    'Sbepp.Properties.C01.encode_end',
    'Sbepp.Properties.C01.encode_outside_untouched',
    'Sbepp.Properties.C01.setter_writes_value',
    'Sbepp.Properties.C01.setter_frame',
    'Sbepp.Properties.C01.accepted_layout_sorted',
    'Sbepp.Properties.C02.scalar_roundtrip',
]

# translator tie of the layout arithmetic (extract/validator_layout.py -> Sbepp.Extracted.ValidatorLayout,
# lean/Sbepp/Lemmas/ValidatorLayoutTie.lean): the layout the encoder relies on
TIE_MODULE = 'Sbepp.Lemmas.ValidatorLayoutTie'
TIE_PART = 'validator_layout'
TIE_THEOREMS = ['Sbepp.Schema.LayoutTie.' + t for t in (
    'validate_field_offset_tie', 'validate_element_offset_tie', 'validate_block_length_tie',
    'composite_loop_tie', 'validate_encoding_composite_tie', 'members_loop_tie', 'validate_members_tie',
    'overflow_witness_extracted', 'overflow_witness_model', 'overflow_witness_twin',
    'extracted_field_offset_ok', 'extracted_field_offset_below_min', 'extracted_field_offset_overflow',
    'extracted_field_offset_error', 'extracted_element_offset_const', 'extracted_element_offset_nonconst',
    'extracted_element_offset_ok', 'extracted_element_offset_below_min', 'extracted_element_offset_overflow',
    'extracted_block_length_ok', 'extracted_block_length_below_min', 'extracted_block_length_error',
    'compLeaves_step', 'vElementOffset_step', 'vElementOffset_ok_iff', 'vFields_step', 'vLevelValues_step',
    'compLeaves_skeleton', 'fieldLeaves_skeleton', 'compositeTyped_of_ok', 'membersTyped_of_ok',
    'compositeLoop_bounded', 'membersLoop_bounded', 'composite_size_extracted', 'level_layout_extracted',
    'message_layout_extracted', 'compLeaves_no_wrap', 'fieldLeaves_no_wrap', 'accepted_composite_no_wrap',
    'accepted_level_no_wrap')]
THEOREMS += TIE_THEOREMS


def run(chk):
    chk.extract()
    proved = chk.prove(MODULE, THEOREMS, extra_targets=['Sbepp.Properties.C02', TIE_MODULE])
    if chk.tier == 'thorough' and proved:
        chk.leanchecker(MODULE)
    n = 120 if chk.tier == 'thorough' else 32
    run = W.WireRun(chk, n, W.configs_for(chk.tier), values_per_msg=3 if chk.tier == 'quick' else 6,
                    ext=False, seed_salt=1)
    try:
        if run.prepare():
            run.gen_cases()
            run.build_drivers()
            W.encode_check(chk, run, modes=('ra', 'cur'))
    finally:
        run.cleanup()
    W.finish_cov(chk, run, 'one evaluation = one scripted in-order encode (fill_message_header, every leaf setter, '
                 'fill_group_header + entries, data assign_range) of a random value tree through the generated '
                 'accessors of the real sbeppc output (random-access or cursor setters) on a buffer pre-filled with '
                 'random bytes (and 0/1/5 spare bytes behind), compared byte for byte with Spec.encL; distinct = '
                 'distinct (schema, message, script); all are non-trivial')
    if chk.failed_obligations and not chk.violations:
        chk.report_unproved('theorem', chk.failed_obligations)
    xfail = ((chk.extract_report or {}).get('parts', {}).get(TIE_PART, {'failed': {'part': 'not run'}}) or {}).get('failed')
    if xfail and not chk.violations:
        chk.report_unproved('extraction', {'part': TIE_PART, 'failed': xfail})
    chk.assumptions += [
        'Spec.encL is the byte-level meaning of the script; the generated setters are tied to it by the differential '
        'check only', 'leaf order/disjointness (Sorted) is proved for every layout accepted by the validator model '
        '(accepted_layout_sorted); the model is tied to the real validator by the correspondence check']


def replay(chk, rep):
    import json
    print(json.dumps({k: rep[k] for k in rep if k != 'schema_xml'}, indent=1)[:3000])
    return 1
