"""C01 - encoding writes exactly the SBE wire image of the schema."""
from .. import wirecheck as W

MODULE = 'Sbepp.Properties.C01'
THEOREMS = [
    'Sbepp.Properties.C01.encode_image',
    'Sbepp.Properties.C01.encode_end',
    'Sbepp.Properties.C01.encode_outside_untouched',
    'Sbepp.Properties.C01.setter_writes_value',
    'Sbepp.Properties.C01.setter_frame',
    'Sbepp.Properties.C01.accepted_layout_sorted',
    'Sbepp.Properties.C02.scalar_roundtrip',
]


def run(chk):
    chk.extract()
    proved = chk.prove(MODULE, THEOREMS, extra_targets=['Sbepp.Properties.C02'])
    if chk.tier == 'thorough' and proved:
        chk.leanchecker(MODULE)
    n = 120 if chk.tier == 'thorough' else 32
    run = W.WireRun(chk, n, W.configs_for(chk.tier), values_per_msg=3 if chk.tier == 'quick' else 6,
                    ext=False, seed_salt=1)
    try:
        if run.prepare():
            run.gen_cases()
            run.build_drivers()
            W.encode_check(chk, run, modes=('ra', 'cur'))
    finally:
        run.cleanup()
    W.finish_cov(chk, run, 'one evaluation = one scripted in-order encode (fill_message_header, every leaf setter, '
                 'fill_group_header + entries, data assign_range) of a random value tree through the generated '
                 'accessors of the real sbeppc output (random-access or cursor setters) on a buffer pre-filled with '
                 'random bytes (and 0/1/5 spare bytes behind), compared byte for byte with Spec.encL; distinct = '
                 'distinct (schema, message, script); all are non-trivial')
    if chk.failed_obligations and not chk.violations:
        chk.report_unproved('theorem', chk.failed_obligations)
    chk.assumptions += [
        'Spec.encL is the byte-level meaning of the script; the generated setters are tied to it by the differential '
        'check only', 'leaf order/disjointness (Sorted) is proved for every layout accepted by the validator model '
        '(accepted_layout_sorted); the model is tied to the real validator by the correspondence check']


def replay(chk, rep):
    import json
    print(json.dumps({k: rep[k] for k in rep if k != 'schema_xml'}, indent=1)[:3000])
    return 1
