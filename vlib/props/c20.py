"""C20 - sbeppc's exit status is truthful under I/O failures and its output
deterministic.

Proved (Lean, `Sbepp.Properties.C20`, about `Sbepp.Gen.Files.run`, for EVERY
fault schedule): exit 0 implies every file complete; exit 1 + diagnostic iff
some mkdir/open/write/close returned an error (a short count that the retry
completes is not one); a re-run truncates and rewrites; the output is a
function of the plan; the sources contain no time/random/address source and
iterate only string-keyed hash containers.

Observed (this file): the real sbeppc under an LD_PRELOAD shim
(`harness/iofault.c`) that fails / shortens the k-th mkdir / fopen / write /
fclose for EVERY k of a run, several schemas; exit status, diagnostic and
on-disk bytes against the clean run's files and against the model's prediction;
determinism: two runs (ASLR on, different environment and working directory),
fresh vs populated vs stale-populated output directory, byte-compared.
"""
import concurrent.futures
import hashlib
import json
import os
import random
import re
import shutil
import subprocess
import sys
import time

from .. import core, garble, sbeppc
from .. import schema as S

MODULE = 'Sbepp.Properties.C20'
THEOREMS = [
    'Sbepp.Properties.C20.exit0_all_files_complete',
    'Sbepp.Properties.C20.fault_gives_diag',
    'Sbepp.Properties.C20.rerun_idempotent',
    'Sbepp.Properties.C20.output_function_of_schema',
    'Sbepp.Properties.C20.no_nondeterminism_sources',
    'Sbepp.Properties.C20.hash_iterations_string_keyed',
    # one concrete instance per fault class of the model (every class is run on the real sbeppc below)
    'Sbepp.Properties.C20.first_write_fails',
    'Sbepp.Properties.C20.short_write_then_full_disk',
    'Sbepp.Properties.C20.short_write_is_retried',
    'Sbepp.Properties.C20.close_fails',
]

FAMILIES = ['mkdir', 'open', 'write', 'close', 'fsync']
ERRNOS = ['ENOSPC', 'EACCES', 'EIO']


# --------------------------------------------------------------------- building

def build_shim(chk):
    src = os.path.join(core.VERIF, 'harness', 'iofault.c')
    flags = ['-O1', '-shared', '-fPIC']
    key = core.file_hash([src], extra=' '.join(flags))
    out = os.path.join(core.BUILD, 'bin', 'iofault-%s.so' % key)
    if os.path.exists(out):
        return out, ''
    os.makedirs(os.path.dirname(out), exist_ok=True)
    with core.Lock('iofault'):
        if os.path.exists(out):
            return out, ''
        tmp = out + '.tmp%d' % os.getpid()
        rc, log = core.sh(['gcc'] + flags + ['-o', tmp, src, '-ldl'], timeout=300)
        if rc != 0:
            return None, log
        os.replace(tmp, out)
    return out, ''


# --------------------------------------------------------------------- running

def read_tree(d):
    out = {}
    for root, _, fs in os.walk(d):
        for f in fs:
            p = os.path.join(root, f)
            try:
                out[os.path.relpath(p, d)] = open(p, 'rb').read()
            except OSError as ex:
                out[os.path.relpath(p, d)] = b'<unreadable %r>' % ex
    return out


def run_sbeppc(exe, shim, workdir, schema_path, args, fault=None, env_extra=None, outdir='out', timeout=60):
    """fault: None (no shim) | {} (shim, count only) | {'family','k','mode','errno'}.
    -> dict(rc, out, counts, fired, fired_lines)"""
    os.makedirs(workdir, exist_ok=True)
    env = dict(os.environ)
    for k in list(env):
        if k.startswith('IOFAULT_'):
            del env[k]
    r = w = None
    pass_fds = ()
    if fault is not None:
        r, w = os.pipe()
        env['LD_PRELOAD'] = shim
        env['IOFAULT_REPORT_FD'] = str(w)
        env['IOFAULT_FAMILY'] = fault.get('family', 'none')
        env['IOFAULT_K'] = str(fault.get('k', 0))
        env['IOFAULT_MODE'] = fault.get('mode', 'fail')
        env['IOFAULT_ERRNO'] = fault.get('errno', 'EIO')
        pass_fds = (w,)
    if env_extra:
        env.update(env_extra)
    try:
        p = subprocess.run([exe, '--output-dir', outdir] + list(args) + [schema_path], cwd=workdir,
                           stdin=subprocess.DEVNULL, stdout=subprocess.PIPE, stderr=subprocess.STDOUT,
                           timeout=timeout, env=env, pass_fds=pass_fds)
        rc, out = p.returncode, p.stdout.decode('utf-8', 'replace')
    except subprocess.TimeoutExpired:
        rc, out = -999, 'TIMEOUT'
    res = {'rc': rc, 'out': out, 'counts': None, 'fired': 0, 'fired_lines': []}
    if w is not None:
        os.close(w)
        data = b''
        while True:
            b = os.read(r, 65536)
            if not b:
                break
            data += b
        os.close(r)
        for line in data.decode('utf-8', 'replace').splitlines():
            if line.startswith('counts '):
                res['counts'] = {k: int(v) for k, v in (x.split('=') for x in line.split()[1:])}
                res['fired'] = res['counts'].get('fired', 0)
            elif line.startswith('fired '):
                res['fired_lines'].append(line)
        if res['counts'] is None and res['fired_lines']:
            res['fired'] = len(res['fired_lines'])      # killed before the destructor ran
    return res


def has_diag(out):
    return re.search(r'Error(\x1b\[0m)?: \S', out) is not None


def model_prediction(family, mode):
    """`Sbepp.Gen.Files.run plan (single family k mode) disk` for a k that is
    reached: (exit status, every planned file complete?)  -- mirrors the Lean
    model (the instance theorems in Sbepp.Properties.C20 cover every row)"""
    if family == 'write' and mode == 'short':
        return 0, True      # libstdc++ retries the rest
    if family == 'fsync':
        return 0, True      # never called
    return 1, False         # mkdir, open, write fail/shortfail, close: throw_error


# --------------------------------------------------------------------- schemas

def schemas(chk, scratch):
    out = []
    d = os.path.join(core.REPO, 'test', 'schemas')
    try:
        for f in sorted(os.listdir(d)):
            if f.endswith('.xml'):
                args = ['--schema-name', 'named'] if f == 'traits_test_schema2.xml' else []
                out.append({'name': 'repo:' + f, 'path': os.path.join(d, f), 'args': args})
    except OSError:
        pass
    n = 16 if chk.tier == 'thorough' else 4
    gd = os.path.join(scratch, 'schemas')
    os.makedirs(gd, exist_ok=True)
    for i in range(n):
        rng = random.Random(chk.seed * 10007 + 20 * 1000 + i)
        gen = S.Gen(rng, max_depth=2)
        xml = S.to_xml(gen.schema(nmsgs=rng.choice([1, 2, 3])))
        p = os.path.join(gd, 'gen%d.xml' % i)
        open(p, 'w').write(xml)
        args = []
        if i % 3 == 1:
            args = ['--schema-name', 'renamed%d' % i]
        if i % 3 == 2:
            args = ['--inject-include', 'inj.h']
        out.append({'name': 'gen:%d' % i, 'path': p, 'args': args})
    return out


# --------------------------------------------------------------------- the check

class Ctx:
    def __init__(self, chk, exe, shim, scratch):
        self.chk, self.exe, self.shim, self.scratch = chk, exe, shim, scratch
        self.n = 0
        self.fired_hist = {}
        self.runs = 0
        self.fail_sigs = {}
        self.model_mismatch = []
        self.files_compared = 0
        self.verdicts = {}

    def workdir(self):
        self.n += 1
        return os.path.join(self.scratch, 'r%d' % self.n)


def judge(ctx, sch, ref, fault, res, tree):
    """spec: exit 0 => all files complete & identical; exit != 0 => diagnostic."""
    fam, k, mode, err = fault['family'], fault['k'], fault['mode'], fault['errno']
    case = {'family': fam, 'k': k, 'mode': mode, 'errno': err, 'schema': sch['name']}
    complete = all(tree.get(p) == c for p, c in ref.items())
    ctx.files_compared += len(ref)
    what = None
    detail = {}
    if res['rc'] < 0 or res['rc'] not in (0, 1):
        what = 'abort'
        detail = {'rc': res['rc']}
    elif res['rc'] == 0 and not complete:
        what = 'exit0-incomplete'
        bad = [p for p, c in ref.items() if tree.get(p) != c]
        detail = {'missing_or_different': bad[:3], 'n_bad': len(bad),
                  'sizes': {p: [len(ref[p]), (len(tree[p]) if p in tree else None)] for p in bad[:3]}}
    elif res['rc'] != 0 and not has_diag(res['out']):
        what = 'nonzero-no-diagnostic'
    verdict = what or ('exit0-complete' if res['rc'] == 0 else 'exit1-diagnostic')
    key = '%s/%s' % (fam, mode)
    ctx.verdicts.setdefault(key, {})
    ctx.verdicts[key][verdict] = ctx.verdicts[key].get(verdict, 0) + 1
    # model correspondence (only meaningful when the fault was delivered)
    if res['fired']:
        mexit, mcomplete = model_prediction(fam, mode)
        impl = (res['rc'], complete if res['rc'] == 0 else False)
        if impl != (mexit, mcomplete if mexit == 0 else False):
            ctx.model_mismatch.append({'case': case, 'model': [mexit, mcomplete], 'impl': [res['rc'], complete],
                                       'impl_ok_by_spec': what is None})
    if what:
        case['what'] = what
        sig = (what, fam, mode)
        ent = ctx.fail_sigs.setdefault(sig, {'count': 0, 'case': case, 'detail': detail, 'res': res, 'sch': sch,
                                             'fault': fault})
        ent['count'] += 1
        if k < ent['case']['k']:
            ent.update({'case': case, 'detail': detail, 'res': res, 'sch': sch, 'fault': fault})


def faults_for(ctx, counts, thorough):
    out = []
    for fam in ('mkdir', 'open', 'write', 'close', 'fsync'):
        n = counts.get(fam, 0)
        modes = ['fail', 'short', 'shortfail'] if fam == 'write' else ['fail']
        for k in range(1, n + 1):
            for mode in modes:
                errs = ERRNOS + ['EDQUOT', 'EROFS'] if thorough else ERRNOS
                for e in errs:
                    out.append({'family': fam, 'k': k, 'mode': mode, 'errno': e})
    return out


def one_schema(ctx, sch):
    chk = ctx.chk
    thorough = chk.tier == 'thorough'
    # 1. reference: clean run without the shim
    wd = ctx.workdir()
    r0 = run_sbeppc(ctx.exe, None, wd, sch['path'], sch['args'])
    if r0['rc'] != 0:
        chk.report_unproved('harness-run', 'clean run of %s fails: rc=%s %s' % (sch['name'], r0['rc'], r0['out'][-300:]))
        return None
    ref = read_tree(os.path.join(wd, 'out'))
    # 2. counting mode: the shim is transparent and sees the calls
    wd = ctx.workdir()
    rc_ = run_sbeppc(ctx.exe, ctx.shim, wd, sch['path'], sch['args'], fault={})
    counts = rc_['counts'] or {}
    t = read_tree(os.path.join(wd, 'out'))
    if rc_['rc'] != 0 or t != ref:
        chk.report_unproved('harness-run', 'shim in counting mode changes the run of %s (rc=%s)' % (sch['name'], rc_['rc']))
        return None
    if counts.get('open', 0) != len(ref) or counts.get('write', 0) < len([c for c in ref.values() if c]) or \
            counts.get('mkdir', 0) < 3:
        chk.report_unproved('harness-run', 'shim does not see the I/O of %s: counts=%s files=%d' % (
            sch['name'], counts, len(ref)))
        return None
    # 3. every k of every family
    faults = faults_for(ctx, counts, thorough)

    def work(job):
        i, fault = job
        wd2 = os.path.join(ctx.scratch, '%s-f%d' % (re.sub(r'\W', '_', sch['name']), i))
        try:
            res = run_sbeppc(ctx.exe, ctx.shim, wd2, sch['path'], sch['args'], fault=fault)
            tree = read_tree(os.path.join(wd2, 'out'))
            # recovery: the same command again, without a fault, into the directory the failed run left behind
            rec = None
            if res['rc'] != 0 or any(tree.get(p_) != c_ for p_, c_ in ref.items()):
                r2 = run_sbeppc(ctx.exe, None, wd2, sch['path'], sch['args'])
                t2 = read_tree(os.path.join(wd2, 'out'))
                bad = [p_ for p_, c_ in ref.items() if t2.get(p_) != c_]
                rec = {'rc': r2['rc'], 'bad': bad[:3], 'n_bad': len(bad), 'out': r2['out'][-300:],
                       'sizes': {p_: [len(ref[p_]), (len(t2[p_]) if p_ in t2 else None), (len(tree[p_]) if p_ in tree else None)]
                                 for p_ in bad[:3]}}
            return fault, res, tree, rec
        finally:
            shutil.rmtree(wd2, ignore_errors=True)

    nofire = 0
    with concurrent.futures.ThreadPoolExecutor(max_workers=core.NPROC) as ex:
        for fault, res, tree, rec in ex.map(work, enumerate(faults), chunksize=4):
            ctx.runs += 1
            if rec is not None:
                ctx.recovery_runs = getattr(ctx, 'recovery_runs', 0) + 1
                ctx.files_compared += len(ref)
                if rec['rc'] != 0 or rec['n_bad']:
                    sig = ('recovery', fault['family'], fault['mode'])
                    seen = ctx.__dict__.setdefault('recovery_sigs', {})
                    seen[sig] = seen.get(sig, 0) + 1
                    if seen[sig] == 1:
                        case = {'what': 'rerun-after-failed-run-differs', 'family': fault['family'], 'mode': fault['mode'],
                                'errno': fault['errno'], 'k': fault['k'], 'schema': sch['name']}
                        chk.report_failure({'kind': 'impl≠spec',
                                            'spec': 'compiling the same schema again into an already populated directory '
                                                    '(here: the directory a failed run left behind) exits 0 with byte-identical files',
                                            'case': case, 'schema': sch['name'],
                                            'schema_xml': open(sch['path'], encoding='utf-8').read()[:20000],
                                            'args': sch['args'], 'fault_of_first_run': fault, 'observed': rec}, case)
            if res['fired']:
                key = '%s/%s/%s' % (fault['family'], fault['mode'], fault['errno'])
                ctx.fired_hist[key] = ctx.fired_hist.get(key, 0) + res['fired']
            else:
                nofire += 1
            judge(ctx, sch, ref, fault, res, tree)
    if nofire:
        # every k <= count must be reached unless an earlier failure stopped the run: k-th call IS the fault
        chk.report_unproved('harness-run', '%d of %d scheduled faults did not fire for %s' % (nofire, len(faults), sch['name']))
    return {'files': len(ref), 'bytes': sum(len(c) for c in ref.values()), 'counts': counts, 'faults': len(faults), 'ref': ref}


def determinism(ctx, sch, ref):
    """fresh vs populated vs stale-populated directory; different environment,
    working directory and (ASLR) address space layout: bytes must be equal."""
    chk = ctx.chk
    problems = []
    # a. second run into the same (populated) directory; mkdir is not called again
    wd = ctx.workdir()
    a1 = run_sbeppc(ctx.exe, ctx.shim, wd, sch['path'], sch['args'], fault={})
    a2 = run_sbeppc(ctx.exe, ctx.shim, wd, sch['path'], sch['args'], fault={})
    t = read_tree(os.path.join(wd, 'out'))
    if a1['rc'] != 0 or a2['rc'] != 0 or t != ref:
        problems.append({'what': 'rerun-differs', 'rc': [a1['rc'], a2['rc']],
                         'different': [p for p in set(t) | set(ref) if t.get(p) != ref.get(p)][:5]})
    mk2 = (a2['counts'] or {}).get('mkdir')
    # b. stale content: every file longer than the new one + an unrelated file
    wd = ctx.workdir()
    for p, c in ref.items():
        q = os.path.join(wd, 'out', p)
        os.makedirs(os.path.dirname(q), exist_ok=True)
        open(q, 'wb').write(c[: len(c) // 2] + b'\n// STALE CONTENT ' * 400 + c)
    stale = os.path.join(wd, 'out', sorted(ref)[0].split(os.sep)[0], 'types', 'zz_stale_unrelated.hpp')
    os.makedirs(os.path.dirname(stale), exist_ok=True)
    open(stale, 'wb').write(b'// not generated\n')
    b1 = run_sbeppc(ctx.exe, None, wd, sch['path'], sch['args'])
    t = read_tree(os.path.join(wd, 'out'))
    rel_stale = os.path.relpath(stale, os.path.join(wd, 'out'))
    extra = {p for p in t if p not in ref}
    if b1['rc'] != 0 or any(t.get(p) != c for p, c in ref.items()) or extra != {rel_stale} or \
            t.get(rel_stale) != b'// not generated\n':
        problems.append({'what': 'stale-directory-differs', 'rc': b1['rc'], 'extra': sorted(extra)[:5],
                         'different': [p for p in ref if t.get(p) != ref[p]][:5]})
    # b2. populated with every class of pre-existing content: empty, strict prefixes, same length with one byte
    #     different, identical; the run must rewrite every file (call-level model: open(O_TRUNC) + write + close
    #     per file on EVERY run) and leave the reference bytes
    def mutate(c, cls):
        if cls == 'empty':
            return b''
        if cls == 'prefix-half':
            return c[: len(c) // 2]
        if cls == 'prefix-minus-1':
            return c[:-1]
        if cls == 'last-byte':
            return c[:-1] + bytes([(c[-1] ^ 0x20) if c else 0x41])
        if cls == 'first-byte':
            return bytes([c[0] ^ 0x01]) + c[1:] if c else b'x'
        if cls == 'extension':
            return c + b'\n#error stale tail\n'
        if cls == 'extension-1':
            return c + b'\n'
        return c
    classes = ['empty', 'prefix-half', 'prefix-minus-1', 'last-byte', 'first-byte', 'identical', 'extension', 'extension-1']
    ref_counts = None
    for cls in classes:
        wd = ctx.workdir()
        for p, c in ref.items():
            q = os.path.join(wd, 'out', p)
            os.makedirs(os.path.dirname(q), exist_ok=True)
            open(q, 'wb').write(mutate(c, cls))
        r = run_sbeppc(ctx.exe, ctx.shim, wd, sch['path'], sch['args'], fault={})
        t = read_tree(os.path.join(wd, 'out'))
        if r['rc'] != 0 or t != ref:
            problems.append({'what': 'populated-directory-differs', 'content_class': cls, 'rc': r['rc'],
                             'different': [p for p in set(t) | set(ref) if t.get(p) != ref.get(p)][:5]})
        cnt = {k: v for k, v in (r['counts'] or {}).items() if k in ('open', 'write', 'close')}
        if cnt.get('open') != len(ref) or cnt.get('close', 0) < len(ref) or \
                cnt.get('write', 0) < len([c for c in ref.values() if c]):
            ctx.model_mismatch.append({'case': {'what': 'rerun-call-counts', 'content_class': cls, 'schema': sch['name']},
                                       'model': 'every run opens, writes and closes every file', 'impl': cnt,
                                       'files': len(ref), 'impl_ok_by_spec': r['rc'] == 0 and t == ref})
    ctx.files_compared += len(ref) * len(classes)
    # c. different environment / cwd depth / absolute paths; ASLR stays on
    variants = []
    for i in range(4 if chk.tier == 'thorough' else 2):
        wd = os.path.join(ctx.workdir(), 'deeper' * i, 'x' * (i * 7 + 1))
        env = {'MALLOC_PERTURB_': str(37 * i + 1), 'LC_ALL': ['C', 'en_US.UTF-8', 'C.UTF-8', 'POSIX'][i],
               'TZ': ['UTC', 'Asia/Tokyo', 'America/New_York', 'UTC'][i], 'VERIF_NOISE': 'n' * (i * 1000),
               'HOME': '/nonexistent%d' % i}
        outdir = 'out' if i % 2 == 0 else os.path.join(os.path.abspath(wd), 'abs', 'out')
        r = run_sbeppc(ctx.exe, None, wd, sch['path'], sch['args'], env_extra=env, outdir=outdir)
        t = read_tree(outdir if os.path.isabs(outdir) else os.path.join(wd, 'out'))
        variants.append(i)
        if r['rc'] != 0 or t != ref:
            problems.append({'what': 'environment-run-differs', 'variant': i, 'rc': r['rc'],
                             'different': [p for p in set(t) | set(ref) if t.get(p) != ref.get(p)][:5]})
    ctx.files_compared += len(ref) * (3 + len(variants))
    for pr in problems:
        case = {'what': pr['what'], 'schema': sch['name']}
        if 'content_class' in pr:
            case['content_class'] = pr['content_class']
        chk.report_failure({'kind': 'impl≠spec', 'spec': 'byte-identical files on every run', 'case': case,
                            'schema': sch['name'], 'schema_xml': open(sch['path'], encoding='utf-8').read()[:20000],
                            'args': sch['args'], 'observed': pr}, case)
    return {'mkdir_calls_on_populated_dir': mk2, 'variants': len(variants) + 3, 'problems': len(problems)}


def run(chk):
    chk.extract()
    sys.path.insert(0, core.VERIF)
    from extract import nondet_sources
    with core.Lock('lake'):
        nr = nondet_sources.extract(core.REPO, os.path.join(core.LEAN, 'Sbepp', 'Extracted'))
    chk.extra['nondet_scan'] = {k: nr.get(k) for k in ('nondet_sources', 'hash_iterations', 'hash_containers',
                                                       'pointer_keyed_containers', 'sha256')}
    if nr.get('failed'):
        chk.extract_report.setdefault('failed', {}).update({'nondet_sources.' + k: v for k, v in nr['failed'].items()})
    proved = chk.prove(MODULE, THEOREMS)
    if chk.tier == 'thorough' and proved:
        chk.leanchecker(MODULE)
    exe, log = sbeppc.build(chk, hardened=False)
    if exe is None:
        chk.report_unproved('harness-build', 'sbeppc does not build: ' + log[-1500:])
        return
    shim, log = build_shim(chk)
    if shim is None:
        chk.report_unproved('harness-build', 'iofault.c does not build: ' + log[-1500:])
        return
    scratch = os.path.join(core.BUILD, 'scratch', 'c20-%d' % os.getpid())
    shutil.rmtree(scratch, ignore_errors=True)
    os.makedirs(scratch)
    try:
        ctx = Ctx(chk, exe, shim, scratch)
        per_schema = {}
        try:
            aslr = open('/proc/sys/kernel/randomize_va_space').read().strip()
        except OSError:
            aslr = '?'
        for sch in schemas(chk, scratch):
            info = one_schema(ctx, sch)
            if info is None:
                continue
            ref = info.pop('ref')
            info['determinism'] = determinism(ctx, sch, ref)
            per_schema[sch['name']] = info
            chk.log('%s: %d files, %d bytes, calls %s, %d fault runs' % (
                sch['name'], info['files'], info['bytes'], json.dumps(info['counts']), info['faults']))
        # report: one failure per (what, family, mode), smallest k
        for sig, ent in sorted(ctx.fail_sigs.items()):
            sch = ent['sch']
            case = dict(ent['case'])
            replay = {'kind': 'impl≠spec',
                      'spec': 'exit 0 only if every generated file is complete; otherwise non-zero exit with a diagnostic',
                      'case': case, 'schema': sch['name'], 'schema_xml': open(sch['path'], encoding='utf-8').read()[:200000],
                      'args': sch['args'], 'fault': ent['fault'],
                      'observed': {'rc': ent['res']['rc'], 'output_tail': ent['res']['out'][-600:],
                                   'shim': ent['res']['fired_lines'], 'detail': ent['detail']},
                      'occurrences': ent['count']}
            new = chk.report_failure(replay, case)
            chk.log('%s %s family=%s mode=%s k=%d x%d' % ('FAILURE' if new else 'known', sig[0], sig[1], sig[2],
                                                          case['k'], ent['count']))
        # model correspondence
        wrong_model = [m for m in ctx.model_mismatch if m['impl_ok_by_spec']]
        if wrong_model and not chk.violations:
            chk.report_unproved('impl≠model (implementation agrees with the specification)',
                                {'first': wrong_model[0], 'count': len(wrong_model),
                                 'hint': 'Sbepp.Gen.Files no longer describes fs_provider'})
        other_mismatch = [m for m in ctx.model_mismatch if not m['impl_ok_by_spec']]
        chk.cov['evaluations'] = ctx.runs
        chk.cov['programs'] = len(per_schema)
        chk.cov['distinct_nontrivial'] = ctx.runs
        chk.cov['rule'] = ('one evaluation = one sbeppc run with exactly one scheduled fault (family, k, mode, errno), k ranging '
                           'over every call of the clean run; all are distinct')
        chk.cov['faults_fired'] = dict(sorted(ctx.fired_hist.items()))
        chk.cov['faults_fired_total'] = sum(ctx.fired_hist.values())
        chk.cov['verdicts_by_family_mode'] = ctx.verdicts
        chk.cov['model_mismatches'] = {'impl_ok_by_spec': len(wrong_model), 'impl_violates_spec_differently': len(other_mismatch)}
        chk.cov['files_byte_compared'] = ctx.files_compared
        chk.cov['recovery_runs_after_failed_runs'] = getattr(ctx, 'recovery_runs', 0)
        chk.cov['schemas'] = per_schema
        chk.cov['aslr'] = aslr
        chk.cov['fsync_calls'] = sum(i['counts'].get('fsync', 0) for i in per_schema.values())
        chk.log('fault runs %d, faults fired %d: %s' % (ctx.runs, sum(ctx.fired_hist.values()),
                                                         json.dumps(dict(sorted(ctx.fired_hist.items())))))
        chk.log('verdicts: ' + json.dumps(ctx.verdicts, sort_keys=True))
        if ctx.runs and not ctx.fired_hist:
            chk.report_unproved('harness-run', 'no scheduled fault ever fired: the shim does not interpose')
    finally:
        shutil.rmtree(scratch, ignore_errors=True)
    if chk.failed_obligations and not chk.violations:
        chk.report_unproved('theorem', chk.failed_obligations)
    chk.level = 'proof'
    chk.extra['partial'] = ('proved: exit-status logic of the emission model under every fault schedule, re-run and '
                            'plan-determinism, source scans. observed: that libstdc++ turns a failing write(2) into badbit, '
                            'that its string hash is process independent, that the plan (file contents) is the same on '
                            'every run: shim and byte comparison')
    chk.assumptions += [
        'libstdc++: basic_filebuf opens with fopen(), writes with write()/writev(), closes with fclose(); a failing write '
        'sets badbit and is retried after a short count (observed through the shim, not modelled below the call level)',
        'std::hash<std::string> has no per-process seed (observed: byte-identical output across runs)',
        'faults are injected at the libc call boundary (LD_PRELOAD); kernel-level short writes behave the same',
    ]


def replay(chk, rep):
    exe, log = sbeppc.build(chk, hardened=False)
    shim, log2 = build_shim(chk)
    if exe is None or shim is None:
        print('build failed', (log or log2)[-500:])
        return 1
    scratch = os.path.join(core.BUILD, 'scratch', 'c20-replay-%d' % os.getpid())
    shutil.rmtree(scratch, ignore_errors=True)
    os.makedirs(scratch)
    try:
        sp = os.path.join(scratch, 'schema.xml')
        open(sp, 'w', encoding='utf-8').write(rep['schema_xml'])
        clean = run_sbeppc(exe, None, os.path.join(scratch, 'clean'), sp, rep.get('args', []))
        ref = read_tree(os.path.join(scratch, 'clean', 'out'))
        fault = rep.get('fault')
        if not fault:
            again = run_sbeppc(exe, None, os.path.join(scratch, 'again'), sp, rep.get('args', []))
            t = read_tree(os.path.join(scratch, 'again', 'out'))
            print('clean rc=%s, second rc=%s, identical=%s' % (clean['rc'], again['rc'], t == ref))
            return 0 if t == ref else 1
        res = run_sbeppc(exe, shim, os.path.join(scratch, 'fault'), sp, rep.get('args', []), fault=fault)
        tree = read_tree(os.path.join(scratch, 'fault', 'out'))
        bad = [p for p, c in ref.items() if tree.get(p) != c]
        print('fault :', json.dumps(fault))
        print('shim  :', res['fired_lines'], res['counts'])
        print('spec  : exit 0 only if all %d files are complete, else non-zero with an Error line' % len(ref))
        mexit, mcomplete = model_prediction(fault['family'], fault['mode'])
        print('model : exit %d, files complete: %s' % (mexit, mcomplete))
        print('impl  : exit %d, diagnostic: %s, incomplete files: %d %s' % (
            res['rc'], has_diag(res['out']), len(bad),
            [(p, len(ref[p]), len(tree[p]) if p in tree else None) for p in bad[:3]]))
        ok = (res['rc'] == 0 and not bad) or (res['rc'] == 1 and has_diag(res['out']))
        return 0 if ok else 1
    finally:
        shutil.rmtree(scratch, ignore_errors=True)
