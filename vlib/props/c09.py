"""C09 - sbeppc is total: any input gives exit 0 or a diagnostic, never a crash;
a rejected schema leaves no generated files.

Proved (Lean, `Sbepp.Properties.C09`): every unchecked-access site extracted
from the sbeppc sources is classified in the model's guard table; the pipeline
model never returns `crash` when the
guard table's claims hold (`run_no_crash`, full strength: nesting deeper than 64
is a diagnostic); include resolution terminates for EVERY file system (the
include stack bounds the nesting of parsers by the number of files) and a cycle
is a diagnostic; a `diag` outcome of the model implies that no file was written
unless the diagnostic is `write_file`'s own failure.  Still refuted (open
finding): files left behind after an output file could not be opened.

Observed (this file): a hardened sbeppc (ASan+UBSan, libstdc++ assertions,
`assert` on) on a structure-aware garbling stream and argv combinations, and on
the concrete cases of the Lean witnesses / of the former defects.
"""
import base64
import concurrent.futures
import json
import os
import random
import re
import shutil
import subprocess
import sys
import time

from .. import core, garble, sbeppc
from .. import schema as S

MODULE = 'Sbepp.Properties.C09'
THEOREMS = [
    'Sbepp.Properties.C09.unchecked_sites_covered',
    'Sbepp.Properties.C09.guard_table_nodup',
    'Sbepp.Properties.C09.every_site_classified',
    'Sbepp.Properties.C09.no_unguarded_sites',
    'Sbepp.Properties.C09.fixed_sites_guarded',
    'Sbepp.Properties.C09.run_no_crash',
    'Sbepp.Properties.C09.run_terminates',
    'Sbepp.Properties.C09.run_fuel_stable',
    'Sbepp.Properties.C09.rejected_leaves_no_files_false',
    'Sbepp.Properties.C09.rejected_leaves_no_files_partial',
    'Sbepp.Properties.C09.rejected_leaves_no_files_if_open_succeeds',
    'Sbepp.Properties.C09.ok_writes_all_files',
    # the concrete witness of the remaining refutation (replayed on the real sbeppc below)
    'Sbepp.Properties.C09.witness_files_after_reject',
    # the former witnesses: the model (like the fixed code) answers with a diagnostic / accepts
    'Sbepp.Properties.C09.brace_arg_is_diagnosed',
    'Sbepp.Properties.C09.brace_path_is_diagnosed',
    'Sbepp.Properties.C09.diagnostic_text_is_data',
    'Sbepp.Properties.C09.directory_is_diagnosed',
    'Sbepp.Properties.C09.included_directory_is_diagnosed',
    'Sbepp.Properties.C09.const_char_is_parsed',
    'Sbepp.Properties.C09.include_cycle_is_diagnosed',
    'Sbepp.Properties.C09.include_of_main_is_diagnosed',
    'Sbepp.Properties.C09.deep_nesting_is_diagnosed',
]

TIMEOUT = 25
SAN_ENV = {
    'ASAN_OPTIONS': 'detect_leaks=0:abort_on_error=0:exitcode=99:handle_abort=1:handle_segv=1:detect_stack_use_after_return=0:'
                    'allocator_may_return_null=1:max_allocation_size_mb=2048',
    'UBSAN_OPTIONS': 'print_stacktrace=1:halt_on_error=1:exitcode=98',
}


# --------------------------------------------------------------------- running

def materialise(case, d):
    os.makedirs(d, exist_ok=True)
    for rel in case.get('dirs', []):
        os.makedirs(os.path.join(d, rel), exist_ok=True)
    for rel, data in case['files'].items():
        p = os.path.join(d, rel)
        if os.path.dirname(rel):
            os.makedirs(os.path.dirname(p), exist_ok=True)
        try:
            with open(p, 'wb') as f:
                f.write(data)
        except OSError:
            pass        # a file name the file system refuses: the case then tests a missing file
    return d


def argv_of(case):
    return [a.replace('{OUT}', 'out').replace('{MAIN}', 'schema.xml') for a in case['argv']]


# AddressSanitizer does not let `operator new` fail the way a normal build does: a request beyond its allocator limit
# (3.75 GB) ends the process inside the sanitizer ("allocator is out of memory" / "allocation-size-too-big") where the
# plain binary throws std::bad_alloc or std::length_error.  Such a run says nothing about sbeppc, so the case is run
# again on the PLAIN binary under an address-space limit, and that outcome is judged (since fix 0033 a diagnostic
# "unexpected failure: std::bad_alloc" with exit status 1; before it an abort on the uncaught exception).
ASAN_OOM = re.compile(r'AddressSanitizer: (allocator is out of memory|requested allocation size \S+ .*exceeds maximum '
                      r'supported size|allocation-size-too-big|out-of-memory)')
PLAIN_EXE = [None]
PLAIN_AS_LIMIT = 3 << 30
oom_reruns = [0]


def _huge_length(case):
    """a `length` attribute of 10^8 or more: the run is resource-bound (the sanitizer spends the time limit touching
    gigabytes), not a hang of sbeppc"""
    for data in case.get('files', {}).values():
        if re.search(rb'length\s*=\s*["\'][^"\']*?\d{9,}', data if isinstance(data, bytes) else str(data).encode()):
            return True
    return False


def _limit_as():
    import resource
    resource.setrlimit(resource.RLIMIT_AS, (PLAIN_AS_LIMIT, PLAIN_AS_LIMIT))


def run_case(exe, case, d, timeout=TIMEOUT):
    """-> (rc, output, generated files under every directory the run could have
    written to).  rc < 0: killed by signal; -999: timeout."""
    rc, out, new = _run_case(exe, case, d, timeout)
    if PLAIN_EXE[0] and exe != PLAIN_EXE[0] and (ASAN_OOM.search(out) or (rc == -999 and _huge_length(case))):
        oom_reruns[0] += 1
        shutil.rmtree(d, ignore_errors=True)
        rc, out, new = _run_case(PLAIN_EXE[0], case, d, max(timeout, 90), preexec=_limit_as)
        out = '[re-run on the plain binary under RLIMIT_AS: the hardened run ended in the ASan allocator]\n' + out
    return rc, out, new


def _run_case(exe, case, d, timeout=TIMEOUT, preexec=None):
    materialise(case, d)
    before = snapshot(d)
    env = dict(os.environ)
    env.update(SAN_ENV)
    try:
        p = subprocess.run([exe] + argv_of(case), cwd=d, stdin=subprocess.DEVNULL, stdout=subprocess.PIPE,
                           stderr=subprocess.STDOUT, timeout=timeout, env=env, preexec_fn=preexec)
        rc, out = p.returncode, p.stdout.decode('utf-8', 'replace')
    except subprocess.TimeoutExpired as ex:
        rc, out = -999, 'TIMEOUT ' + (ex.stdout or b'').decode('utf-8', 'replace')[-2000:]
    except OSError as ex:   # argv the kernel refuses (E2BIG, embedded NUL): not an sbeppc run
        rc, out = -998, 'EXEC-FAILED %r' % ex
    after = snapshot(d)
    new = sorted(f for f in after if f not in before or after[f] != before[f])
    return rc, out, new


def snapshot(d):
    out = {}
    for root, _, fs in os.walk(d):
        for f in fs:
            p = os.path.join(root, f)
            try:
                st = os.lstat(p)
                out[os.path.relpath(p, d)] = (st.st_size, st.st_mtime_ns)
            except OSError:
                pass
    return out


FRAME = re.compile(r'#\d+\s+0x[0-9a-f]+\s+in\s+(.+?)\s+(/\S+?):(\d+)')


def recursion_family(out):
    """For a stack overflow the top frame is arbitrary; the stable part is the
    set of repository functions that repeat in the trace."""
    seen, rep = {}, set()
    for m in FRAME.finditer(out):
        fn, path = m.group(1), m.group(2)
        if '/sbepp/sbeppc/' not in path:
            continue
        fn = re.sub(r'\(.*', '', fn)
        fn = re.sub(r'<[^<>]*>', '', fn).split('::')[-1].strip()
        key = '%s:%s' % (os.path.basename(path), fn)
        seen[key] = seen.get(key, 0) + 1
        if seen[key] > 1:
            rep.add(key)
    return '+'.join(sorted(rep)[:3]) if rep else None


def top_repo_frame(out):
    for m in FRAME.finditer(out):
        fn, path = m.group(1), m.group(2)
        if '/sbeppc/' in path and '/sbepp/sbeppc/' in path:
            fn = re.sub(r'\(.*', '', fn)
            fn = re.sub(r'<[^<>]*>', '', fn)
            return '%s:%s' % (os.path.basename(path), fn.split('::')[-1].strip() or fn)
    return None


def classify(rc, out, new_files):
    """-> dict(what=..., ...) ; what in ok | diag | abort | no-diagnostic |
    files-after-reject | unexpected-exit | exec-failed"""
    has_diag = re.search(r'Error(\x1b\[0m)?: \S', out) is not None
    san = None
    m = re.search(r'ERROR: AddressSanitizer: ([\w-]+)', out)
    if m:
        san = 'asan:' + m.group(1)
    m2 = re.search(r'(\S+?):(\d+):(\d+): runtime error: ([^\n]*)', out)
    if m2 and not san:
        san = 'ubsan:%s:%s' % (os.path.basename(m2.group(1)), re.sub(r'[0-9x]+', 'N', m2.group(4))[:60])
    exc = re.search(r"terminate called after throwing an instance of '([^']+)'", out)
    asrt = re.search(r"([\w./+-]+):(\d+): (.*?): Assertion [`'](.*?)' failed", out)
    if rc == -998:
        return {'what': 'exec-failed'}
    crashed = rc < 0 or rc in (98, 99) or san is not None or exc is not None or asrt is not None
    if crashed:
        sig = -rc if rc < 0 and rc != -999 else None
        if rc == -999:
            site, sigs = 'timeout', 'timeout'
        elif exc:
            site = 'uncaught:' + re.sub(r'v\d+::', '', exc.group(1))
            fr = top_repo_frame(out)
            if fr:
                site += '@' + fr
            sigs = 'SIGABRT'
        elif asrt:
            f = os.path.basename(asrt.group(1))
            kind = 'glibcxx-assert' if '/c++/' in asrt.group(1) else 'assert'
            site = '%s:%s:%s' % (kind, f, asrt.group(4)[:60])
            fr = top_repo_frame(out)
            if fr and kind == 'glibcxx-assert':
                site += '@' + fr
            sigs = 'SIGABRT'
        elif san:
            fr = recursion_family(out) if san == 'asan:stack-overflow' else top_repo_frame(out)
            site = san + ('@' + fr if fr else '')
            sigs = 'sanitizer'
        else:
            site = 'signal-%s' % sig
            sigs = 'signal-%s' % sig
        return {'what': 'abort', 'signal': sigs, 'site': site, 'rc': rc}
    if rc == 0:
        return {'what': 'ok'}
    if rc != 1:
        return {'what': 'unexpected-exit', 'rc': rc, 'site': 'exit-%d' % rc}
    if not has_diag:
        return {'what': 'no-diagnostic', 'rc': rc, 'site': 'exit-1-silent'}
    if new_files:
        hp = [f for f in new_files if f.endswith('.hpp')]
        return {'what': 'files-after-reject', 'rc': rc, 'nfiles': len(new_files),
                'site': diag_class(out), 'generated': hp[:5] or new_files[:5]}
    return {'what': 'diag', 'class': diag_class(out)}


def diag_class(out):
    m = re.search(r'Error(?:\x1b\[0m)?: (.*)', out)
    if not m:
        return '?'
    msg = m.group(1)
    msg = re.sub(r'^\S*?:\d+:\d+: ', '', msg)          # location
    msg = re.sub(r'`[^`]*`', '`_`', msg)
    msg = re.sub(r'\(.*?\)', '(_)', msg)
    msg = re.sub(r'"[^"]*"', '"_"', msg)
    msg = re.sub(r'\d+', 'N', msg)
    return msg[:70]


def signature(c):
    return (c.get('what'), c.get('site'))


# --------------------------------------------------------------------- minimisation

def ddmin(items, test, budget):
    """Zeller's ddmin over a list; `test(list) -> bool` (still failing)."""
    n = 2
    runs = 0
    while len(items) >= 2 and runs < budget:
        chunk = max(1, len(items) // n)
        subsets = [items[i:i + chunk] for i in range(0, len(items), chunk)]
        reduced = False
        for i in range(len(subsets)):
            comp = [x for j, s in enumerate(subsets) if j != i for x in s]
            runs += 1
            if comp and test(comp):
                items = comp
                n = max(n - 1, 2)
                reduced = True
                break
            if runs >= budget:
                break
        if not reduced:
            if n >= len(items):
                break
            n = min(len(items), n * 2)
    return items


def minimise(exe, case, sig, scratch, budget=120, seconds=12.0):
    """Smaller case with the same signature: drop side files, then lines of the
    main file, then elements of a one-line file; argv options."""
    counter = [0]
    t_end = time.time() + seconds

    def still(c):
        if time.time() > t_end:
            return False
        counter[0] += 1
        d = os.path.join(scratch, 'min%d' % counter[0])
        try:
            rc, out, new = run_case(exe, c, d, timeout=8)
            return signature(classify(rc, out, new)) == sig
        finally:
            shutil.rmtree(d, ignore_errors=True)

    cur = {'files': dict(case['files']), 'dirs': list(case.get('dirs', [])), 'argv': list(case['argv']),
           'mutation': case['mutation'], 'detail': case.get('detail', '')}
    if sig[1] == 'timeout':
        cur['minimise_runs'] = 0
        return cur
    # side files
    for rel in sorted(cur['files']):
        if rel == 'schema.xml' or len(cur['files']) <= 1:
            continue
        t = dict(cur)
        t['files'] = {k: v for k, v in cur['files'].items() if k != rel}
        if still(t):
            cur = t
    # argv: try the default command line
    if cur['argv'] != garble.DEFAULT_ARGV:
        t = dict(cur)
        t['argv'] = list(garble.DEFAULT_ARGV)
        if still(t):
            cur = t
    # main file content
    main = 'schema.xml' if 'schema.xml' in cur['files'] else None
    if main and len(cur['files'][main]) < 400000:
        data = cur['files'][main]

        def test_lines(ls):
            t = dict(cur)
            t['files'] = dict(cur['files'])
            t['files'][main] = b'\n'.join(ls)
            return still(t)
        t0 = dict(cur)
        t0['files'] = dict(cur['files'])
        t0['files'][main] = b''
        if still(t0):
            cur = t0
        else:
            ls = data.split(b'\n')
            if len(ls) < 3:
                ls = re.split(rb'(?<=>)', data)

                def test_lines(parts):     # noqa: F811
                    t = dict(cur)
                    t['files'] = dict(cur['files'])
                    t['files'][main] = b''.join(parts)
                    return still(t)
                joiner = b''
            else:
                joiner = b'\n'
            ls = ddmin(ls, test_lines, budget)
            cur['files'] = dict(cur['files'])
            cur['files'][main] = joiner.join(ls)
    cur['minimise_runs'] = counter[0]
    return cur


# --------------------------------------------------------------------- witnesses of the Lean refutations

XI = 'xmlns:xi="http://www.w3.org/2001/XInclude"'
HDR = ('<composite name="messageHeader"><type name="blockLength" primitiveType="uint16"/>'
       '<type name="templateId" primitiveType="uint16"/><type name="schemaId" primitiveType="uint16"/>'
       '<type name="version" primitiveType="uint16"/></composite>')


def _schema(types='', msgs='', attrs='package="w" id="1" version="0"'):
    return ('<?xml version="1.0"?>\n<messageSchema %s>\n<types>\n%s\n%s\n</types>\n%s\n</messageSchema>\n' % (
        attrs, HDR, types, msgs)).encode()


def _deep(n):
    return ''.join('<composite name="c%d">' % i for i in range(n)) + '<type name="leaf" primitiveType="uint8"/>' + \
        '</composite>' * n


def _deep_groups(n):
    return '<message name="M" id="1">' + ''.join(
        '<group name="g%d" id="%d"><field name="f%d" id="%d" type="uint8"/>' % (i, i % 60000 + 1, i, i % 60000 + 1)
        for i in range(n)) + '</group>' * n + '</message>'


GSE = ('<composite name="groupSizeEncoding"><type name="blockLength" primitiveType="uint16"/>'
       '<type name="numInGroup" primitiveType="uint16"/></composite>')
ENUM = '<enum name="E" encodingType="char"><validValue name="A">A</validValue></enum>'

def _incl(href):
    return b'<xi:include %s href="%s"/>' % (XI.encode(), href.encode())


# each entry: (Lean theorem in Sbepp.Properties.C09, case, expected outcome of model AND real code, regex)
#   expected 'abort' / 'files-after-reject': a still-open finding (regex on the observed site)
#   expected 'diag' / 'ok': a former defect, fixed in /repo (regex on the diagnostic line); a crash here is
#   reported like any other failure, so reverting a fix makes the check fail on its own case
WITNESSES = [
    ('deep_nesting_is_diagnosed (65 composites)', {'files': {'schema.xml': _schema(_deep(65))}, 'argv': garble.DEFAULT_ARGV,
                                                   'mutation': 'fixed'}, 'diag', r'nesting is too deep, at most 64 levels'),
    ('deep_nesting_is_diagnosed (500000 composites)', {'files': {'schema.xml': _schema(_deep(500000))},
                                                       'argv': garble.DEFAULT_ARGV, 'mutation': 'fixed'},
     'diag', r'nesting is too deep, at most 64 levels'),
    ('deep_nesting_is_diagnosed (65 groups)', {'files': {'schema.xml': _schema(GSE, _deep_groups(65))},
                                               'argv': garble.DEFAULT_ARGV, 'mutation': 'fixed'},
     'diag', r'nesting is too deep, at most 64 levels'),
    ('deep_nesting_is_diagnosed (200000 groups)', {'files': {'schema.xml': _schema(GSE, _deep_groups(200000))},
                                                   'argv': garble.DEFAULT_ARGV, 'mutation': 'fixed'},
     'diag', r'nesting is too deep, at most 64 levels'),
    # the limit fits the stack of every pass: 64 levels compile under ASan (an assumption of `Sound`, observed here)
    ('deep_nesting_is_diagnosed (64 composites are compiled)', {'files': {'schema.xml': _schema(_deep(64))},
                                                                'argv': garble.DEFAULT_ARGV, 'mutation': 'fixed'}, 'ok', r''),
    ('deep_nesting_is_diagnosed (64 groups are compiled)', {'files': {'schema.xml': _schema(GSE, _deep_groups(64))},
                                                            'argv': garble.DEFAULT_ARGV, 'mutation': 'fixed'}, 'ok', r''),
    ('witness_files_after_reject',
     {'files': {'schema.xml': _schema(msgs='<message name="M" id="1"/>')},
      'argv': ['--schema-name', 'x' * 255] + garble.DEFAULT_ARGV, 'mutation': 'witness'},
     'files-after-reject', r"can't open file"),
    ('fix 0033: allocation failure is diagnosed (string constant of length 2^64-1)',
     {'files': {'schema.xml': _schema('<type name="K" primitiveType="char" presence="constant" '
                                      'length="18446744073709551615">abc</type>',
                                      '<message name="M" id="1"><field name="k" id="1" type="K"/></message>')},
      'argv': garble.DEFAULT_ARGV, 'mutation': 'fixed'}, 'diag', r'unexpected failure: std::(bad_alloc|length_error)'),
    ('fix 0033: allocation failure is diagnosed (string constant of 4 GB: ASan allocator limit, judged on the plain binary)',
     {'files': {'schema.xml': _schema('<type name="K" primitiveType="char" presence="constant" '
                                      'length="8026531841">abc</type>',
                                      '<message name="M" id="1"><field name="k" id="1" type="K"/></message>')},
      'argv': garble.DEFAULT_ARGV, 'mutation': 'fixed'}, 'diag', r'unexpected failure: std::(bad_alloc|length_error)'),
    # one composite in both header roles: each use is validated on its own (a validator that remembers "already
    # validated" per name, not per role, accepts the second use and the compilers then work on a header that lacks the
    # element they look up)
    ('header composite used as dimensionType, then as data type',
     {'files': {'schema.xml': _schema(
         GSE + '<composite name="V"><type name="length" primitiveType="uint16"/><type name="varData" primitiveType="uint8" length="0"/></composite>',
         '<message name="M" id="1"><group name="g" id="2" dimensionType="groupSizeEncoding"><field name="x" id="3" type="uint8"/></group>'
         '<data name="d" id="4" type="groupSizeEncoding"/></message>')},
      'argv': garble.DEFAULT_ARGV, 'mutation': 'fixed'}, 'diag', r"data header `groupSizeEncoding` doesn't have required `length` element"),
    ('header composite used as data type, then as dimensionType',
     {'files': {'schema.xml': _schema(
         GSE + '<composite name="V"><type name="length" primitiveType="uint16"/><type name="varData" primitiveType="uint8" length="0"/></composite>',
         '<message name="M" id="1"><data name="d" id="4" type="V"/></message>'
         '<message name="N" id="2"><group name="g" id="2" dimensionType="V"><field name="x" id="3" type="uint8"/></group></message>')},
      'argv': garble.DEFAULT_ARGV, 'mutation': 'fixed'}, 'diag', r"group header `V` doesn't have required `numInGroup` element"),
    ('brace_arg_is_diagnosed', {'files': {'schema.xml': _schema()}, 'argv': ['-{}'], 'mutation': 'fixed'},
     'diag', r'unknown argument: `-\{\}`'),
    ('brace_path_is_diagnosed', {'files': {}, 'argv': ['--output-dir', '{OUT}', 'no{such}.xml'], 'mutation': 'fixed'},
     'diag', r"can't open file: `no\{such\}\.xml`"),
    ('diagnostic_text_is_data', {'files': {'schema.xml': _schema('<type name="{" primitiveType="uint8"/>')},
                                 'argv': garble.DEFAULT_ARGV, 'mutation': 'fixed'}, 'diag', r'`\{` is not a valid SBE name'),
    ('directory_is_diagnosed', {'files': {}, 'dirs': ['adir'], 'argv': ['--output-dir', '{OUT}', 'adir'],
                                'mutation': 'fixed'}, 'diag', r'`adir` is a directory'),
    ('included_directory_is_diagnosed',
     {'files': {'schema.xml': _schema().replace(b'<types>', _incl('adir') + b'<types>')}, 'dirs': ['adir'],
      'argv': garble.DEFAULT_ARGV, 'mutation': 'fixed'}, 'diag', r'`adir` is a directory'),
    ('const_char_is_parsed',
     {'files': {'schema.xml': _schema('<type name="K" primitiveType="char" presence="constant"/>')},
      'argv': garble.DEFAULT_ARGV, 'mutation': 'fixed'}, 'diag', r'either `valueRef` or value must be provided'),
    ('const_char_is_parsed (valueRef: a valid schema)',
     {'files': {'schema.xml': _schema(ENUM + '<type name="K" primitiveType="char" presence="constant" valueRef="E.A"/>')},
      'argv': garble.DEFAULT_ARGV, 'mutation': 'fixed'}, 'ok', r''),
    ('include_cycle_is_diagnosed',
     {'files': {'schema.xml': _schema().replace(b'<types>', _incl('self.xml') + b'<types>'), 'self.xml': _incl('self.xml')},
      'argv': garble.DEFAULT_ARGV, 'mutation': 'fixed'}, 'diag', r'self\.xml:\d+:\d+: cyclic include of `self\.xml`'),
    ('include_cycle_is_diagnosed (3-cycle)',
     {'files': {'schema.xml': _schema().replace(b'<types>', _incl('a.xml') + b'<types>'), 'a.xml': _incl('b.xml'),
                'b.xml': _incl('c.xml'), 'c.xml': _incl('a.xml')},
      'argv': garble.DEFAULT_ARGV, 'mutation': 'fixed'}, 'diag', r'c\.xml:\d+:\d+: cyclic include of `a\.xml`'),
    ('include_of_main_is_diagnosed',
     {'files': {'schema.xml': _schema().replace(b'<types>', _incl('schema.xml') + b'<types>')},
      'argv': garble.DEFAULT_ARGV, 'mutation': 'fixed'}, 'diag', r'cyclic include of `schema\.xml`'),
    ('location_manager::find is total (no model counterpart: offsets are not modelled any more)',
     {'files': {'schema.xml': b'            <type name'}, 'argv': garble.DEFAULT_ARGV, 'mutation': 'fixed'},
     'diag', r'XML parsing error'),
    ('location_manager::find is total (transcoded buffer)',
     {'files': {'schema.xml': '<?xml version="1.0" encoding="latin1"?>'.encode() + ('<!-- %s -->' % ('\xe9' * 3000)).encode('latin-1')
                + _schema().split(b'?>', 1)[1].replace(b'</messageSchema>', b'<message name="9bad" id="1"/></messageSchema>')},
      'argv': garble.DEFAULT_ARGV, 'mutation': 'fixed'}, 'diag', r'is not a valid SBE name'),
]


# --------------------------------------------------------------------- main loop

def base_schemas(chk, n):
    out = []
    d = os.path.join(core.REPO, 'test', 'schemas')
    try:
        for f in sorted(os.listdir(d)):
            if f.endswith('.xml'):
                out.append(('repo:' + f, open(os.path.join(d, f), encoding='utf-8').read()))
    except OSError:
        pass
    for i in range(n):
        rng = random.Random(chk.seed * 1000003 + i)
        gen = S.Gen(rng, max_depth=2)
        out.append(('gen:%d' % i, S.to_xml(garble.enrich(gen.schema(nmsgs=rng.choice([1, 2])), rng))))
    return out


def fuzz(chk, exe, scratch):
    thorough = chk.tier == 'thorough'
    ncases = 100000 if thorough else 4200
    budget_s = 840 if thorough else 140      # wall-clock cap of the stream (a loaded machine runs fewer cases)
    nbase = 500 if thorough else 80
    all_bases = base_schemas(chk, nbase)
    rng = random.Random(chk.seed * 7919 + 9)
    gb = garble.Garbler(rng)
    # the unmodified base schemas are cases themselves; only accepted ones are garbled
    # (otherwise every descendant of a crashing base repeats that crash and hides others)
    cases = []
    for name, xml in all_bases:
        cases.append({'files': {'schema.xml': xml.encode()}, 'dirs': [], 'argv': list(garble.DEFAULT_ARGV),
                      'mutation': 'base', 'detail': name})

    def accepted(i):
        d = os.path.join(scratch, 'b%d' % i)
        try:
            rc, out, new = run_case(exe, cases[i], d)
            return classify(rc, out, new)['what'] == 'ok'
        finally:
            shutil.rmtree(d, ignore_errors=True)
    with concurrent.futures.ThreadPoolExecutor(max_workers=core.NPROC) as ex:
        acc = list(ex.map(accepted, range(len(cases))))
    bases = [b for b, a in zip(all_bases, acc) if a]
    if len(bases) < max(3, len(all_bases) // 3):
        chk.report_unproved('generator', 'only %d of %d base schemas are accepted by sbeppc' % (len(bases), len(all_bases)))
        bases = all_bases
    outcome_hist, diag_hist, fail_by_sig = {}, {}, {}
    mut_outcomes = {}
    distinct = set()
    t0 = time.time()
    total = [0]

    def work(ic):
        i, c = ic
        d = os.path.join(scratch, 'w%d' % i)
        try:
            rc, out, new = run_case(exe, c, d)
            return c, classify(rc, out, new), out[-3000:]
        finally:
            shutil.rmtree(d, ignore_errors=True)

    def size(k):
        return sum(len(v) for v in k['files'].values())

    def tally(results):
        base_ok = 0
        for c, cl, out in results:
            total[0] += 1
            w = cl['what']
            distinct.add((c['mutation'], c.get('detail', '')))
            outcome_hist[w] = outcome_hist.get(w, 0) + 1
            mo = mut_outcomes.setdefault(c['mutation'], {})
            mo[w] = mo.get(w, 0) + 1
            if c['mutation'] == 'base' and w == 'ok':
                base_ok += 1
            if w == 'diag':
                diag_hist[cl['class']] = diag_hist.get(cl['class'], 0) + 1
            if w in ('ok', 'diag', 'exec-failed'):
                continue
            sig = signature(cl)
            ent = fail_by_sig.setdefault(sig, {'count': 0, 'case': c, 'class': cl, 'out': out, 'mutations': {}})
            ent['count'] += 1
            ent['mutations'][c['mutation']] = ent['mutations'].get(c['mutation'], 0) + 1
            if size(c) < size(ent['case']):
                ent.update({'case': c, 'class': cl, 'out': out})
        return base_ok

    def gen_chunk(n):
        out = []
        while len(out) < n:
            name, xml = bases[rng.randrange(len(bases))]
            try:
                c = gb.case(xml)
            except Exception as ex:      # a garbler slip must not stop the run
                chk.extra.setdefault('garbler_errors', []).append(repr(ex)[:100])
                if len(chk.extra['garbler_errors']) > 50:
                    raise
                continue
            c['base'] = name
            out.append(c)
        return out

    # cases are generated and run in chunks (the whole stream does not fit in memory)
    with concurrent.futures.ThreadPoolExecutor(max_workers=core.NPROC) as ex:
        base_ok = tally(ex.map(work, enumerate(cases), chunksize=4))
        done = len(cases)
        while done < ncases and time.time() - t0 < budget_s:
            chunk = gen_chunk(min(2000 if thorough else 700, ncases - done))
            tally(ex.map(work, enumerate(chunk, start=done), chunksize=8))
            done += len(chunk)
    ncases_run = total[0]
    chk.log('fuzz: %d cases in %.1fs; outcomes %s; %d distinct failure signatures' % (
        ncases_run, time.time() - t0, json.dumps(outcome_hist, sort_keys=True), len(fail_by_sig)))
    if base_ok < len(all_bases):
        chk.log('note: %d of %d base schemas are not accepted by sbeppc (not garbled further)' % (
            len(all_bases) - base_ok, len(all_bases)))
    # report one (minimised) failure per signature
    for sig, ent in sorted(fail_by_sig.items(), key=lambda kv: str(kv[0])):
        kase = {k: v for k, v in ent['class'].items() if k in ('what', 'signal', 'site', 'rc')}
        kase['mutation'] = ent['case']['mutation']
        known = any(f.get('status') == 'open' and core.match_finding(f.get('match', {}), kase) for f in chk.findings)
        # a known finding is only counted; anything else is minimised before it is reported
        mc = ent['case'] if known else minimise(exe, ent['case'], sig, scratch)
        report(chk, exe, mc, ent['class'], ent['out'], scratch, count=ent['count'], mutations=ent['mutations'])
    chk.cov['evaluations'] = ncases_run
    chk.cov['evaluations_planned'] = ncases
    chk.cov['programs'] = len(all_bases)
    chk.cov['distinct_nontrivial'] = len(distinct)
    chk.cov['rule'] = ('one evaluation = one run of the hardened sbeppc on one garbled case; distinct = distinct '
                       '(mutation, detail) pairs; base schemas are run unmodified first')
    chk.cov['outcomes'] = outcome_hist
    chk.cov['mutation_histogram'] = dict(sorted(gb.hist.items()))
    chk.cov['mutation_outcomes'] = {k: mut_outcomes[k] for k in sorted(mut_outcomes)}
    chk.cov['diagnostic_classes'] = len(diag_hist)
    chk.cov['diagnostic_histogram_top'] = dict(sorted(diag_hist.items(), key=lambda kv: -kv[1])[:40])
    chk.cov['failure_signatures'] = {'%s|%s' % s: {'count': e['count'], 'mutations': e['mutations']}
                                     for s, e in fail_by_sig.items()}
    chk.cov['base_accepted'] = '%d/%d' % (base_ok, len(all_bases))


def encode_case(c):
    return {'files': {k: base64.b64encode(v).decode() for k, v in c['files'].items()},
            'files_text': {k: v.decode('utf-8', 'replace')[:4000] for k, v in c['files'].items() if len(v) < 20000},
            'dirs': c.get('dirs', []), 'argv': c['argv'], 'mutation': c['mutation'], 'detail': c.get('detail', '')}


def decode_case(r):
    return {'files': {k: base64.b64decode(v) for k, v in r['files'].items()}, 'dirs': r.get('dirs', []),
            'argv': r['argv'], 'mutation': r.get('mutation', '?'), 'detail': r.get('detail', '')}


def report(chk, exe, case, cl, out, scratch, count=1, mutations=None):
    d = os.path.join(scratch, 'rep')
    try:
        rc, o2, new = run_case(exe, case, d)
        cl2 = classify(rc, o2, new)
        if signature(cl2) == signature(cl):
            out, cl = o2[-3000:], cl2
    finally:
        shutil.rmtree(d, ignore_errors=True)
    kase = {k: v for k, v in cl.items() if k in ('what', 'signal', 'site', 'rc')}
    kase['mutation'] = case['mutation']
    replay = {'kind': 'impl≠spec', 'spec': 'exit 0, or exit 1 with an `Error:` line and no generated file',
              'case': kase, 'input': encode_case(case), 'argv': argv_of(case), 'cwd': '<case directory>',
              'observed': {'rc': cl.get('rc'), 'class': cl, 'output_tail': out[-1500:]},
              'occurrences': count, 'mutations': mutations or {}}
    new = chk.report_failure(replay, kase)
    chk.log('%s %s site=%s x%d (mutations: %s)' % ('FAILURE' if new else 'known', cl['what'], cl.get('site'), count,
                                                   ', '.join(sorted(mutations or {}))[:120]))


def witnesses(chk, exe, scratch):
    """The concrete cases behind the Lean statements, run on the real code: the
    witnesses of the remaining refutations must still fail (otherwise the model
    is stale), the former defects must give what model and specification say."""
    res = {}
    for i, (name, case, what, rx) in enumerate(WITNESSES):
        d = os.path.join(scratch, 'wit%d' % i)
        try:
            rc, out, new = run_case(exe, case, d)
        finally:
            shutil.rmtree(d, ignore_errors=True)
        cl = classify(rc, out, new)
        res[name] = {'expected': what, 'observed': cl['what'], 'site': cl.get('site') or cl.get('class')}
        m = re.search(r'Error(?:\x1b\[0m)?: (.*)', out)
        line = m.group(1) if m else ''
        if cl['what'] not in ('ok', 'diag'):
            # a failure by the specification: reported (known finding or violation)
            report(chk, exe, case, cl, out[-3000:], scratch, mutations={case['mutation']: 1})
            if what in ('ok', 'diag') or cl['what'] != what or not re.search(rx, cl.get('site', '')):
                res[name]['note'] = 'model expects %s' % what
        elif what in ('ok', 'diag') and cl['what'] == what and re.search(rx, line if what == 'diag' else ''):
            pass
        else:
            chk.report_unproved('impl≠model (implementation agrees with the specification)',
                                {'lean_witness': name, 'model': what, 'model_pattern': rx, 'impl': cl,
                                 'impl_diagnostic': line[:200],
                                 'hint': 'Sbepp.Gen.Pipeline / Sbepp.Properties.C09 describe a different behaviour for '
                                         'this input than the real sbeppc shows'})
    chk.cov['witness_replays'] = res
    chk.cov['asan_allocator_cases_rerun_on_plain_binary'] = oom_reruns[0]


def run_own_extractor(chk):
    """UncheckedSites is produced by extract/unchecked_sites.py; it is also run
    from here so that the obligation is tied to the current tree even if
    run_all does not list it."""
    sys.path.insert(0, core.VERIF)
    from extract import unchecked_sites
    with core.Lock('lake'):
        r = unchecked_sites.extract(core.REPO, os.path.join(core.LEAN, 'Sbepp', 'Extracted'))
    chk.extra['unchecked_sites'] = {'sites': r.get('sites'), 'by_kind': r.get('by_kind'), 'sha256': r.get('sha256')}
    if r.get('failed'):
        chk.extract_report.setdefault('failed', {}).update({'unchecked_sites.' + k: v for k, v in r['failed'].items()})
    return r


def run(chk):
    chk.extract()
    run_own_extractor(chk)
    proved = chk.prove(MODULE, THEOREMS)
    if chk.tier == 'thorough' and proved:
        chk.leanchecker(MODULE)
    exe, log = sbeppc.build(chk, hardened=True)
    if exe is None:
        chk.report_unproved('harness-build', 'hardened sbeppc does not build: ' + log[-1500:])
        return
    PLAIN_EXE[0], _ = sbeppc.build(chk)
    scratch = os.path.join(core.BUILD, 'scratch', 'c09-%d' % os.getpid())
    shutil.rmtree(scratch, ignore_errors=True)
    os.makedirs(scratch)
    try:
        witnesses(chk, exe, scratch)
        fuzz(chk, exe, scratch)
    finally:
        shutil.rmtree(scratch, ignore_errors=True)
    if chk.failed_obligations and not chk.violations:
        chk.report_unproved('theorem', chk.failed_obligations)
    chk.level = 'proof'
    chk.extra['partial'] = ('proved: site coverage of the guard table, no crash outside the unguarded sites, include '
                            'termination/fuel, write ordering -- all about the pipeline model. observed: the classification '
                            'of each site as guarded (the named validator rule really dominates the access), memory safety '
                            'of pugixml/fmt/libstdc++, absence of UB elsewhere: hardened-build fuzzing only')
    chk.assumptions += [
        'the guard named for each `guarded` site in Sbepp.Gen.Pipeline.guardTable really dominates the access in the C++ '
        '(audited by hand, exercised by the hardened fuzzing; not proved)',
        'max_nesting_depth = 64 levels of composites/groups fit the stack of every recursive pass (observed: the 64-level '
        'cases compile under ASan; part of `Sound`)',
        'pugixml, {fmt}, libstdc++ are not modelled; their memory safety on these inputs is observed by ASan/UBSan',
        'the sanitizer build (-O1, ASan, UBSan, _GLIBCXX_ASSERTIONS, assert on) reaches the same decisions as a release build',
    ]


def replay(chk, rep):
    exe, log = sbeppc.build(chk, hardened=True)
    if exe is None:
        print('hardened sbeppc does not build:', log[-800:])
        return 1
    scratch = os.path.join(core.BUILD, 'scratch', 'c09-replay-%d' % os.getpid())
    if 'input' not in rep:
        # a "no failing input" replay: theorem / extraction / model-correspondence that no longer checks
        print('kind  :', rep.get('kind'))
        print('detail:', json.dumps(rep.get('detail'), indent=1)[:3000])
        name = (rep.get('detail') or {}).get('lean_witness') if isinstance(rep.get('detail'), dict) else None
        for site, case, what, rx in WITNESSES:
            if site == name:
                shutil.rmtree(scratch, ignore_errors=True)
                try:
                    rc, out, new = run_case(exe, case, os.path.join(scratch, 'r'))
                finally:
                    shutil.rmtree(scratch, ignore_errors=True)
                cl = classify(rc, out, new)
                print('model : %s /%s/ (Lean: %s)' % (what, rx, site))
                print('impl  : rc=%s class=%s' % (rc, json.dumps(cl)))
                print('output tail:\n' + out[-600:])
                return 0 if cl['what'] == what else 1
        return 1
    case = decode_case(rep['input'])
    shutil.rmtree(scratch, ignore_errors=True)
    try:
        rc, out, new = run_case(exe, case, os.path.join(scratch, 'r'))
    finally:
        shutil.rmtree(scratch, ignore_errors=True)
    cl = classify(rc, out, new)
    print('argv :', argv_of(case))
    for k, v in case['files'].items():
        print('file :', k, '(%d bytes)' % len(v))
        if len(v) < 3000:
            print(v.decode('utf-8', 'replace'))
    print('spec : exit 0, or exit 1 with an `Error:` line and no generated file')
    print('impl : rc=%s class=%s' % (rc, json.dumps(cl)))
    print('output tail:\n' + out[-1500:])
    return 0 if cl['what'] in ('ok', 'diag') else 1
