"""C06 - size_bytes_checked is safe and exact on untrusted buffers.

Layer R: generated schemas -> real sbeppc -> per-schema driver (vlib/c06gen.py,
harness/c06_driver.hpp) calling sbepp::size_bytes_checked on a guard buffer of
EXACTLY n bytes, in a release-style build (SBEPP_DISABLE_ASSERTS: `v,s`, FAULT,
UB, TIMEOUT + exact callback count) and a checked build
(SBEPP_ENABLE_ASSERTS_WITH_HANDLER: ASSERT; since /repo 7262f97 every access the
release model logs beyond n must end in the assertion handler there).  For every message shape and every
well-formed image: every truncation point, a few sizes beyond, and overwrites of
every blockLength / numInGroup / length value with 0, max, fitting-1, fitting,
fitting+1 (plus blockLength=0 together with numInGroup=max); the same truncation
series for every top-level group through the group-view overload.

impl vs spec (Spec.CheckedSize)  -> chk.report_failure (narrow `case` dicts)
impl vs model (Rt.Checked)       -> chk.report_unproved
"""
import concurrent.futures as cf
import random
import zlib

from .. import core, wire, wirecheck as W, c06gen

MODULE = 'Sbepp.Properties.C06'
THEOREMS = [
    'Sbepp.Properties.C06.vas_eq_extracted',
    'Sbepp.Properties.C06.spec_executable',
    # verdict/size at full strength since /repo 3b08414 (fix 0031): every layout, every n < 2^64 (n is a std::size_t;
    # checked_valid_iff_needs_size_t: in the model, whose offsets are unbounded naturals, the bound is needed)
    'Sbepp.Properties.C06.checked_valid_iff',
    'Sbepp.Properties.C06.checked_group_valid_iff',
    'Sbepp.Properties.C06.checked_valid_iff_full',
    'Sbepp.Properties.C06.checked_valid_iff_needs_size_t',
    'Sbepp.Properties.C06.checked_reads_below_n_partial',
    'Sbepp.Properties.C06.checked_group_reads_below_n_partial',
    'Sbepp.Properties.C06.strict_implies_fits',
    'Sbepp.Properties.C06.checked_reads_slack',
    'Sbepp.Properties.C06.checked_group_reads_slack',
    'Sbepp.Properties.C06.checked_reads_below_n_full_false',
    'Sbepp.Properties.C06.checked_reads_short_block_witness',
    'Sbepp.Properties.C06.checked_work_accounted',
    'Sbepp.Properties.C06.checked_group_work_accounted',
    'Sbepp.Properties.C06.checked_work_bounded_partial',
    'Sbepp.Properties.C06.checked_work_bounded_full_false',
    # translator tie: every member function of size_bytes_checked_visitor and size_bytes_checked as sbepp.hpp states them
    # now (Extracted/CheckedVisitor.lean, extract/methods_checked.py) = the hand-written member function
    'Sbepp.Checked.Tie.validateAndSubtract_tie',
    'Sbepp.Checked.Tie.isValid_tie',
    'Sbepp.Checked.Tie.getSize_tie',
    'Sbepp.Checked.Tie.setGroupBlockLength_tie',
    'Sbepp.Checked.Tie.ctor_tie',
    'Sbepp.Checked.Tie.onField_tie',
    'Sbepp.Checked.Tie.onData_tie',
    'Sbepp.Checked.Tie.onEntry_tie',
    'Sbepp.Checked.Tie.onGroup_tie',
    'Sbepp.Checked.Tie.onMessage_tie',
    'Sbepp.Checked.Tie.sizeBytesChecked_tie',
    'Sbepp.Checked.Tie.ops_tie',
    # the model of the theorems = hand model of the generated code and the cursor around those member functions
    'Sbepp.Checked.Factor.runMsg_hand',
    'Sbepp.Checked.Factor.runGroup_hand',
    'Sbepp.Checked.Tie.runMsg_extracted',
    'Sbepp.Checked.Tie.runGroup_extracted',
    # the property theorems restated for the extracted member functions
    'Sbepp.Properties.C06.checked_model_is_extracted',
    'Sbepp.Properties.C06.checked_valid_iff_extracted',
    'Sbepp.Properties.C06.checked_group_valid_iff_extracted',
    'Sbepp.Properties.C06.checked_reads_below_n_partial_extracted',
    'Sbepp.Properties.C06.checked_group_reads_below_n_partial_extracted',
    'Sbepp.Properties.C06.checked_reads_slack_extracted',
    'Sbepp.Properties.C06.checked_group_reads_slack_extracted',
    'Sbepp.Properties.C06.checked_work_accounted_extracted',
    'Sbepp.Properties.C06.checked_group_work_accounted_extracted',
]
MODEL_STEP_LIMIT = 1000000


# ------------------------------------------------------------------ corpus: the Lean witnesses on the real code

def _u16hdr():
    return {'k': 'composite', 'name': 'messageHeader',
            'elems': [{'k': 'type', 'name': x, 'prim': 'uint16'} for x in ('blockLength', 'templateId', 'schemaId', 'version')]}


CORPUS_SCHEMA = {
    'package': 'vs', 'id': 1, 'version': 0, 'byteOrder': 'littleEndian',
    'types': [
        _u16hdr(),
        {'k': 'composite', 'name': 'Dim', 'elems': [{'k': 'type', 'name': 'blockLength', 'prim': 'uint8'},
                                                   {'k': 'type', 'name': 'numInGroup', 'prim': 'uint8'}]},
        {'k': 'composite', 'name': 'Var8', 'elems': [{'k': 'type', 'name': 'length', 'prim': 'uint8'},
                                                    {'k': 'type', 'name': 'varData', 'prim': 'uint8', 'length': 0}]},
        {'k': 'composite', 'name': 'Var64', 'elems': [{'k': 'type', 'name': 'length', 'prim': 'uint64'},
                                                     {'k': 'type', 'name': 'varData', 'prim': 'uint8', 'length': 0}]},
    ],
    'messages': [
        # witness (i) of checked_reads_below_n_full_false (Properties/C06.lean `dataMsg`)
        {'name': 'MData', 'id': 1, 'fields': [], 'groups': [], 'datas': [{'name': 'd', 'id': 2, 'type': 'Var8'}]},
        # witness (ii) `shortMsg`
        {'name': 'MField', 'id': 3, 'fields': [{'name': 'a', 'id': 4, 'type': 'uint32'}], 'groups': [], 'datas': []},
        # witness (iii) of checked_work_bounded_full_false `loopMsg`
        {'name': 'MLoop', 'id': 5, 'fields': [],
         'groups': [{'name': 'g', 'id': 6, 'dim': 'Dim', 'fields': [], 'groups': [], 'datas': []}], 'datas': []},
        # regression witness `wideMsg` (a uint64 length whose size_bytes wraps: repaired by /repo 3b08414, fix 0031)
        {'name': 'MWide', 'id': 7, 'fields': [], 'groups': [], 'datas': [{'name': 'd', 'id': 8, 'type': 'Var64'}]},
    ],
}
H = [0, 0, 1, 0, 1, 0, 0, 0]   # header: blockLength 0
# (message, bytes, n, mutation label, expected `what` on the current code; 'none': a REPAIRED defect - the request must
# give impl = spec = model without any failure, if the defect returns the request is a failing input of the VIOLATION)
CORPUS_REQUESTS = [
    ('MData', H, 8, {'mut_field': 'truncate', 'mut_value': '-', 'prim': '-', 'owner': '-', 'corpus': 'dataMsg'}, 'overread'),
    ('MField', H, 8, {'mut_field': 'blockLength', 'mut_value': '0', 'prim': 'uint16', 'owner': 'message',
                      'corpus': 'shortMsg'}, 'overread'),
    ('MLoop', H + [0, 255], 10, {'mut_field': 'blockLength+numInGroup', 'mut_value': '0+max', 'prim': 'uint8',
                                 'owner': 'group', 'corpus': 'loopMsg'}, 'unbounded-loop'),
    # sizeof(length) + length wraps to 7 (before the repair: valid=1, size=15), to 0 (valid=1, size=8), to 4 (1,12)
    ('MWide', H + [255] * 8, 16, {'mut_field': 'length', 'mut_value': 'max', 'prim': 'uint64', 'owner': 'data',
                                  'corpus': 'wideMsg'}, 'none'),
    ('MWide', H + [248] + [255] * 7, 16, {'mut_field': 'length', 'mut_value': 'max-7', 'prim': 'uint64', 'owner': 'data',
                                          'corpus': 'wideMsg-sum-0'}, 'none'),
    ('MWide', H + [252] + [255] * 7 + [1, 2, 3, 4], 20, {'mut_field': 'length', 'mut_value': 'max-3', 'prim': 'uint64',
                                                        'owner': 'data', 'corpus': 'wideMsg-sum-4'}, 'none'),
    # a 64-bit length that does fit, and one byte short of it
    ('MWide', H + [3] + [0] * 7 + [0x61, 0x62, 0x63], 19, {'mut_field': 'length', 'mut_value': 'fit', 'prim': 'uint64',
                                                          'owner': 'data', 'corpus': 'wideOk'}, 'none'),
    ('MWide', H + [3] + [0] * 7 + [0x61, 0x62], 18, {'mut_field': 'length', 'mut_value': 'fit+1', 'prim': 'uint64',
                                                    'owner': 'data', 'corpus': 'wideOk-short'}, 'none'),
]
# what the specification says for the 'none' requests (the check fails if the model driver says otherwise)
CORPUS_SPEC = {'wideMsg': '0,0', 'wideMsg-sum-0': '0,0', 'wideMsg-sum-4': '0,0', 'wideOk': '1,19', 'wideOk-short': '0,0'}


def corpus_case(chk, run):
    c = wire.SchemaCase(chk, 9000, CORPUS_SCHEMA, run.workdir)
    c.compile_schema(run.sbeppc)
    if c.rc != 0:
        chk.report_unproved('corpus schema rejected by sbeppc', {'rc': c.rc, 'out': c.out[:500]})
        return None
    import json
    c.layout = json.loads(run.model_lines(['layout ' + c.sexp])[0])
    return c


# ------------------------------------------------------------------ images with the offsets of their header values

def flatten_level(bo, level, v, img, marks, where):
    img += v['block']
    for g, gv in zip(level['groups'], v['groups']):
        dim = g['dim']
        base = len(img)
        ident = '%s/%s' % (where, g['name'])
        bl = int.from_bytes(bytes(gv['hdr'][dim['blOff']:dim['blOff'] + dim['blSize']]), bo)
        nu = int.from_bytes(bytes(gv['hdr'][dim['numOff']:dim['numOff'] + dim['numSize']]), bo)
        m_bl = {'field': 'blockLength', 'off': base + dim['blOff'], 'size': dim['blSize'], 'prim': dim['blPrim'],
                'fit': bl, 'where': ident, 'owner': 'group'}
        m_nu = {'field': 'numInGroup', 'off': base + dim['numOff'], 'size': dim['numSize'], 'prim': dim['numPrim'],
                'fit': nu, 'where': ident, 'owner': 'group', 'pair': m_bl}
        marks += [m_bl, m_nu]
        img += gv['hdr']
        for i, e in enumerate(gv['entries']):
            flatten_level(bo, g['level'], e, img, marks, '%s[%d]' % (ident, i))
    for d, dv in zip(level['datas'], v['datas']):
        marks.append({'field': 'length', 'off': len(img), 'size': d['lenSize'], 'prim': d['lenPrim'], 'fit': len(dv),
                      'where': '%s/%s' % (where, d['name']), 'owner': 'data'})
        img += wire.put(bo, d['lenSize'], len(dv))
        img += dv


def flatten_message(bo, msg, v):
    """(image bytes, marks, [(group name, start, end)] of the top-level groups)"""
    img = list(v['hdr'])
    marks = []
    hl = {tuple(l['path']): l for l in msg['hdrLeaves']}
    bll = hl[('blockLength',)]
    marks.append({'field': 'blockLength', 'off': bll['off'], 'size': bll['size'], 'prim': bll['prim'],
                  'fit': int.from_bytes(bytes(v['hdr'][bll['off']:bll['off'] + bll['size']]), bo),
                  'where': 'message', 'owner': 'message'})
    # top-level group extents: flatten the root step by step
    root = v['root']
    level = msg['level']
    img += root['block']
    tops = []
    for g, gv in zip(level['groups'], root['groups']):
        start = len(img)
        sub = {'block': [], 'groups': [gv], 'datas': []}
        flatten_level(bo, {'groups': [g], 'datas': []}, sub, img, marks, '')
        tops.append((g['name'], start, len(img)))
    tail = {'block': [], 'groups': [], 'datas': root['datas']}
    flatten_level(bo, {'groups': [], 'datas': level['datas']}, tail, img, marks, '')
    return img, marks, tops


def overwrite(bo_py, img, mark, value):
    out = list(img)
    out[mark['off']:mark['off'] + mark['size']] = list(int(value).to_bytes(mark['size'], bo_py))
    return out


def mutation_values(mark):
    mx = 256 ** mark['size'] - 1
    fit = mark['fit']
    cand = [('0', 0), ('max', mx), ('fit-1', fit - 1), ('fit', fit), ('fit+1', fit + 1)]
    seen = set()
    out = []
    for label, val in cand:
        if 0 <= val <= mx and val not in seen:
            seen.add(val)
            out.append((label, val))
    return out


# ------------------------------------------------------------------ requests

class Req:
    __slots__ = ('case', 'msg', 'view', 'group', 'buf', 'n', 'mut', 'honest', 'mk', 'image_len')

    def __init__(self, case, msg, view, group, buf, n, mut, honest, image_len):
        self.case, self.msg, self.view, self.group, self.buf, self.n = case, msg, view, group, buf, n
        self.mut, self.honest, self.image_len = mut, honest, image_len
        self.mk = None

    def padded(self):
        b = self.buf[:self.n]
        return b + [0] * (self.n - len(b))

    def model_line(self, lim=None):
        g = ' (group %s)' % self.group if self.view == 'group' else ''
        return 'checked (req %s (msg %s) (buf x%s) (n %d)%s (lim %d))' % (
            self.case.sexp, self.msg['name'], wire.hexs(self.padded()), self.n, g, lim or MODEL_STEP_LIMIT)

    def driver_line(self):
        if self.view == 'group':
            return 'checkedg %s %s x%s %d' % (self.msg['name'], self.group, wire.hexs(self.padded()), self.n)
        return 'checked %s x%s %d' % (self.msg['name'], wire.hexs(self.padded()), self.n)


# per-image request budgets: images of the strengthened generator reach several KB; small images (the majority) still
# get EVERY truncation point and EVERY header value, large ones a deterministic selection centred on the header values
BUDGET = {'quick': {'points': 160, 'marks': 24, 'group_points': 64, 'groups': 3},
          'thorough': {'points': 400, 'marks': 80, 'group_points': 120, 'groups': 6}}


def pick_points(ln, interesting, budget, beyond):
    """truncation points for an image of `ln` bytes: all of 0..ln if they fit the budget, else the start, the end,
    the neighbourhood of every header value (`interesting` = [(off, size)]) and an even stride, cut to the budget"""
    tail = [ln + d for d in beyond]
    if ln + 1 + len(tail) <= budget:
        return list(range(ln + 1)) + tail
    must = set(range(0, min(ln, 33))) | set(range(max(0, ln - 6), ln + 1))
    near = set()
    for off, size in interesting:
        near.update(x for x in range(off - 1, off + size + 2) if 0 <= x <= ln)
    near -= must
    room = max(0, budget - len(must) - len(tail))
    near = sorted(near)
    if len(near) > room * 3 // 4:
        keep = room * 3 // 4
        near = [near[(i * len(near)) // keep] for i in range(keep)] if keep else []
    pts = must | set(near)
    room = budget - len(pts) - len(tail)
    if room > 0:
        rest = [x for x in range(ln + 1) if x not in pts]
        pts.update(rest[(i * len(rest)) // room] for i in range(room))
    return sorted(pts) + tail


def requests_for_image(c, m, bo, img, marks, tops, budget=None, rng=None):
    budget = budget or BUDGET['thorough']
    rng = rng or random.Random(len(img))
    reqs = []
    ln = len(img)
    trunc = {'mut_field': 'truncate', 'mut_value': '-', 'prim': '-', 'owner': '-'}
    spots = [(mk['off'], mk['size']) for mk in marks]
    for n in pick_points(ln, spots, budget['points'], (1, 3)):
        reqs.append(Req(c, m, 'message', None, img, n, dict(trunc, n_minus_len=n - ln), n >= ln, ln))
    chosen = marks
    if len(marks) > budget['marks']:
        # the message header value and the first few always, the rest sampled
        head = marks[:6]
        chosen = head + rng.sample(marks[6:], budget['marks'] - len(head))
    for mark in chosen:
        for label, val in mutation_values(mark):
            mut = {'mut_field': mark['field'], 'mut_value': label, 'prim': mark['prim'], 'owner': mark['owner'],
                   'where': mark['where'], 'value': val}
            reqs.append(Req(c, m, 'message', None, overwrite(bo, img, mark, val), ln, mut,
                            label == 'fit', ln))
        if mark['field'] == 'numInGroup':
            both = overwrite(bo, overwrite(bo, img, mark, 256 ** mark['size'] - 1), mark['pair'], 0)
            mut = {'mut_field': 'blockLength+numInGroup', 'mut_value': '0+max', 'prim': mark['prim'],
                   'owner': 'group', 'where': mark['where']}
            reqs.append(Req(c, m, 'message', None, both, ln, mut, False, ln))
    for (gname, start, end) in tops[:budget['groups']]:
        sub = img[start:]
        gl = end - start
        inside = [(mk['off'] - start, mk['size']) for mk in marks if start <= mk['off'] < end]
        for n in pick_points(gl, inside, budget['group_points'], (1,)):
            reqs.append(Req(c, m, 'group', gname, sub, n, dict(trunc, n_minus_len=n - gl), n >= gl, gl))
    return reqs


# ------------------------------------------------------------------ judging

def parse_model(mo):
    k = W.kvs(mo)
    if 'model' not in k or 'spec' not in k:
        return None
    mv, ms, mr, mst = k['model'].split(',')
    sv, ss = k['spec'].split(',')
    over = None
    if k.get('over', '-') != '-':
        kind, off, size, step = k['over'].split(':')
        over = {'kind': kind, 'off': int(off), 'size': int(size), 'step': int(step)}
    return {'model': '%s,%s' % (mv, ms), 'maxread': int(mr), 'steps': int(mst), 'spec': '%s,%s' % (sv, ss),
            'out': k.get('out') == '1', 'ze': int(k.get('ze', '0')), 'w': int(k.get('w', '1')), 'over': over,
            'maxptr': int(k.get('maxptr', '0'))}


def judge(r, mk, ik, variant, feats):
    """-> (failures [(case, detail)], mismatches [detail])"""
    fails, mism = [], []
    res = ik.get('res', '?')
    steps = int(ik.get('steps', '0'))
    n = r.n
    bound = mk['w'] * (n + 2)
    base = dict(r.mut, view=r.view, build=variant)
    base.update(feats)
    obs = {'impl': res, 'impl_steps': steps, 'spec': mk['spec'], 'model': mk['model'], 'model_steps': mk['steps'],
           'model_maxread': mk['maxread'], 'n': n, 'image_len': r.image_len, 'work_bound': bound}
    model_agrees_res = (not mk['out']) and (
        (mk['over'] is not None and res == 'FAULT') or (mk['over'] is None and res == mk['model']))
    if ik.get('unchanged') != '1':
        fails.append((dict(base, what='writes-buffer'), obs))
    if res == 'FAULT':
        o = mk['over'] or {}
        case = dict(base, what='overread', member=o.get('kind', 'unknown'))
        if o:
            case.update(n_vs_need='%d<%d' % (n, o['off'] + o['size']), bytes_inside=max(0, n - o['off']),
                        access_size=o['size'])
        if variant == 'chk':
            case['what'] = 'checked-build-overread'
        fails.append((case, obs))
    elif res == 'UB':
        # UBSan traps only when the address computation wraps; the model records the largest pointer formed
        fails.append((dict(base, what='undefined-behaviour',
                           cause='cursor-advanced-beyond-buffer-before-validation' if mk['maxptr'] > n else
                           ('model-out-of-fuel' if mk['out'] else 'unknown'),
                           model_maxptr_bits=mk['maxptr'].bit_length()), obs))
    elif res == 'TIMEOUT':
        fails.append((dict(base, what='unbounded-loop', observed='timeout', zero_length_entries=mk['ze'] > 0,
                           steps_at_least=steps), obs))
    elif res == 'ASSERT':
        if variant != 'chk':
            mism.append(dict(obs, why='ASSERT in a build without assertions'))
        elif r.honest and mk['spec'].startswith('1,'):
            fails.append((dict(base, what='checked-build-assert-on-wellformed'), obs))
    else:
        if res != mk['spec']:
            fails.append((dict(base, what='wrong-verdict', impl=res, spec=mk['spec'],
                               model_agrees=model_agrees_res), obs))
        if steps > bound:
            fails.append((dict(base, what='unbounded-loop', observed='steps>bound', zero_length_entries=mk['ze'] > 0,
                               steps=steps, bound=bound), obs))
    # checked build: SBEPP_SIZE_CHECK (since /repo 7262f97 also with begin > end) turns every access the release
    # model logs beyond n into the assertion handler - or an earlier check fires / the watchdog or UBSan ends the call
    if variant == 'chk' and mk['over'] is not None and res not in ('ASSERT', 'UB', 'TIMEOUT', 'FAULT'):
        mism.append(dict(obs, why='the release model reads beyond n at step %d but the checked build returned a verdict '
                         'without firing SBEPP_SIZE_CHECK' % mk['over']['step'], over=mk['over']))
    # implementation vs model (release build only: the model is of that build)
    if variant == 'rel':
        if mk['over'] is not None:
            # the first read beyond n happens before anything else can go wrong
            if res != 'FAULT' or steps != mk['over']['step']:
                mism.append(dict(obs, why='model predicts a read beyond n at step %d' % mk['over']['step'],
                                 over=mk['over']))
        elif res == 'UB':
            if mk['maxptr'] < 2 ** 46:
                mism.append(dict(obs, why='UB trap but the model forms no pointer that could wrap the address space',
                                 model_maxptr=mk['maxptr']))
        elif mk['out']:
            if res != 'TIMEOUT' and steps <= MODEL_STEP_LIMIT and res != 'UB':
                mism.append(dict(obs, why='model hit its step limit but the implementation finished earlier'))
        elif res == 'TIMEOUT':
            mism.append(dict(obs, why='implementation abandoned (watchdog) but the model finished'))
        elif res == 'ASSERT':
            pass
        elif res != mk['model'] or steps != mk['steps']:
            mism.append(dict(obs, why='result or callback count differs from the model'))
    return fails, mism


# ------------------------------------------------------------------ run

def variants_for(tier):
    if tier == 'thorough':
        # clang++-14 with libstdc++ 12 cannot link -finstrument-functions builds in C++17 and later
        # (non-inlined constexpr members of std::string/std::allocator are not emitted): clang is used with C++11/14
        return [('g++', 'c++17', 'rel'), ('g++', 'c++17', 'chk'), ('clang++-14', 'c++11', 'rel'),
                ('clang++-14', 'c++14', 'chk'), ('g++', 'c++20', 'rel')]
    return [('g++', 'c++17', 'rel'), ('g++', 'c++17', 'chk'), ('clang++-14', 'c++11', 'rel')]


def correspond(chk, run, variants, values_per_msg):
    stats = run.stats
    corpus_expect = {}
    corpus_seen = {}
    stats.update({'requests': 0, 'truncations': 0, 'overwrites': 0, 'group_view_requests': 0, 'c06_driver_builds': 0,
                  'impl_outcomes': {}, 'model_out_of_fuel': 0, 'model_overreads': 0, 'model_zero_entry_runs': 0})
    # drivers
    jobs = [(c, cxx, std, v) for c in run.cases for (cxx, std, v) in variants]
    drivers = {}

    def build(job):
        c, cxx, std, v = job
        return job, c06gen.build(c, cxx, std, v)
    with cf.ThreadPoolExecutor(core.NPROC) as ex:
        for (c, cxx, std, v), (exe, log) in ex.map(build, jobs):
            stats['c06_driver_builds'] += 1
            if exe is None and c06gen.compiler_crashed(log):
                stats['compiler_crashes'] = stats.get('compiler_crashes', 0) + 1
            elif exe is None:
                chk.report_failure({
                    'kind': 'generated code does not compile', 'config': {'cxx': cxx, 'std': std, 'variant': v},
                    'schema_xml': open(c.xml).read(), 'compiler_output': log[-3000:],
                    'case': {'what': 'driver-compile', 'cxx': cxx, 'std': std, 'first_error': W.first_error(log)}})
            else:
                drivers[(c.idx, cxx, std, v)] = exe
    chk.log('drivers built: %d' % len(drivers))
    # requests
    reqs = []
    feats_of = {}
    for c in run.cases:
        if c.idx == 9000:
            by_name = {m['name']: m for m in c.layout['messages']}
            for (mn, buf, n, mut, expect) in CORPUS_REQUESTS:
                feats_of[(c.idx, mn)] = {}
                r = Req(c, by_name[mn], 'message', None, list(buf), n, dict(mut), False, len(buf))
                reqs.append(r)
                corpus_expect[id(r)] = expect
            continue
        bo = 'little' if c.layout['byteOrder'] == 'little' else 'big'
        for m in c.layout['messages']:
            if not wire.fits(m) or not wire.std_data_headers(m):
                stats['messages_skipped_unfit'] += 1
                continue
            stats['messages'] += 1
            feats_of[(c.idx, m['name'])] = {}
            for k in range(values_per_msg):
                rng = random.Random(zlib.crc32(repr((chk.seed, c.idx, m['name'], k, run.salt)).encode()))
                v = wire.gen_message_value(rng, c.layout['byteOrder'], m, c.s['id'], c.s['version'], ext_ok=True)
                img, marks, tops = flatten_message(bo, m, v)
                reqs += requests_for_image(c, m, bo, img, marks, tops, BUDGET[chk.tier], rng)
    chk.log('requests: %d' % len(reqs))
    # model + spec
    mlines = [r.model_line() for r in reqs]
    chunk = max(1, (len(mlines) + core.NPROC - 1) // core.NPROC)
    with cf.ThreadPoolExecutor(core.NPROC) as ex:
        parts = list(ex.map(run.model_lines, [mlines[i:i + chunk] for i in range(0, len(mlines), chunk)]))
    mouts = [o for part in parts for o in part]
    chk.log('model answered')
    good = []
    for r, mo in zip(reqs, mouts):
        mk = parse_model(mo)
        if mk is None:
            chk.report_unproved('model-checked', {'answer': mo[:300], 'request': r.model_line()[-300:],
                                                  'schema_xml': open(r.case.xml).read()})
            continue
        r.mk = mk
        good.append(r)
        stats['model_out_of_fuel'] += mk['out']
        stats['model_overreads'] += mk['over'] is not None
        stats['model_zero_entry_runs'] += mk['ze'] > 0
        if r.honest and r.mut['mut_field'] == 'truncate' and r.view == 'message' and mk['spec'] != '1,%d' % r.image_len:
            chk.report_unproved('spec-adequacy: the specification does not return the length of a well-formed image',
                                {'spec': mk['spec'], 'image_len': r.image_len, 'request': r.model_line()[-400:]})
    # implementation
    per = {}
    for r in good:
        for (cxx, std, v) in variants:
            exe = drivers.get((r.case.idx, cxx, std, v))
            if exe:
                per.setdefault((exe, cxx, std, v), []).append(r)

    def run_one(item):
        (exe, cxx, std, v), rs = item
        rc, outs = run.run_driver(exe, [r.driver_line() for r in rs])
        return item, rc, outs
    nontrivial = set()
    with cf.ThreadPoolExecutor(core.NPROC) as ex:
        results = list(ex.map(run_one, per.items()))
    chk.log('implementation answered')
    # requests on which the model ran out of its step budget although the implementation came to an end (for instance
    # a pointer that wraps only after more than a million callbacks): what happened cannot be attributed without the
    # model's answer, so those few are asked again with a 50 times larger budget
    again = []
    for ((exe, cxx, std, v), rs), rc, outs in results:
        if rc == 0 and len(outs) == len(rs):
            for r, io in zip(rs, outs):
                if r.mk['out'] and W.kvs(io).get('res') not in ('TIMEOUT', None) and r not in again:
                    again.append(r)
    again = again[:24]
    if again:
        with cf.ThreadPoolExecutor(core.NPROC) as ex:
            redo = list(ex.map(lambda r: run.model_lines([r.model_line(lim=50 * MODEL_STEP_LIMIT)])[0], again))
        for r, mo in zip(again, redo):
            mk2 = parse_model(mo)
            if mk2 is not None:
                r.mk = mk2
    stats['model_requests_repeated_with_larger_budget'] = len(again)
    for ((exe, cxx, std, v), rs), rc, outs in results:
        if rc != 0 or len(outs) != len(rs):
            chk.report_unproved('driver-run', {'rc': rc, 'answers': len(outs), 'requests': len(rs), 'exe': exe,
                                               'last': outs[-1:] if outs else None})
            continue
        for r, io in zip(rs, outs):
            ik = W.kvs(io)
            stats['requests'] += 1
            chk.cov['evaluations'] += 1
            key = ik.get('res', '?') if not ik.get('res', '?')[0].isdigit() else ('valid' if ik['res'][0] == '1' else 'invalid')
            stats['impl_outcomes'][v + ':' + key] = stats['impl_outcomes'].get(v + ':' + key, 0) + 1
            if r.view == 'group':
                stats['group_view_requests'] += 1
            elif r.mut['mut_field'] == 'truncate':
                stats['truncations'] += 1
            else:
                stats['overwrites'] += 1
            nontrivial.add((r.case.idx, r.msg['name'], r.view, r.group, r.n, tuple(r.padded())))
            fails, mism = judge(r, r.mk, ik, v, feats_of[(r.case.idx, r.msg['name'])])
            if id(r) in corpus_expect and v == 'rel':
                corpus_seen.setdefault(r.mut['corpus'], []).append(
                    (corpus_expect[id(r)], sorted({f[0]['what'] for f in fails}), io, r.mk['model'], r.mk['spec']))
            for case, obs in fails:
                case = dict(case, cxx=cxx, std=std)
                chk.report_failure({
                    'kind': 'impl≠spec', 'config': {'cxx': cxx, 'std': std, 'variant': v,
                                                   'defines': c06gen.VARIANTS[v]},
                    'schema_xml': open(r.case.xml).read(), 'message': r.msg['name'],
                    'driver_line': r.driver_line(), 'model_line': r.model_line(), 'observed': obs, 'case': case})
            for d in mism:
                chk.report_unproved('impl≠model (Rt.Checked does not predict the implementation)', {
                    'config': {'cxx': cxx, 'std': std, 'variant': v}, 'schema_xml': open(r.case.xml).read(),
                    'message': r.msg['name'], 'driver_line': r.driver_line(), 'model_line': r.model_line(),
                    'detail': d, 'mutation': r.mut})
            if len(chk.cov['samples']) < 4 and r.mut['mut_field'] != 'truncate':
                chk.sample({'message': r.msg['name'], 'driver_line': r.driver_line()[:200], 'mutation': r.mut,
                            'impl': io, 'model': r.mk['model'], 'spec': r.mk['spec']})
    chk.cov['distinct_nontrivial'] += len(nontrivial)
    # the refutation witnesses of Properties/C06.lean must still fail on the real code in the way the theorems say;
    # the regression witnesses of repaired defects ('none') must give the specified answer in implementation and model
    # (a wrong implementation answer is already reported above as impl≠spec with the request as failing input)
    stats['lean_witnesses_replayed'] = {k: [dict(expected=e, observed=o, impl=i, model=m, spec=sp) for (e, o, i, m, sp) in v]
                                        for k, v in corpus_seen.items()}
    for name, obs in corpus_seen.items():
        for (expect, whats, io, model, spec) in obs:
            if expect == 'none':
                if spec != CORPUS_SPEC.get(name) or model != spec:
                    chk.report_unproved('a regression witness of a repaired defect: the model or the specification does '
                                        'not give the recorded answer', {'witness': name, 'recorded_spec': CORPUS_SPEC.get(name),
                                                                         'impl': io, 'model': model, 'spec': spec})
                continue
            if expect not in whats:
                chk.report_unproved('a refutation witness of Properties/C06.lean no longer fails on the implementation '
                                    '(the model or the *_full_false theorem is out of date)',
                                    {'witness': name, 'expected': expect, 'observed': whats, 'impl': io, 'model': model,
                                     'spec': spec})


def run(chk):
    chk.extract()
    proved = chk.prove(MODULE, THEOREMS)
    if chk.tier == 'thorough' and proved:
        chk.leanchecker(MODULE)
    thorough = chk.tier == 'thorough'
    variants = variants_for(chk.tier)
    run = W.WireRun(chk, 60 if thorough else 20, sorted({(c, s) for (c, s, _) in variants}),
                    values_per_msg=3 if thorough else 2, ext=True, seed_salt=6)
    try:
        chk.log('proofs audited: %d/%d' % (len(chk.discharged), len(chk.obligations)))
        if run.prepare():
            chk.log('model driver and sbeppc ready')
            run.gen_cases()
            chk.log('schemas compiled: %d' % len(run.cases))
            cc = corpus_case(chk, run)
            if cc is not None:
                run.cases.append(cc)
            correspond(chk, run, variants, run.values_per_msg)
    finally:
        run.cleanup()
    W.finish_cov(chk, run, 'one evaluation = one call of the real sbepp::size_bytes_checked (message or group view of '
                 'real sbeppc output for a generated schema) on a guard-page buffer of exactly n bytes under one build '
                 'configuration, compared with the specification (verdict, size, no fault, callbacks <= wmax*(n+2)) and '
                 'with the model (verdict, size, fault, exact callback count; checked build: ASSERT whenever the release '
                 'model reads beyond n); inputs: every truncation point of a well-formed image, sizes beyond it, every '
                 'blockLength/numInGroup/length overwritten with 0/max/fit-1/fit/fit+1, blockLength=0 with '
                 'numInGroup=max - all of them for images within the per-image budget (%s), for larger images the '
                 'start, the end, the neighbourhood of every header value and an even stride, and a seeded sample of '
                 'the header values; distinct = distinct (schema, message, view, n, bytes)' % BUDGET[chk.tier])
    chk.cov['configurations'] = ['%s -std=%s %s' % (c, s, ' '.join(c06gen.VARIANTS[v])) for (c, s, v) in variants]
    # a member function of the visitor the translator could not render: its tie theorem has nothing to check
    mc_failed = ((chk.extract_report or {}).get('parts', {}).get('methods_checked') or {}).get('failed')
    if mc_failed and not chk.violations:
        chk.report_unproved('extraction', {'extractor': 'methods_checked', 'failed': mc_failed,
                                           'failed_obligations': chk.failed_obligations})
    if chk.failed_obligations and not chk.violations:
        chk.report_unproved('theorem', chk.failed_obligations)
    chk.assumptions += [
        'every member function of size_bytes_checked_visitor and size_bytes_checked itself are re-translated from sbepp.hpp '
        'on every run (extract/methods_checked.py) and proved equal to the hand-written member functions (*_tie); '
        'validate_and_subtract additionally as a CExpr kernel with C++ integer semantics (vas_eq_extracted); the generated '
        'visit_children, the cursor accessors and the cursor_range loop of Rt.Checked remain a hand transliteration tied by '
        'this differential check (result, fault and exact callback count per request)',
        'the model is of builds without SBEPP_SIZE_CHECK; checked builds are observed: never FAULT, a verdict equal to the '
        'specification or ASSERT, and ASSERT (or UB/TIMEOUT) whenever the release model logs a read beyond n',
        'images above the per-image budget get a selection of truncation points and header values, not all of them',
        'pointers are unbounded offsets in the model: forming an out-of-range pointer (cursor advanced by an '
        'unvalidated length) is not flagged unless UBSan traps in the implementation',
        'messages whose data header composite is not (length, varData) at offset 0, or whose block length does not '
        'fit its header member, are skipped here (counted in run_stats)',
    ]


def replay(chk, rep):
    """re-run one recorded case against the current tree: sbeppc -> driver -> model"""
    import json
    import os
    import shutil
    from .. import sbeppc, schema as S  # noqa: F401
    if 'driver_line' not in rep or 'schema_xml' not in rep:
        print(json.dumps(rep, indent=1)[:3000])
        return 1
    work = os.path.join(core.BUILD, 'scratch', 'C06-replay-%d' % os.getpid())
    shutil.rmtree(work, ignore_errors=True)
    os.makedirs(os.path.join(work, 'case0'))
    try:
        xml = os.path.join(work, 'case0', 'schema.xml')
        open(xml, 'w').write(rep['schema_xml'])
        exe, log = sbeppc.build(chk)
        rc, out = sbeppc.run(exe, xml, os.path.join(work, 'case0', 'gen'))
        print('sbeppc rc=%s %s' % (rc, out[:300]))
        model = chk.model_exe()
        mline = rep.get('model_line')
        mo = ''
        if model and mline:
            _, o = core.sh([model], input=mline + '\n', timeout=300)
            mo = o.strip()
            sexp = mline.split('(req ', 1)[1].split(' (msg ', 1)[0]
            _, lay = core.sh([model], input='layout ' + sexp + '\n', timeout=300)
            layout = json.loads(lay)
        else:
            print('no model line in the replay')
            return 1

        class C:
            pass
        c = C()
        c.dir = os.path.join(work, 'case0')
        c.layout = layout
        c.s = {'package': rep.get('package', 'vs')}
        cfg = rep.get('config', {})
        dexe, dlog = c06gen.build(c, cfg.get('cxx', 'g++'), cfg.get('std', 'c++17'), cfg.get('variant', 'rel'))
        if dexe is None:
            print('driver does not build:\n' + dlog[-2000:])
            return 1
        _, io = core.sh([dexe], input=rep['driver_line'] + '\n', timeout=300)
        mk = parse_model(mo) or {}
        print('request : ' + rep['driver_line'][:400])
        print('impl    : ' + io.strip())
        print('model   : %s (steps %s, maxread %s, over %s)' % (mk.get('model'), mk.get('steps'), mk.get('maxread'), mk.get('over')))
        print('spec    : %s' % mk.get('spec'))
        ik = W.kvs(io)
        return 0 if ik.get('res') == mk.get('spec') else 1
    finally:
        shutil.rmtree(work, ignore_errors=True)
