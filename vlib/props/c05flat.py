"""C05, flat-group part: `size_bytes` of a flat group is exact for every one of the 16
(numInGroup type, blockLength type) pairs.  The machinery lives in c12.py (same harness
`harness/c12_grp.cpp`, same model driver); the C05 check calls:

    mod, theorems = c05flat.flat_size_obligations()     # Lean module + obligations
    n = c05flat.flat_size_correspond(chk)               # boundary grid, real code vs spec vs kernel

`flat_size_correspond` reports impl≠spec through `chk.report_failure` (replay `case` has
op='sizes', nt, bt, wn, wb, n, bl, hdr, impl, spec) and a broken model correspondence through
`chk.report_unproved`; it returns the number of evaluations and fills `chk.cov['flat_size_*']`.
"""
from .c12 import (FLAT_MODULE, FLAT_THEOREMS, flat_size_obligations, flat_size_correspond,  # noqa: F401
                  extract_group, gen_sizes)


def run(chk):
    """stand-alone run of the flat part under the property id C05 (the full C05 check has more)"""
    from . import c12
    c12.run(chk)


def replay(chk, rep):
    from . import c12
    return c12.replay(chk, rep)
