"""C07 - accepted schemas yield compilable, name-preserving headers.

Proved (Lean): see THEOREMS.  Observed (this file): for every generated schema
the real sbeppc accepts, every generated header is compiled ALONE and a
translation unit that names every entity under its schema name and instantiates
every accessor, trait and visitor entry point is compiled, under 2 (quick) / 10
(thorough) compiler configurations, `-fsyntax-only`.

Three answers per (schema, configuration):
  spec  : "compiles" (the property)
  impl  : exit status of the compiler on the real sbeppc output
  model : `wellformed` request to the Lean driver: the problems the model of the
          generator (literal sites, scopes, parameter names, includes) predicts,
          each with the configurations that reject it.
Streams: name-clash, path-clash, adversarial-names (the model - which follows
the decision sites extracted from names_generator.hpp on this run - says which
class names the generator chooses for three base schemas that take every naming
decision both ways; later / earlier groups, messages, types, enums, sets,
composites and composite elements are then named literally like those names,
their `_entry` forms and the next `_N` counters), one-identifier, literal-boundary,
literal-probe.

impl != spec  -> report_failure (suppressed only by a known finding whose class
                 the model predicted AND the compiler's first error confirms);
model says ill-formed, impl compiles -> report_unproved (model != impl = spec);
sbeppc accepts, model's acceptance conditions fail -> report_unproved.
"""
import concurrent.futures as cf
import hashlib
import json
import os
import random
import re
import shutil

from .. import core, sbeppc, c07gen as G

MODULE = 'Sbepp.Properties.C07'
THEOREMS = [
    'Sbepp.Properties.C07.rendering_flags',
    'Sbepp.Properties.C07.literal_sites_fit_full_false',
    'Sbepp.Properties.C07.literal_sites_fit_partial',
    'Sbepp.Properties.C07.header_fillers_fit',
    'Sbepp.Properties.C07.filler_range_is_representable',
    'Sbepp.Properties.C07.literal_sites_fit_checked',
    'Sbepp.Properties.C07.literal_sites_fit_gap',
    'Sbepp.Properties.C07.float_header_free',
    'Sbepp.Properties.C07.duplicate_case_free',
    'Sbepp.Properties.C07.enum_rule_is_validators',
    'Sbepp.Properties.C07.fixed_header_classes',
    'Sbepp.Properties.C07.defaults_fit',
    'Sbepp.Properties.C07.integer_literal_value',
    'Sbepp.Properties.C07.strip_leading_zeros_value',
    'Sbepp.Properties.C07.float_literal_fits',
    'Sbepp.Properties.C07.escape_literal_denotes',
    'Sbepp.Properties.C07.fixed_literal_classes',
    'Sbepp.Properties.C07.scope_conflict_free_full_false',
    'Sbepp.Properties.C07.scope_conflict_free_partial',
    'Sbepp.Properties.C07.fixed_scope_classes',
    'Sbepp.Properties.C07.names_generator_shape',
    'Sbepp.Properties.C07.mangled_fresh',
    'Sbepp.Properties.C07.detail_types_distinct',
    'Sbepp.Properties.C07.detail_messages_distinct',
    'Sbepp.Properties.C07.no_duplicate_declarations',
    'Sbepp.Properties.C07.class_name_not_member',
    'Sbepp.Properties.C07.keywords_rejected',
    'Sbepp.Properties.C07.public_paths_resolve',
    'Sbepp.Properties.C07.param_naming_shape',
    'Sbepp.Properties.C07.unique_param_terminates',
    'Sbepp.Properties.C07.size_bytes_params_distinct',
    'Sbepp.Properties.C07.size_bytes_call_args',
    'Sbepp.Properties.C07.includes_closed',
    'Sbepp.Properties.C07.includes_closed_partial',
]

CONFIGS_QUICK = [('g++', 'c++17'), ('clang++-14', 'c++11')]
CONFIGS_ALL = [(c, s) for c in ('g++', 'clang++-14') for s in ('c++11', 'c++14', 'c++17', 'c++20', 'c++2b')]

# ------------------------------------------------------------------ compiler messages

ERROR_CLASSES = [
    ('shadows-template-parameter', r'shadows template param|using template type parameter .* after'),
    ('narrowing', r'narrowing conversion|cannot be narrowed'),
    ('octal-digit', r'invalid digit .* in octal constant'),
    ('integer-too-large', r'integer (literal|constant) is too large'),
    ('duplicate-case', r'duplicate case value'),
    ('duplicate-parameter', r'redefinition of (parameter )?.*(num_in_group|total_data_size)|redeclaration of .*(num_in_group|total_data_size)'),
    ('broken-literal', r'missing terminating|unterminated|empty character constant|string literal operator|'
                       r'invalid suffix on literal|user-defined literal|expected expression|expected .;. after return|'
                       r'expected .;. before|expected primary-expression|stray .\\. in program|was not declared in this scope; did you mean|'
                       r'multi-character|unknown escape|expected unqualified-id'),
    ('parameter-pack', r'parameter pack'),
    ('own-initializer', r'before deduction of .auto.|cannot appear in its own initializer'),
    ('not-callable', r'cannot be used as a function|is not a function or function pointer'),
    ('std-hidden', r'not a member of .*\bstd\b|in .*::std.|.std. is not a class, namespace|aka .*is not a class, namespace|'
                   r'no (template|member|type) named .* in .*std|using std = .* used without template arguments|'
                   r'::std. used without template arguments|std. is not a class|::std<|'
                   r'keyword to treat .forward. as a dependent template name|missing template arguments after .std<'),
    ('constructor-name', r'is a constructor name|cannot refer to type member|invalid use of (?!incomplete)|'
                         r'names the constructor|cannot convert .* in return|no viable conversion from returned value'),
    ('function-hides-type', r'redefinition of .* as different kind of symbol|conflicting declaration of template|'
                            r'must use .class. tag to refer to type|'
                            r'redeclared as different kind of entity|'
                            r'does not name a type|no type named|must be a type|type/value mismatch'),
    ('redefinition', r'redefinition of|redeclaration of|redeclared|conflicting declaration'),
    ('no-matching-function', r'no matching function for call'),
    ('undeclared', r'is not a member of|no member named|was not declared|undeclared identifier|has not been declared'),
    ('invalid-operands', r'invalid operands|__make_signed_selector|make_signed'),
    ('macro', r'anonymous struct must be a definition|expected identifier before|function-like macro|expected member name|'
              r'expected unqualified-id before numeric constant|expected identifier'),
]

# which compiler error classes confirm which predicted problem classes
EXPLAINS = {
    'shadows-template-parameter': {'shadows-template-parameter'},
    'captured-by-template-scope': {'parameter-pack', 'own-initializer', 'not-callable'},
    'class-hides-inherited-member': {'constructor-name', 'no-matching-function', 'undeclared'},
    'type-hidden-by-template-parameter': {'no-matching-function'},
    'type-hidden-by-function': {'function-hides-type', 'undeclared', 'no-matching-function', 'broken-literal'},
    'hides-namespace-std': {'std-hidden', 'parameter-pack', 'undeclared', 'broken-literal', 'function-hides-type'},
    'macro-name': {'macro', 'broken-literal', 'undeclared', 'function-hides-type', 'constructor-name', 'other'},
    'duplicate-parameter-name': {'duplicate-parameter'},
    'missing-include': {'undeclared', 'std-hidden'},
    'duplicate-case': {'duplicate-case'},
    'duplicate-declaration': {'redefinition'},
    'floating-point-header-member': {'invalid-operands'},
}


def explains(model_class, error_class):
    if model_class.startswith('literal-'):
        return error_class in ('narrowing', 'octal-digit', 'integer-too-large', 'broken-literal', 'macro', 'undeclared',
                               'duplicate-case')
    return error_class in EXPLAINS.get(model_class, ())


def first_error(log):
    for l in log.splitlines():
        if re.search(r'\berror\b', l):
            return re.sub(r'^[^ ]*:\d+:\d+: ', '', l)[:4000]
    return log.strip()[:300]


def error_class(msg):
    for name, rx in ERROR_CLASSES:
        if re.search(rx, msg):
            return name
    return 'other'


def error_file(log):
    for l in log.splitlines():
        if re.search(r'\berror\b', l):
            m = re.match(r'^([^: ]+):(\d+):', l)
            if m:
                return os.path.basename(m.group(1)), int(m.group(2))
    return None, None


# ------------------------------------------------------------------ model answers

def parse_model(ans):
    m = re.match(r'accepted=(\w+)(?: names=(\S*))? problems=(.*)$', ans)
    if not m:
        return None, None
    probs = []
    for x in m.group(3).split(';'):
        if x:
            f = x.split('|')
            if len(f) == 4:
                probs.append({'cls': f[0], 'entity': f[1], 'name': f[2], 'on': f[3]})
    return m.group(1) == 'true', probs


def applies(p, cxx, std):
    on = p['on']
    return on == 'all' or (on == 'gcc' and cxx == 'g++') or (on == 'clang' and cxx.startswith('clang')) or \
        (on == 'pre17' and std in ('c++11', 'c++14'))


def expectation(probs, cxx, std):
    """'fail' | 'any' | 'ok'"""
    if any(applies(p, cxx, std) for p in probs):
        return 'fail'
    if any(p['on'] == 'maybe' for p in probs):
        return 'any'
    return 'ok'


# ------------------------------------------------------------------ one schema

def closure_hash(gen, rel, memo):
    """hash of a generated header and of every generated header it includes (transitively); two header-alone jobs
    with the same hash hand the same token sequence to the compiler (the runtime header is fixed during a run)"""
    if rel in memo:
        return memo[rel] or b'cycle'
    memo[rel] = None
    path = os.path.join(gen, rel)
    with open(path, encoding='utf-8', errors='replace') as f:
        text = f.read()
    h = hashlib.sha256()
    h.update(rel.encode())
    h.update(b'\0')
    h.update(text.encode('utf-8', errors='replace'))
    for inc in re.findall(r'^[ \t]*#[ \t]*include[ \t]*["<]([^">]+)[">]', text, re.M):
        for cand in (os.path.normpath(os.path.join(os.path.dirname(path), inc)), os.path.normpath(os.path.join(gen, inc))):
            if cand.startswith(gen + os.sep) and os.path.isfile(cand):
                h.update(closure_hash(gen, os.path.relpath(cand, gen), memo))
                break
    memo[rel] = h.digest()
    return memo[rel]


class Case:
    def __init__(self, idx, stream, sch, workdir, headers=True):
        self.idx = idx
        self.stream = stream
        self.s = sch
        self.dir = os.path.join(workdir, 'c%d' % idx)
        self.headers = headers
        self.rc = None
        self.out = ''
        self.accepted_model = None
        self.problems = None
        self.jobs = []          # (what, source path)
        self.job_key = {}       # what -> hash of everything the job compiles (header-alone jobs)
        self.results = {}       # (what, cxx, std) -> (rc, log)

    def prepare(self, exe):
        shutil.rmtree(self.dir, ignore_errors=True)
        os.makedirs(self.dir)
        self.xml = os.path.join(self.dir, 'schema.xml')
        with open(self.xml, 'w', encoding='utf-8') as f:
            f.write(G.to_xml(self.s))
        self.gen = os.path.join(self.dir, 'gen')
        self.rc, self.out = sbeppc.run(exe, self.xml, self.gen, extra_args=G.sbeppc_args(self.s))
        if self.rc != 0:
            return
        ns = G.schema_name(self.s)
        if self.headers:
            memo = {}
            for h in G.generated_headers(self.gen, ns):
                p = os.path.join(self.dir, 'alone_%s.cpp' % h.replace('/', '_'))
                with open(p, 'w') as f:
                    f.write(G.header_alone_tu(h))
                self.jobs.append(('header-alone:' + h, p))
                try:
                    self.job_key['header-alone:' + h] = closure_hash(self.gen, h, memo).hex()
                except OSError:
                    pass
        src, self.entities = G.touch_tu(self.s)
        p = os.path.join(self.dir, 'touch_tu.cpp')
        with open(p, 'w', encoding='utf-8') as f:
            f.write(src)
        self.jobs.append(('touch-tu', p))


def compile_job(args):
    case, what, src, cxx, std = args
    cmd = [cxx, '-std=' + std, '-fsyntax-only', '-I' + case.gen, '-I' + os.path.join(core.REPO, 'sbepp/src'), src]
    rc, log = core.sh(cmd, timeout=600)
    return case, what, cxx, std, rc, log


def entity_pattern(case, probs, cxx, std, eclass, msg):
    """(model class, pattern) of the predicted problem the compiler error confirms, or ('', quoted name of the message)"""
    cands = [p for p in probs if (applies(p, cxx, std) or p['on'] == 'maybe') and explains(p['cls'], eclass)]
    if cands:
        p = cands[0]
        if p['cls'].startswith('literal-'):
            return p['cls'], p['cls'][len('literal-'):]
        return p['cls'], p['name']
    m = re.search(r"[‘'\"]([A-Za-z_]\w*)[’'\"]", msg)
    return '', (m.group(1) if m else '')


# ------------------------------------------------------------------ the check

class Run:
    def __init__(self, chk, configs):
        self.chk = chk
        self.configs = configs
        self.workdir = os.path.join(core.BUILD, 'scratch', 'C07-%d' % os.getpid())
        self.stats = {'schemas': 0, 'rejected_by_sbeppc': 0, 'sbeppc_crashes': 0, 'accepted': 0, 'compiles': 0,
                      'compile_failures': 0, 'schemas_failing': 0, 'schemas_failing_as_predicted': 0,
                      'schemas_predicted_ok': 0, 'schemas_predicted_ill_formed': 0, 'headers_alone': 0,
                      'touch_tus': 0, 'entities_touched': 0, 'compiles_reused': 0, 'by_stream': {}}
        self.compiled = {}
        self.feat = {}
        self.error_classes = {}
        self.failure_cases = {}
        self.unexplained = []
        self.model = None
        self.exe = None

    def prepare(self):
        chk = self.chk
        self.model = chk.model_exe()
        if self.model is None:
            chk.report_unproved('model-driver-build', 'sbepp_model does not build')
            return False
        self.exe, log = sbeppc.build(chk)
        if self.exe is None:
            chk.report_unproved('sbeppc-build', log[-2000:])
            return False
        shutil.rmtree(self.workdir, ignore_errors=True)
        os.makedirs(self.workdir)
        return True

    def cleanup(self):
        shutil.rmtree(self.workdir, ignore_errors=True)

    def model_lines(self, lines):
        if not lines:
            return []
        rc, out = core.sh([self.model], input='\n'.join(lines) + '\n', timeout=1800)
        outs = out.splitlines()
        if rc != 0 or len(outs) != len(lines):
            raise RuntimeError('model driver: rc=%s, %d answers for %d requests' % (rc, len(outs), len(lines)))
        return outs

    def process(self, cases):
        chk = self.chk
        with cf.ThreadPoolExecutor(core.NPROC) as ex:
            list(ex.map(lambda c: c.prepare(self.exe), cases))
        answers = self.model_lines(['wellformed ' + G.to_sexp(c.s) for c in cases])
        jobs = []
        for c, a in zip(cases, answers):
            self.stats['schemas'] += 1
            st = self.stats['by_stream'].setdefault(c.stream, {'schemas': 0, 'accepted': 0, 'failing': 0})
            st['schemas'] += 1
            c.accepted_model, c.problems = parse_model(a)
            if c.rc not in (0, 1):
                self.stats['sbeppc_crashes'] += 1     # C09 matter
                continue
            if c.rc != 0:
                self.stats['rejected_by_sbeppc'] += 1
                continue
            self.stats['accepted'] += 1
            st['accepted'] += 1
            if c.problems is None:
                chk.report_unproved('model-wellformed', {'answer': a[:300], 'schema_xml': open(c.xml).read()})
                continue
            if not c.accepted_model:
                # the generated code is still compiled and judged: a validator rule that got lost shows up as the
                # compile failure it was there to prevent
                chk.report_unproved('impl≠model: sbeppc accepts a schema that violates the acceptance conditions the '
                                    'theorems assume', {'schema_xml': open(c.xml).read(), 'model': a[:500]})
            for what, src in c.jobs:
                for cxx, std in self.configs:
                    jobs.append((c, what, src, cxx, std))
            self.stats['headers_alone'] += len(c.jobs) - 1
            self.stats['touch_tus'] += 1
            self.stats['entities_touched'] += c.entities
        # a header whose text and whose generated includes (transitively) are byte-identical to one already
        # compiled alone under the same configuration is not compiled again
        todo, followers = [], {}
        for j in jobs:
            c, what, src, cxx, std = j
            k = c.job_key.get(what)
            key = (k, cxx, std) if k else None
            if key is not None and key in self.compiled:
                c.results[(what, cxx, std)] = self.compiled[key]
                self.stats['compiles_reused'] += 1
            elif key is not None and key in followers:
                followers[key].append(j)
                self.stats['compiles_reused'] += 1
            else:
                if key is not None:
                    followers[key] = []
                todo.append((j, key))
        with cf.ThreadPoolExecutor(core.NPROC) as ex:
            for (c, what, cxx, std, rc, log), (_, key) in zip(ex.map(compile_job, [j for j, _ in todo]), todo):
                c.results[(what, cxx, std)] = (rc, log)
                self.stats['compiles'] += 1
                chk.cov['evaluations'] += 1
                if rc != 0:
                    self.stats['compile_failures'] += 1
                if key is not None:
                    self.compiled[key] = (rc, log)
                    for c2, what2, _, cxx2, std2 in followers.get(key, []):
                        c2.results[(what2, cxx2, std2)] = (rc, log)
        for c in cases:
            if c.rc == 0 and c.problems is not None:
                self.judge(c)

    def judge(self, c):
        chk = self.chk
        any_fail = False
        reported = set()
        predicted_any = bool([p for p in c.problems if p['on'] != 'none'])
        self.stats['schemas_predicted_ill_formed' if predicted_any else 'schemas_predicted_ok'] += 1
        for cxx, std in self.configs:
            exp = expectation(c.problems, cxx, std)
            fails = [(what, log) for (what, cx, sd), (rc, log) in sorted(c.results.items())
                     if cx == cxx and sd == std and rc != 0]
            if not fails:
                if exp == 'fail':
                    chk.report_unproved(
                        'model≠impl: the model predicts an ill-formed program but every header and the touch-everything '
                        'translation unit compile',
                        {'config': {'cxx': cxx, 'std': std}, 'schema_xml': open(c.xml, encoding='utf-8').read(),
                         'model': [p for p in c.problems if applies(p, cxx, std)][:5]})
                continue
            any_fail = True
            # first failing job: header-alone jobs first (sorted), the touch TU last
            what, log = fails[0]
            msg = first_error(log)
            ecls = error_class(msg)
            self.error_classes[ecls] = self.error_classes.get(ecls, 0) + 1
            mcls, pattern = entity_pattern(c, c.problems, cxx, std, ecls, msg)
            key = (ecls, mcls, pattern)
            if key in reported:
                continue
            reported.add(key)
            case = {'what': what.split(':')[0], 'error_class': ecls, 'entity_pattern': pattern,
                    'model_class': mcls, 'predicted': exp != 'ok', 'explained': mcls != '', 'stream': c.stream}
            rep = {'kind': 'impl≠spec: generated code does not compile', 'config': {'cxx': cxx, 'std': std},
                   'schema_xml': open(c.xml, encoding='utf-8').read(), 'schema': c.s, 'job': what,
                   'first_error': msg[:400], 'compiler_output': log[:3000],
                   'observed': {'impl': 'compile error', 'spec': 'compiles',
                                'model': [p for p in c.problems if p['on'] != 'none'][:8]},
                   'case': case}
            if not case['explained']:
                rep['schema'], rep['schema_xml'], rep['minimised'] = self.minimise(c, what, cxx, std, ecls)
            hk = '%s|%s|%s|%s' % (ecls, mcls or '-', 'explained' if case['explained'] else 'UNEXPLAINED',
                                  'predicted' if case['predicted'] else 'UNPREDICTED')
            self.failure_cases[hk] = self.failure_cases.get(hk, 0) + 1
            if not case['explained'] or not case['predicted']:
                self.unexplained.append({'stream': c.stream, 'config': '%s %s' % (cxx, std), 'job': what,
                                         'first_error': msg[:300], 'model': [p for p in c.problems if p['on'] != 'none'][:4]})
            chk.report_failure(rep)
            if len(chk.cov['samples']) < 6:
                chk.sample({'stream': c.stream, 'config': '%s %s' % (cxx, std), 'job': what, 'first_error': msg[:160],
                            'case': case})
        if any_fail:
            self.stats['schemas_failing'] += 1
            self.stats['by_stream'][c.stream]['failing'] += 1
            if predicted_any:
                self.stats['schemas_failing_as_predicted'] += 1

    def minimise(self, c, what, cxx, std, ecls, budget=60):
        """delete members / types / attributes while the same error class persists"""
        cur = c.s
        n = 0
        progress = True
        while progress and n < budget:
            progress = False
            for cand in G.shrink_candidates(cur):
                n += 1
                if n > budget:
                    break
                t = Case(10 ** 6 + n, 'shrink', cand, os.path.join(self.workdir, 'shrink%d' % c.idx), headers=what != 'touch-tu')
                t.prepare(self.exe)
                if t.rc != 0:
                    continue
                hit = False
                for w, src in t.jobs:
                    if (what == 'touch-tu') != (w == 'touch-tu'):
                        continue
                    _, _, _, _, rc, log = compile_job((t, w, src, cxx, std))
                    if rc != 0 and error_class(first_error(log)) == ecls:
                        hit = True
                        break
                shutil.rmtree(t.dir, ignore_errors=True)
                if hit:
                    cur = cand
                    progress = True
                    break
        return cur, G.to_xml(cur), n


def chosen_names(ans):
    m = re.match(r'accepted=\w+ names=(\S*) problems=', ans)
    return G.parse_chosen(m.group(1)) if m else []


def streams(chk, run):
    """[(stream name, [schema dict], headers alone?, configurations)]"""
    thorough = chk.tier == 'thorough'
    configs = CONFIGS_ALL if thorough else CONFIGS_QUICK
    out = []
    seed = chk.seed
    feat = {}

    def add(f):
        for k, v in f.items():
            feat[k] = feat.get(k, 0) + v
    # (a) name clashes
    n = 80 if thorough else 36
    lst = []
    for i in range(n):
        rng = random.Random((seed * 1000003 + i) * 31 + 7)
        s, f = G.clash_schema(rng, hazard_rate=0.03 if i % 3 else 0.0)
        add(f)
        if i % 4 == 1:
            add({'ref.case_variant_spelling': G.respell_references(s, rng)})
        lst.append(s)
    out.append(('name-clash', lst, True, configs))
    lst = []
    for i in range(12 if thorough else 6):
        rng = random.Random((seed * 1000003 + i) * 31 + 8)
        # the first two are the fixed probes of fix 0030: the three-way clash in a message and inside a group
        s, f = G.path_clash_schema(rng, force={0: (3, False), 1: (3, True)}.get(i))
        add(f)
        lst.append(s)
    out.append(('path-clash', lst, True, configs))
    # (a'') adversarial names: ask the model (which follows the decision sites extracted from names_generator.hpp)
    # which class names the generator chooses for the base schemas, then add entities named literally like them
    bases = G.adversarial_bases()
    answers = run.model_lines(['wellformed ' + G.to_sexp(b) for _, b in bases])
    with_chosen = [(label, b, chosen_names(a)) for (label, b), a in zip(bases, answers)]
    if any(not c for _, _, c in with_chosen):
        chk.report_unproved('model-wellformed', {'answer': [a[:300] for a in answers], 'stream': 'adversarial-names'})
    lst, f = G.adversarial_schemas(with_chosen, random.Random(seed * 11 + 5), 200 if thorough else 38, thorough)
    add(f)
    for _, k in lst:
        add({k: 1})
    out.append(('adversarial-names', [b for _, b in bases] + [x for x, _ in lst], True, CONFIGS_QUICK))
    # (a') one identifier of the pool at one position of a schema that has one entity of every kind
    pool = G.TEMPLATE_IDENTS + G.KEYWORD_CASE + G.EXTRA_IDENTS
    pairs = [(i, p) for i in pool for p in G.POSITIONS]
    hot = [(i, p) for (i, p) in pairs if i in G.HOT_IDENTS]
    rng = random.Random(seed * 7 + 3)
    if thorough:
        cold = [x for x in pairs if x[0] not in G.HOT_IDENTS]
        out.append(('one-identifier', [G.sweep_schema(i, p) for i, p in hot + rng.sample(cold, 700)], False, CONFIGS_QUICK))
        sub = rng.sample(hot, 320)
        out.append(('one-identifier-all-configs', [G.sweep_schema(i, p) for i, p in sub], False,
                    [c for c in CONFIGS_ALL if c not in CONFIGS_QUICK]))
        feat['sweep.pairs'] = len(hot) + 700
    else:
        sel = rng.sample(hot, 36) + rng.sample(pairs, 24)
        out.append(('one-identifier', [G.sweep_schema(i, p) for i, p in sel], False, configs))
        feat['sweep.pairs'] = len(sel)
    # (b) literal boundaries
    n = 80 if thorough else 40
    lst = []
    for i in range(n):
        rng = random.Random((seed * 1000003 + i) * 31 + 9)
        s, f = G.literal_schema(rng)
        add(f)
        if i % 3 == 2:
            add({'ref.case_variant_spelling': G.respell_references(s, rng)})
        lst.append(s)
    out.append(('literal-boundary', lst, True, configs))
    out.append(('literal-probe', G.literal_probes(), True, configs))
    return out, feat


def extract_templates(chk):
    """the C07 extractor (also run by extract/run_all.py): Extracted/Templates.lean from the tree under test"""
    import sys
    sys.path.insert(0, core.VERIF)
    from extract import gen_templates
    with core.Lock('lake'):
        rep = gen_templates.extract(core.REPO, os.path.join(core.LEAN, 'Sbepp', 'Extracted'))
    if rep.get('failed'):
        chk.log('gen_templates extraction failures:', json.dumps(rep['failed']))
        chk.extra['gen_templates_failed'] = rep['failed']
    chk.extra['gen_templates'] = {k: rep.get(k) for k in ('platform_macros', 'keywords', 'base_members', 'names_generator')}
    return rep


def run(chk):
    chk.extract()
    try:
        extract_templates(chk)
    except Exception as e:   # noqa: BLE001
        chk.report_unproved('extraction', 'gen_templates: %r' % (e,))
        return
    proved = chk.prove(MODULE, THEOREMS)
    if chk.tier == 'thorough' and proved:
        chk.leanchecker(MODULE)
    configs = CONFIGS_ALL if chk.tier == 'thorough' else CONFIGS_QUICK
    run = Run(chk, configs)
    sts = []
    try:
        if run.prepare():
            sts, feat = streams(chk, run)
            idx = 0
            only = [x for x in os.environ.get('C07_STREAMS', '').split(',') if x]   # debugging aid: subset of streams
            for name, schemas, headers, cfgs in sts:
                if only and name not in only:
                    continue
                run.configs = cfgs
                cases = []
                for s in schemas:
                    cases.append(Case(idx, name, s, run.workdir, headers=headers))
                    idx += 1
                run.process(cases)
                chk.log('stream %s: %d schemas' % (name, len(cases)), json.dumps(run.stats['by_stream'].get(name)))
                for c in cases:
                    shutil.rmtree(c.dir, ignore_errors=True)
            run.feat = feat
    finally:
        run.cleanup()
    chk.cov['programs'] = run.stats['schemas']
    chk.cov['distinct_nontrivial'] = run.stats['accepted']
    chk.cov['traces_validated_against_impl'] = chk.cov['evaluations']
    chk.cov['rule'] = ('one evaluation = one -fsyntax-only compilation of real sbeppc output: either one generated header '
                       'included alone, or the touch-everything translation unit (every type, enum value, set choice, '
                       'composite element, message, field, group, data member under its schema name in the documented '
                       'namespaces and tag paths; every accessor incl. cursor and by-tag forms, header fillers, size '
                       'queries, every trait, visit/visit_children), under one compiler configuration; the outcome is '
                       'compared with "compiles" (property) and with the model\'s prediction; distinct = accepted schemas')
    chk.cov['run_stats'] = run.stats
    chk.cov['compiler_error_classes'] = run.error_classes
    chk.cov['failure_cases'] = dict(sorted(run.failure_cases.items()))
    chk.cov['unexplained_failures'] = run.unexplained[:20]
    chk.cov['input_feature_histogram'] = dict(sorted(run.feat.items()))
    chk.cov['configurations'] = ['%s -std=%s' % c for c in configs]
    chk.cov['configurations_per_stream'] = {name: ['%s -std=%s' % c for c in cfgs] for name, _, _, cfgs in (sts if run.model else [])}
    if chk.failed_obligations and not chk.violations:
        chk.report_unproved('theorem', chk.failed_obligations)
    chk.level = 'proof'
    chk.assumptions += [
        'PARTIAL BY NATURE (DESIGN §10): that the compilers accept the fixed template text is observed, not proved; the '
        'theorems are about the model of the generator (literal rendering and narrowing, names_generator, declarations '
        'per scope, size_bytes parameter names, include sets) whose agreement with sbeppc is tested by the compile '
        'differential on generated schemas only',
        'acceptance by sbeppc is modelled by necessary conditions (names, uniqueness, value_fits_into_type, attribute '
        'ranges, layout); a schema sbeppc accepts although they fail is reported',
        'problems the model marks `maybe` (names that are platform macros after including sbepp.hpp; a type named `std`; a '
        'class named like a runtime-base member nobody in the generated code calls) have no predicted outcome',
        'glibc strtof/strtod underflow (inexact subnormal) is approximated by "below the smallest normal number"; the '
        'generators stay away from that range; integer literals beyond unsigned long long are implementation dependent',
    ]


def replay(chk, rep):
    """rebuild the recorded case from the current tree: sbeppc, the recorded compile job, the model's prediction"""
    sch = rep.get('schema')
    cfg = rep.get('config', {})
    if not sch:
        print(json.dumps({k: rep[k] for k in rep if k not in ('schema_xml', 'compiler_output')}, indent=1)[:3000])
        return 1
    # the model follows the tables and decision sites extracted from the tree under test
    try:
        extract_templates(chk)
    except Exception as e:   # noqa: BLE001
        print('gen_templates: %r' % (e,))
        return 1
    r = Run(chk, [(cfg.get('cxx', 'g++'), cfg.get('std', 'c++17'))])
    if not r.prepare():
        return 1
    try:
        c = Case(0, 'replay', sch, r.workdir, headers=True)
        c.prepare(r.exe)
        ans = r.model_lines(['wellformed ' + G.to_sexp(sch)])[0]
        print('sbeppc exit status:', c.rc, c.out.strip()[:300])
        print('model :', ans[:1500])
        print('spec  : every header alone and the touch-everything translation unit compile')
        bad = 0
        if c.rc == 0:
            for what, src in c.jobs:
                if rep.get('job') and what != rep['job'] and what != 'touch-tu':
                    continue
                _, _, cxx, std, rc, log = compile_job((c, what, src, r.configs[0][0], r.configs[0][1]))
                print('impl  : %s under %s -std=%s: %s' % (what, cxx, std, 'compiles' if rc == 0 else first_error(log)))
                bad += rc != 0
        return 1 if bad else 0
    finally:
        r.cleanup()
