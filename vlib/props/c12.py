"""C12 - group views obey iterator and container laws for every dimension type.

Also hosts the flat-group part of C05 (see c05flat.py, which re-exports
`flat_size_obligations` / `flat_size_correspond`).

Three answers per evaluated expression:
  impl   real sbepp (harness/c12_grp.cpp: flat_group_base / nested_group_base /
         random_access_iterator / forward_iterator over hand-declared dimension
         composites for all 16 type pairs; UBSan trap mode)
  model  Lean transliteration assembled from the kernels extracted on this run
  spec   Lean specification (Spec/Group.lean): positions over Int

spec is a value            -> impl must equal it (else VIOLATION) and so must model
spec is PRE / NR           -> the law does not speak about this expression (outside the
                              range / step not a value of difference_type): impl is
                              compared with the model only (skipped when either is UB)
spec is OOD                -> an address would leave [0, 2^63): nothing to compare
"""
import concurrent.futures
import os
import random
import sys

from .. import core

MODULE = 'Sbepp.Properties.C12'
THEOREMS = [
    'Sbepp.Properties.C12.model_shapes_current',
    'Sbepp.Properties.C12.begin_spec',
    'Sbepp.Properties.C12.end_spec',
    'Sbepp.Properties.C12.plus_spec',
    'Sbepp.Properties.C12.minus_spec',
    'Sbepp.Properties.C12.begin_plus_size_eq_end_partial',
    'Sbepp.Properties.C12.begin_plus_size_eq_end_full_false',
    'Sbepp.Properties.C12.subscript_is_deref_plus',
    'Sbepp.Properties.C12.add_sub_cancel',
    'Sbepp.Properties.C12.add_sub_cancel_full_false',
    'Sbepp.Properties.C12.distance_matches_index_partial',
    'Sbepp.Properties.C12.distance_matches_index_full_false',
    'Sbepp.Properties.C12.order_matches_index',
    'Sbepp.Properties.C12.entry_address_subscript',
    'Sbepp.Properties.C12.entry_address_front',
    'Sbepp.Properties.C12.entry_address_back',
    'Sbepp.Properties.C12.entry_address_iteration',
    'Sbepp.Properties.C12.forward_entry_chain',
    'Sbepp.Properties.C12.nested_size_bytes_spec',
    'Sbepp.Properties.C12.resize_writes_only_numInGroup',
    'Sbepp.Properties.C12.clear_writes_only_numInGroup',
    'Sbepp.Spec.Group.entryAddr_add',
    'Sbepp.Spec.Group.entryAddr_end',
    'Sbepp.Spec.Group.startsIter_eq_starts',
    'Sbepp.Spec.Group.endIter_eq_nestedSize',
    # laws of the one-line members whose hand definitions came with the translator tie
    'Sbepp.Properties.C12.size_spec',
    'Sbepp.Properties.C12.empty_spec',
    'Sbepp.Properties.C12.front_back_require_nonempty',
    'Sbepp.Properties.C12.nested_front_spec',
    # the same statements for the member functions translated from sbepp.hpp (extract/methods_group.py) ...
    'Sbepp.Properties.C12.begin_spec_extracted',
    'Sbepp.Properties.C12.end_spec_extracted',
    'Sbepp.Properties.C12.begin_plus_size_eq_end_partial_extracted',
    'Sbepp.Properties.C12.entry_address_subscript_extracted',
    'Sbepp.Properties.C12.entry_address_front_extracted',
    'Sbepp.Properties.C12.entry_address_back_extracted',
    'Sbepp.Properties.C12.entry_address_iteration_extracted',
    'Sbepp.Properties.C12.size_empty_extracted',
    'Sbepp.Properties.C12.front_back_require_nonempty_extracted',
    'Sbepp.Properties.C12.nested_front_extracted',
    'Sbepp.Properties.C12.forward_entry_chain_extracted',
    'Sbepp.Properties.C12.nested_size_bytes_spec_extracted',
    'Sbepp.Properties.C12.resize_writes_only_numInGroup_extracted',
    'Sbepp.Properties.C12.clear_writes_only_numInGroup_extracted',
    'Sbepp.Lemmas.GroupTie.walk_fold_fusion',
] + ['Sbepp.Lemmas.GroupTie.%s.%s_tie' % (_c, _m)       # ... and the tie: translated member function = hand model
     for _c, _ms in (('Flat', ('get_header', 'size_bytes', 'sbe_size', 'size', 'empty', 'begin', 'end', 'subscript', 'front',
                               'back', 'resize', 'clear')),
                     ('Nested', ('get_header', 'sbe_size', 'size', 'empty', 'begin', 'end', 'front', 'resize', 'clear',
                                 'size_bytes')),
                     ('Fwd', ('ctor', 'deref', 'inc', 'eq', 'ne')),
                     ('Ra', ('ctor', 'deref')))
     for _m in _ms]

FLAT_MODULE = 'Sbepp.Properties.C05Flat'
FLAT_THEOREMS = [
    'Sbepp.Properties.C05Flat.flat_size_exact',
    'Sbepp.Properties.C05Flat.flat_size_mod',
    'Sbepp.Properties.C05Flat.flat_size_model',
]

TYS = ['u8', 'u16', 'u32', 'u64']
W = {'u8': 8, 'u16': 16, 'u32': 32, 'u64': 64}
PAIRS = [(a, b) for a in TYS for b in TYS]
CMPS = ['lt', 'le', 'gt', 'ge', 'eq', 'ne']
PER_LINE = 48
BASE = 1 << 20


def kv(line):
    return dict(x.split('=', 1) for x in line.split() if '=' in x)


# ------------------------------------------------------------------ expressions

def successors(it, ks):
    out = ['inc(%s)' % it, 'dec(%s)' % it]
    for k in ks:
        out += ['add(%s,%s)' % (it, k), 'sub(%s,%s)' % (it, k), 'radd(%s,%s)' % (k, it)]
    return out


def small_exprs(full):
    """every expression of nesting depth <= 3 over the literal steps below"""
    ks = ['-2', '-1', '1', '2', '3', 'size'] if full else ['-1', '1', '2', 'size']
    i1 = ['begin', 'end']
    i2 = [s for it in i1 for s in successors(it, ks)]
    i12 = i1 + i2
    i3 = [s for it in i2 for s in successors(it, ks)]
    out = []
    out += i12 + i3                                            # iterator values
    out += ['deref(%s)' % it for it in i12]
    out += ['at(%s,%s)' % (it, k) for it in i12 for k in ks + ['0']]
    out += ['idx(%s)' % k for k in ['0', '1', '2', '3', '4', '-1', 'size']]
    out += ['idx(diff(%s,%s))' % (a, b) for a in i1 for b in i1]
    out += ['front', 'back']
    out += ['iter(%d)' % k for k in range(5)]
    out += ['diff(%s,%s)' % (a, b) for a in i12 for b in i12]
    out += ['%s(%s,%s)' % (op, a, b) for op in CMPS for a in i12 for b in i12]
    # steps that are themselves distances (depth 3)
    out += ['add(%s,diff(%s,%s))' % (it, a, b) for it in i1 for a in i1 for b in i1]
    out += ['sub(%s,diff(%s,%s))' % (it, a, b) for it in i1 for a in i1 for b in i1]
    return out


def law_exprs(i, n, wmax):
    """the laws of the property, instantiated at index/step i for a group of n entries"""
    e = []
    for k in sorted(x for x in {i, -i} if -(1 << 63) <= x < (1 << 64)):
        e += ['add(begin,%d)' % k, 'sub(end,%d)' % k, 'at(begin,%d)' % k, 'at(end,%d)' % k,
              'deref(sub(add(begin,%d),%d))' % (k, k), 'sub(add(begin,%d),%d)' % (k, k),
              'add(sub(end,%d),%d)' % (k, k), 'diff(add(begin,%d),begin)' % k, 'diff(end,sub(end,%d))' % k,
              'lt(add(begin,%d),end)' % k, 'le(begin,add(begin,%d))' % k, 'eq(add(begin,%d),end)' % k,
              'radd(%d,begin)' % k, 'deref(add(begin,%d))' % k]
    if 0 <= i <= wmax:
        e += ['idx(%d)' % i]
    return e


FIXED_LAWS = ['begin', 'end', 'add(begin,size)', 'eq(add(begin,size),end)', 'deref(add(begin,size))',
              'diff(end,begin)', 'diff(begin,end)', 'sub(end,size)', 'deref(sub(end,size))', 'front', 'back',
              'deref(dec(end))', 'deref(inc(begin))', 'lt(begin,end)', 'ge(end,begin)', 'ne(begin,end)',
              'at(begin,size)', 'idx(0)', 'idx(size)', 'add(begin,diff(end,begin))', 'sub(end,diff(end,begin))',
              'iter(0)', 'iter(1)', 'iter(2)', 'size']


def bounds(t):
    w = W[t]
    s = {0, 1, 2, 3}
    for k in (7, 8, 15, 16, 31, 32, 63, 64):
        if k <= w:
            s |= {(1 << k) - 1, (1 << k) - 2}
            if k < w:
                s |= {1 << k, (1 << k) + 1}
    return sorted(x for x in s if 0 <= x < (1 << w))


def mk_line(nt, bt, n, bl, exprs, hdr=None, chk=0, cap=None):
    s = 'grp nt=%s bt=%s n=%d bl=%d base=%d' % (nt, bt, n, bl, BASE)
    if hdr is not None:
        s += ' hdr=%d' % hdr
    if chk:
        s += ' chk=1 cap=%d' % cap
    return s + ' expr=' + ';'.join(exprs)


def chunks(xs, k):
    for i in range(0, len(xs), k):
        yield xs[i:i + k]


def gen_small(chk):
    thorough = chk.tier == 'thorough'
    ex = small_exprs(thorough)
    sizes = [0, 1, 2, 3]
    bls = [0, 1, 2, 3]
    lines = []
    for nt, bt in PAIRS:
        for n in sizes:
            for bl in bls:
                for c in chunks(ex, PER_LINE):
                    lines.append(mk_line(nt, bt, n, bl, c))
    return lines, len(ex)


def gen_boundary(chk):
    thorough = chk.tier == 'thorough'
    lines = []
    for nt, bt in PAIRS:
        wn, wb = W[nt], W[bt]
        nb = bounds(nt)
        bb = bounds(bt)
        if not thorough:
            # block lengths 0, 1, 2, a middle boundary and the maximum
            bb = sorted(set([0, 1, 2, 3, (1 << (wb - 1)) - 1, 1 << (wb - 1), (1 << wb) - 1] +
                            ([255, 256, 65535, 65536] if wb > 16 else [])))
            bb = [x for x in bb if x < (1 << wb)]
        for n in nb:
            for bl in bb:
                idxs = sorted(set(x for x in nb if x <= n + 1) | {max(n - 1, 0), n, n // 2}) if thorough else \
                    sorted({0, 1, n // 2, max(n - 1, 0), n, (1 << (wn - 1)) - 1, 1 << (wn - 1), (1 << wn) - 1,
                            min(n, 127), min(n, 128)})
                ex = list(FIXED_LAWS)
                for i in idxs:
                    ex += law_exprs(i, n, (1 << wn) - 1)
                ex = list(dict.fromkeys(ex))
                for hdr in ((None, 40) if thorough else (None,)):
                    for c in chunks(ex, PER_LINE):
                        lines.append(mk_line(nt, bt, n, bl, c, hdr=hdr))
    return lines


def rand_mag(rng, w):
    k = rng.randrange(0, w + 1)
    if k == 0:
        return 0
    v = rng.getrandbits(k) | (1 << (k - 1))
    if rng.random() < 0.3:
        v = (1 << k) - 1 - rng.randrange(0, 3)
    return max(0, min(v, (1 << w) - 1))


def rand_expr(rng, n, wn, depth):
    def lit():
        r = rng.random()
        if r < 0.3:
            v = rng.randrange(0, 5)
        elif r < 0.6:
            v = max(0, n - rng.randrange(0, 3))
        elif r < 0.8:
            v = rng.choice([(1 << (wn - 1)) - 1, 1 << (wn - 1), (1 << wn) - 1, n // 2])
        else:
            v = rand_mag(rng, wn)
        return str(-v if rng.random() < 0.35 else v)

    def kk(d):
        r = rng.random()
        if r < 0.15:
            return 'size'
        if r < 0.25 and d > 1:
            return 'diff(%s,%s)' % (it(d - 1), it(d - 1))
        return lit()

    def it(d):
        if d <= 1 or rng.random() < 0.25:
            return rng.choice(['begin', 'end'])
        op = rng.choice(['add', 'sub', 'radd', 'inc', 'dec', 'add', 'sub'])
        if op in ('inc', 'dec'):
            return '%s(%s)' % (op, it(d - 1))
        if op == 'radd':
            return 'radd(%s,%s)' % (kk(d - 1), it(d - 1))
        return '%s(%s,%s)' % (op, it(d - 1), kk(d - 1))

    top = rng.choice(['it', 'deref', 'at', 'idx', 'diff', 'cmp', 'cmp', 'diff', 'at'])
    if top == 'it':
        return it(depth)
    if top == 'deref':
        return 'deref(%s)' % it(depth - 1)
    if top == 'at':
        return 'at(%s,%s)' % (it(depth - 1), kk(depth - 1))
    if top == 'idx':
        return 'idx(%s)' % kk(depth - 1)
    if top == 'diff':
        return 'diff(%s,%s)' % (it(depth - 1), it(depth - 1))
    return '%s(%s,%s)' % (rng.choice(CMPS), it(depth - 1), it(depth - 1))


def gen_random(chk, rng):
    nlines = 6000 if chk.tier == 'thorough' else 1200
    lines = []
    for _ in range(nlines):
        nt, bt = rng.choice(PAIRS)
        n = rand_mag(rng, W[nt])
        bl = rand_mag(rng, W[bt]) if rng.random() < 0.7 else rng.randrange(0, 4)
        hdr = None if rng.random() < 0.7 else W[nt] // 8 + W[bt] // 8 + rng.randrange(0, 24)
        ex = [rand_expr(rng, n, W[nt], 3) for _ in range(PER_LINE)]
        lines.append(mk_line(nt, bt, n, bl, ex, hdr=hdr))
    return lines


def gen_checked(chk):
    """checked builds (SBEPP_ENABLE_ASSERTS_WITH_HANDLER): the view ends exactly at the end of
    the group (cap = size_bytes) or too early (cap smaller: model-only comparison)."""
    lines = []
    ex = ['begin', 'end', 'front', 'back', 'idx(0)', 'idx(1)', 'idx(2)', 'idx(3)', 'idx(4)', 'idx(size)', 'idx(-1)',
          'iter(0)', 'iter(1)', 'iter(2)', 'iter(3)', 'iter(4)', 'inc(end)', 'inc(begin)', 'dec(end)', 'size',
          'add(begin,size)', 'deref(add(begin,1))', 'diff(end,begin)', 'at(begin,2)', 'eq(add(begin,size),end)',
          'deref(inc(inc(begin)))', 'deref(dec(end))']
    for nt, bt in PAIRS:
        hdr = W[nt] // 8 + W[bt] // 8
        for n in (0, 1, 2, 3):
            for bl in (0, 1, 3):
                ext = hdr + n * bl
                for cap in sorted({ext, ext + 5, max(ext - 1, 0), hdr, max(hdr - 1, 0)}):
                    lines.append(mk_line(nt, bt, n, bl, ex, chk=1, cap=cap))
        # large groups, exact extent
        for n, bl in (((1 << W[nt]) - 1, 1), ((1 << (W[nt] - 1)), 2), (200 % (1 << W[nt]), (1 << min(W[bt], 20)) - 1)):
            if hdr + n * bl < (1 << 62):
                lines.append(mk_line(nt, bt, n, bl, ex + ['idx(%d)' % (n - 1), 'idx(%d)' % n, 'idx(%d)' % (n // 2)],
                                     chk=1, cap=hdr + n * bl))
    return lines


def gen_nest(chk, rng):
    thorough = chk.tier == 'thorough'
    lines = []
    pats = [[0], [1], [3], [0, 1], [2, 0, 3], [0, 0, 1, 3]]
    for nt, bt in PAIRS:
        for n in (0, 1, 2, 3):
            for bl in (0, 1, 2, 3):
                for p in pats:
                    lines.append('nest nt=%s bt=%s n=%d bl=%d base=%d lens=%s' % (nt, bt, n, bl, BASE, ','.join(map(str, p))))
        big = [127, 128, 255, 256, 300] + ([32767, 32768, 65535, 65536, 70000] if thorough else [1000])
        for n in big:
            if n < (1 << W[nt]):
                p = [rng.randrange(0, 4) for _ in range(rng.randrange(1, 6))]
                lines.append('nest nt=%s bt=%s n=%d bl=%d base=%d hdr=%d lens=%s' % (
                    nt, bt, n, rng.randrange(0, 4), BASE, W[nt] // 8 + W[bt] // 8 + rng.randrange(0, 9), ','.join(map(str, p))))
    return lines


def gen_resize(chk, rng):
    lines = []
    for nt, bt in PAIRS:
        hb = W[nt] // 8 + W[bt] // 8
        counts = sorted({0, 1, 2, 255, 256, (1 << (W[nt] - 1)), (1 << W[nt]) - 1, rng.getrandbits(W[nt])})
        for be in (0, 1):
            for kind in ('flat', 'nested'):
                for pad in (0, 3):
                    size = pad + hb + 7
                    buf = ''.join('%02x' % rng.randrange(256) for _ in range(size))
                    for c in counts:
                        if c < (1 << W[nt]):
                            lines.append('resize nt=%s bt=%s be=%d kind=%s pad=%d buf=%s count=%d' % (nt, bt, be, kind, pad, buf, c))
                    lines.append('resize nt=%s bt=%s be=%d kind=%s pad=%d buf=%s count=0 op=clear' % (nt, bt, be, kind, pad, buf))
    return lines


def gen_sizes(chk):
    """C05 flat: boundary grid {0,1,2^k-1,2^k,2^k+1,max} for every pair."""
    lines = []
    for nt, bt in PAIRS:
        nb, bb = bounds(nt), bounds(bt)
        if chk.tier != 'thorough':
            keep = lambda xs, w: [x for x in xs if x in (0, 1, 2, 3) or x >= (1 << 7) - 2]
            nb, bb = keep(nb, W[nt]), keep(bb, W[bt])
        for n in nb:
            for bl in bb:
                for hdr in (W[nt] // 8 + W[bt] // 8, 0, 40):
                    lines.append('grpsize nt=%s bt=%s hdr=%d n=%d bl=%d' % (nt, bt, hdr, n, bl))
                if n * bl < (1 << 64):
                    # the largest header for which the size still fits size_t, and one more
                    lines.append('grpsize nt=%s bt=%s hdr=%d n=%d bl=%d' % (nt, bt, (1 << 64) - 1 - n * bl, n, bl))
    return lines


# ------------------------------------------------------------------ running

def run_parallel(chk, exe, lines, nchunks=None):
    nchunks = nchunks or max(1, min(core.NPROC, len(lines) // 200 + 1))
    size = (len(lines) + nchunks - 1) // nchunks
    parts = [lines[i:i + size] for i in range(0, len(lines), size)] or [[]]
    with concurrent.futures.ThreadPoolExecutor(max_workers=nchunks) as pool:
        res = list(pool.map(lambda p: chk.run_lines(exe, p) if p else (0, []), parts))
    out = []
    rc = 0
    for (r, o), p in zip(res, parts):
        if r != 0 or len(o) != len(p):
            rc = r or 99
        out += o
    return rc, out


def top_op(e):
    return e.split('(', 1)[0] if '(' in e else ('literal' if e.lstrip('-').isdigit() else e)


class Tally:
    def __init__(self):
        self.evals = 0
        self.in_domain = 0
        self.model_only = 0
        self.ood = 0
        self.skipped_ub = 0
        self.by_spec = {}
        self.distinct = set()
        self.broken = None
        self.failures = []      # (class key, replay dict)

    def fail(self, key, replay):
        self.failures.append((key, replay))

    def flush(self, chk):
        """report every impl≠spec case; order them round-robin over (stream, operation, numInGroup
        type) classes so that the few replay files that are written show different failures"""
        hist = {}
        buckets = {}
        for key, rep in self.failures:
            hist[key] = hist.get(key, 0) + 1
            buckets.setdefault(key, []).append(rep)
        order = []
        keys = sorted(buckets)
        depth = 0
        while len(order) < len(self.failures):
            for k in keys:
                if depth < len(buckets[k]):
                    order.append(buckets[k][depth])
            depth += 1
        for rep in order:
            chk.report_failure(rep)
        if hist:
            chk.extra['violation_histogram'] = {'%s/%s/%s' % k: v for k, v in sorted(hist.items())}
            chk.log('impl≠spec by (stream/op/numInGroup type): ' +
                    ', '.join('%s/%s/%s=%d' % (k + (v,)) for k, v in sorted(hist.items())[:40]))
        self.failures = []


def compare_grp(chk, tally, cfg, flavour, lines, mout, iout, model_only_pred=None, stream='grp'):
    cxx, std = cfg
    for line, m, i in zip(lines, mout, iout):
        req = kv(line)
        mk, ik = kv(m), kv(i)
        exprs = req['expr'].split(';')
        ms, ss, is_ = mk.get('model', '').split(';'), mk.get('spec', '').split(';'), ik.get('impl', '').split(';')
        if not (len(ms) == len(ss) == len(is_) == len(exprs)):
            tally.broken = tally.broken or {'line': line, 'impl': i, 'model': m, 'why': 'answer arity', 'config': [cxx, std, flavour]}
            continue
        mo = model_only_pred(req) if model_only_pred else False
        for e, mv, sv, iv in zip(exprs, ms, ss, is_):
            tally.evals += 1
            if sv == 'OOD':
                tally.ood += 1
                continue
            key = (req['nt'], req['bt'], req['n'], req['bl'], req.get('hdr'), req.get('chk'), req.get('cap'), e)
            if sv in ('PRE', 'NR', 'BAD') or mo:
                tally.by_spec[sv if not mo else 'view-too-short'] = tally.by_spec.get(sv if not mo else 'view-too-short', 0) + 1
                if mv == 'UB' or iv == 'UB' or iv == 'FAULT':
                    tally.skipped_ub += 1
                    continue
                tally.model_only += 1
                tally.distinct.add(key)
                if mv != iv:
                    tally.broken = tally.broken or {'line': mk_single(req, e), 'expr': e, 'impl': iv, 'model': mv, 'spec': sv,
                                                    'config': [cxx, std, flavour]}
                continue
            tally.in_domain += 1
            tally.distinct.add(key)
            if iv != sv:
                case = {'nt': req['nt'], 'bt': req['bt'], 'n': int(req['n']), 'bl': int(req['bl']),
                        'hdr': int(req['hdr']) if 'hdr' in req else None, 'expr': e, 'op': top_op(e),
                        'impl': iv, 'spec': sv, 'model': mv, 'cxx': cxx, 'std': std, 'flavour': flavour,
                        'wn': W[req['nt']], 'wb': W[req['bt']]}
                tally.fail((stream, top_op(e), req['nt']), {
                    'kind': 'impl≠spec', 'harness': 'c12_grp', 'flavour': flavour, 'config': {'cxx': cxx, 'std': std},
                    'lines': [mk_single(req, e)], 'observed': {'impl': iv, 'model': mv, 'spec': sv}, 'case': case})
            elif mv != sv:
                tally.broken = tally.broken or {'line': mk_single(req, e), 'expr': e, 'impl': iv, 'model': mv, 'spec': sv,
                                                'config': [cxx, std, flavour]}


def mk_single(req, e):
    s = 'grp ' + ' '.join('%s=%s' % (k, v) for k, v in req.items() if k != 'expr')
    return s + ' expr=' + e


def compare_simple(chk, tally, cfg, flavour, lines, mout, iout, harness_cmd):
    """requests with one answer: nest, resize, grpsize"""
    cxx, std = cfg
    for line, m, i in zip(lines, mout, iout):
        req = kv(line)
        mk, ik = kv(m), kv(i)
        tally.evals += 1
        sv, mv, iv = mk.get('spec'), mk.get('model'), ik.get('impl')
        if sv == 'OOD':
            tally.ood += 1
            continue
        tally.in_domain += 1
        tally.distinct.add(line)
        if iv != sv:
            case = dict(req)
            case.update({'op': harness_cmd, 'impl': iv, 'spec': sv, 'model': mv, 'cxx': cxx, 'std': std, 'flavour': flavour})
            for k in ('n', 'bl', 'hdr', 'count', 'pad'):
                if k in case:
                    case[k] = int(case[k])
            if 'nt' in req:
                case['wn'], case['wb'] = W[req['nt']], W[req['bt']]
            tally.fail((harness_cmd, harness_cmd, req.get('nt', '-')), {
                'kind': 'impl≠spec', 'harness': 'c12_grp', 'flavour': flavour, 'config': {'cxx': cxx, 'std': std},
                'lines': [line], 'observed': {'impl': iv, 'model': mv, 'spec': sv}, 'case': case})
        elif mv != sv:
            tally.broken = tally.broken or {'line': line, 'impl': iv, 'model': mv, 'spec': sv, 'config': [cxx, std, flavour]}


def configs_for(tier):
    if tier == 'thorough':
        return [('g++', 'c++11'), ('g++', 'c++17'), ('g++', 'c++20'),
                ('clang++-14', 'c++11'), ('clang++-14', 'c++14'), ('clang++-14', 'c++20')]
    return [('g++', 'c++17'), ('clang++-14', 'c++11')]


def build_all(chk, configs, flavours=('unchecked', 'checked')):
    jobs = [(c, f) for c in configs for f in flavours]

    def one(job):
        (cxx, std), fl = job
        name = 'c12_grp_%s_%s_%s' % (fl, cxx.replace('+', 'p'), std.replace('+', 'p'))
        return job, chk.build_cxx(name, ['c12_grp.cpp'], cxx=cxx, std=std,
                                  flags=['-DC12_CHECKED'] if fl == 'checked' else [])
    with concurrent.futures.ThreadPoolExecutor(max_workers=min(len(jobs), core.NPROC)) as pool:
        res = list(pool.map(one, jobs))
    exes = {}
    for (cfg, fl), (exe, log) in res:
        if exe is None:
            chk.report_unproved('harness-build', '%s -std=%s (%s): %s' % (cfg[0], cfg[1], fl, log[-1500:]))
        else:
            exes[(cfg, fl)] = exe
    return exes


def extract_group(chk):
    """kernels_group is a new extractor; run it here as well so that the check does not depend on
    extract/run_all.py listing it (idempotent: the file is only rewritten when it changes)."""
    sys.path.insert(0, core.VERIF)
    from extract import kernels_group
    with core.Lock('lake'):
        rep = kernels_group.extract(core.REPO, os.path.join(core.LEAN, 'Sbepp', 'Extracted'))
    if rep.get('failed'):
        chk.log('group kernel extraction failures:', rep['failed'])
        chk.extra['group_extraction_failed'] = rep['failed']
    chk.extra['group_extraction_sha256'] = rep.get('sha256')
    return rep


def model_lines(chk, model, streams):
    outs = {}
    for name, lines in streams.items():
        rc, out = run_parallel(chk, model, lines)
        if rc != 0 or len(out) != len(lines):
            chk.report_unproved('model-driver-run', '%s rc=%s lines=%d/%d' % (name, rc, len(out), len(lines)))
            return None
        outs[name] = out
    return outs


def view_too_short(req):
    hdr = int(req['hdr']) if 'hdr' in req else W[req['nt']] // 8 + W[req['bt']] // 8
    return int(req.get('cap', 0)) < hdr + int(req['n']) * int(req['bl'])


def correspond(chk, configs):
    rng = random.Random(chk.seed * 7919 + 12)
    model = chk.model_exe()
    if model is None:
        chk.report_unproved('model-driver-build', 'sbepp_model does not build')
        return
    small, nsmall = gen_small(chk)
    streams = {
        'small': small,
        'boundary': gen_boundary(chk),
        'random': gen_random(chk, rng),
        'checked': gen_checked(chk),
        'nest': gen_nest(chk, rng),
        'resize': gen_resize(chk, rng),
        'sizes': gen_sizes(chk),
    }
    chk.log('requests: ' + ', '.join('%s=%d' % (k, len(v)) for k, v in streams.items()))
    mouts = model_lines(chk, model, streams)
    if mouts is None:
        return
    chk.log('model answers done')
    exes = build_all(chk, configs)
    chk.log('harness builds done (%d)' % len(exes))
    tally = Tally()
    for cfg in configs:
        for fl in ('unchecked', 'checked'):
            exe = exes.get((cfg, fl))
            if exe is None:
                continue
            names = ['checked'] if fl == 'checked' else ['small', 'boundary', 'random', 'nest', 'resize', 'sizes']
            for name in names:
                lines = streams[name]
                rc, iout = run_parallel(chk, exe, lines)
                if rc != 0 or len(iout) != len(lines):
                    chk.report_unproved('harness-run', '%s %s %s %s rc=%s lines=%d/%d' % (cfg[0], cfg[1], fl, name, rc, len(iout), len(lines)))
                    continue
                if name in ('nest', 'resize', 'sizes'):
                    compare_simple(chk, tally, cfg, fl, lines, mouts[name], iout, name)
                else:
                    compare_grp(chk, tally, cfg, fl, lines, mouts[name], iout,
                                model_only_pred=view_too_short if name == 'checked' else None, stream=name)
        chk.log('%s -std=%s compared (evaluations so far %d, impl≠spec so far %d)' % (cfg[0], cfg[1], tally.evals, len(tally.failures)))
    tally.flush(chk)
    if tally.broken and not chk.violations:
        chk.report_unproved('impl≠model (implementation agrees with the specification wherever it speaks)', tally.broken)
    chk.cov['evaluations'] = tally.evals
    chk.cov['distinct_nontrivial'] = len(tally.distinct)
    chk.cov['traces_validated_against_impl'] = tally.in_domain + tally.model_only
    chk.cov['in_domain_impl_eq_spec'] = tally.in_domain
    chk.cov['outside_domain_impl_eq_model'] = tally.model_only
    chk.cov['outside_domain_by_reason'] = tally.by_spec
    chk.cov['address_space_exceeded_not_compared'] = tally.ood
    chk.cov['outside_domain_ub_not_compared'] = tally.skipped_ub
    chk.cov['small_scope'] = {'expressions_per_group': nsmall, 'sizes': [0, 1, 2, 3], 'block_lengths': [0, 1, 2, 3],
                              'type_pairs': 16, 'exhaustive_depth': 3}
    chk.cov['rule'] = ('one evaluation = one expression of the iterator language (or one nest/resize/grpsize request) on one '
                       '(numInGroup type, blockLength type, n, blockLength, header size) in one compiler configuration; '
                       'distinct = distinct (types, header contents, expression) tuples whose result was compared with the '
                       'implementation; expressions on which the specification is silent (PRE/NR) are compared with the model only')
    chk.cov['exhaustive'] = False
    chk.cov['exhaustive_part'] = 'all expressions of depth <= 3 over the listed literal steps for sizes/block lengths 0..3, all 16 type pairs'
    chk.cov['configurations'] = ['%s -std=%s' % c for c in configs] + ['each: SBEPP_DISABLE_ASSERTS and SBEPP_ENABLE_ASSERTS_WITH_HANDLER']
    for name in ('small', 'boundary', 'checked', 'nest'):
        if streams[name]:
            chk.sample({'request': streams[name][-1][:300], 'model': mouts[name][-1][:300]})


def flat_size_obligations():
    return FLAT_MODULE, list(FLAT_THEOREMS)


def flat_size_correspond(chk, configs=None):
    """C05 (flat groups): size_bytes on the boundary grid for every type pair, real code vs
    specification vs extracted kernel.  Returns the number of evaluations."""
    configs = configs or configs_for(chk.tier)
    extract_group(chk)
    model = chk.model_exe()
    if model is None:
        chk.report_unproved('model-driver-build', 'sbepp_model does not build')
        return 0
    lines = gen_sizes(chk)
    rc, mout = run_parallel(chk, model, lines)
    if rc != 0 or len(mout) != len(lines):
        chk.report_unproved('model-driver-run', 'grpsize rc=%s lines=%d/%d' % (rc, len(mout), len(lines)))
        return 0
    exes = build_all(chk, configs, flavours=('unchecked',))
    tally = Tally()
    for cfg in configs:
        exe = exes.get((cfg, 'unchecked'))
        if exe is None:
            continue
        rc, iout = run_parallel(chk, exe, lines)
        if rc != 0 or len(iout) != len(lines):
            chk.report_unproved('harness-run', '%s %s grpsize rc=%s' % (cfg[0], cfg[1], rc))
            continue
        compare_simple(chk, tally, cfg, 'unchecked', lines, mout, iout, 'sizes')
    tally.flush(chk)
    if tally.broken and not chk.violations:
        chk.report_unproved('impl≠model (flat size_bytes)', tally.broken)
    chk.cov['flat_size_evaluations'] = tally.evals
    chk.cov['flat_size_in_domain'] = tally.in_domain
    chk.cov['flat_size_does_not_fit_size_t'] = tally.ood
    return tally.evals


def run(chk):
    chk.extract()
    extract_group(chk)
    if chk.prop.upper().startswith('C05'):
        mod, ths = flat_size_obligations()
        proved = chk.prove(mod, ths)
        if chk.tier == 'thorough' and proved:
            chk.leanchecker(mod)
        n = flat_size_correspond(chk)
        chk.cov['evaluations'] = n
        chk.cov['distinct_nontrivial'] = n // max(1, len(configs_for(chk.tier)))
        if chk.failed_obligations and not chk.violations:
            chk.report_unproved('theorem', chk.failed_obligations)
        return
    proved = chk.prove(MODULE, THEOREMS, extra_targets=[FLAT_MODULE])
    if chk.tier == 'thorough' and proved:
        chk.leanchecker(MODULE)
    correspond(chk, configs_for(chk.tier))
    if chk.extra.get('group_extraction_failed') and not chk.violations:
        chk.report_unproved('extraction', chk.extra['group_extraction_failed'])
    mfail = {k: v for k, v in (((chk.extract_report or {}).get('parts', {}).get('methods_group') or {}).get('failed') or {}).items()
             if k.startswith('I:') or k in ('SBEPP_SIZE_CHECK', 'model-I', 'sbepp.hpp', 'flat_group_base', 'nested_group_base',
                                            'forward_iterator', 'random_access_iterator')}
    if mfail and not chk.violations:
        chk.report_unproved('extraction', {'extractor': 'methods_group', 'failed': mfail})
    if chk.failed_obligations and not chk.violations:
        chk.report_unproved('theorem', chk.failed_obligations)
    chk.assumptions += [
        'representable differences: a step or a distance is a value of difference_type = make_signed<size_type> '
        '(the repository pins that type); begin()+size(), end()-begin() and it-n are therefore only specified for '
        'sizes/steps below 2^(w-1) of the numInGroup type (negation additionally excludes -2^(w-1)); outside of that '
        'the specification answers NR and the implementation is compared with the model only',
        'address space: every entry address lies in [0, 2^63) (model: group header at absolute address 2^20; '
        'real buffers are above that); beyond it the specification answers OOD and nothing is compared',
        'addresses are computed and never dereferenced, so pointer arithmetic outside the real header buffer is '
        'executed deliberately (the sanitizer only traps on address wrap-around, which the address-space hypothesis excludes)',
        'nested entries: the harness entry is block + one length byte + that many bytes; its size_bytes reads the length '
        'byte from memory like generated code',
    ]


def replay(chk, rep):
    chk.extract()
    extract_group(chk)
    model = chk.model_exe()
    cfg = rep.get('config', {'cxx': 'g++', 'std': 'c++17'})
    fl = rep.get('flavour', 'unchecked')
    exes = build_all(chk, [(cfg['cxx'], cfg['std'])], flavours=(fl,))
    exe = exes.get(((cfg['cxx'], cfg['std']), fl))
    lines = rep.get('lines', [])
    if not lines or exe is None or model is None:
        print('nothing to replay:', rep.get('kind'), rep.get('detail'))
        return 1
    _, mout = chk.run_lines(model, lines)
    _, iout = chk.run_lines(exe, lines)
    bad = 0
    for l, m, i in zip(lines, mout, iout):
        mk, ik = kv(m), kv(i)
        print('request:', l)
        print('  impl :', ik.get('impl'))
        print('  model:', mk.get('model'))
        print('  spec :', mk.get('spec'))
        for sv, iv in zip(mk.get('spec', '').split(';'), ik.get('impl', '').split(';')):
            if sv not in ('OOD', 'PRE', 'NR', 'BAD') and sv != iv:
                bad += 1
    return 1 if bad else 0
