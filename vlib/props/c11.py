"""C11 - read-only views cannot mutate the buffer.

Proved (Lean): statements about the guard table extracted from sbepp.hpp and the
generator templates, about the pointer-conversion relation and the
accessor/conversion graph, and about the Lean runtime models of the
non-mutating calls.  Observed (compilers, real sbeppc output): per generated
schema, detection-idiom static_asserts over every generated mutator, negative
compilation of the members that are not SFINAE guarded, conversion probes, and a
checksum / read-only-page probe around complete read-only traversals.
"""
import concurrent.futures as cf
import json
import os
import random
import re
import sys

from .. import core, wire, wirecheck as W, c11gen

MODULE = 'Sbepp.Properties.C11'
THEOREMS = [
    'Sbepp.Properties.C11.mutators_guarded',
    'Sbepp.Properties.C11.conversions_guarded',
    'Sbepp.Properties.C11.guard_definitions',
    'Sbepp.Properties.C11.table_guarded',
    'Sbepp.Properties.C11.writes_consistent',
    'Sbepp.Properties.C11.table_nonempty',
    'Sbepp.Properties.C11.conversions_nonempty',
    'Sbepp.Properties.C11.conv_only_towards_const',
    'Sbepp.Properties.C11.conv_table',
    'Sbepp.Properties.C11.no_path_to_mutator',
    'Sbepp.Properties.C11.no_path_to_cursor_mutator',
    'Sbepp.Properties.C11.cursor_children_const',
    'Sbepp.Properties.C11.readers_write_nothing',
]

KIND_MUT = {'setter': 'setter', 'set_by_tag': 'setByTag', 'cursor_setter': 'cursorSetter',
            'set_by_tag_cursor': 'setByTagCursor', 'fill_message_header': 'fillMessageHeader',
            'fill_group_header': 'fillGroupHeader', 'array_mutator': 'arrayAssign', 'element_write_sfinae': 'elemWrite'}

EVAL_SRC = '''import Sbepp.Properties.C11
open Sbepp.Rt.ConstGraph Sbepp.Extracted
def b2 : List Byte := [⟨.char, false⟩, ⟨.char, true⟩]
#eval IO.println (";".intercalate (Byte.all.flatMap fun f => Byte.all.map fun t => s!"conv|{f.cpp}|{t.cpp}|{conv f t}"))
#eval IO.println (";".intercalate (Mut.all.flatMap fun m => m.kinds.flatMap fun k => b2.flatMap fun vb => b2.map fun cb =>
  s!"en|{repr m}|{repr k}|{vb.const}|{cb.const}|{enabledAt guardRows guardFuel m ⟨k, vb, cb, .plain⟩}"))
'''


def sch(c):
    return {'schema_xml': open(c.xml).read(), 'schema_sexp': c.sexp}


def guards_extract(chk):
    """extract/guards.py is a separate extractor; run it here as well so that the
    check does not depend on its registration in extract/run_all.py"""
    sys.path.insert(0, core.VERIF)
    from extract import guards
    with core.Lock('lake'):
        rep = guards.extract(core.REPO, os.path.join(core.LEAN, 'Sbepp', 'Extracted'))
    return rep


def model_tables(chk):
    """conv table and `enabledAt` table printed by the Lean model"""
    tmp = os.path.join(core.BUILD, 'c11_eval_%d.lean' % os.getpid())
    open(tmp, 'w').write(EVAL_SRC)
    try:
        with core.Lock('lake'):
            rc, out = core.sh(['lake', 'env', 'lean', tmp], cwd=core.LEAN, timeout=900)
    finally:
        os.unlink(tmp)
    conv, en = {}, {}
    for item in out.replace('\n', ';').split(';'):
        p = item.strip().split('|')
        if p[0] == 'conv' and len(p) == 4:
            conv[(p[1], p[2])] = p[3] == 'true'
        elif p[0] == 'en' and len(p) == 6:
            mut = p[1].split('.')[-1]
            key = (mut, p[3] == 'true', p[4] == 'true')
            val = p[5] == 'true'
            if en.get(key, val) != val:
                raise RuntimeError('enabledAt differs between the kinds of %s' % mut)
            en[key] = val
    if rc != 0 or len(conv) != 36 or not en:
        return None, None, out[-1500:]
    return conv, en, ''


def pick_negative(tus, cap, rng):
    """every (kind, member, flat/nested) combination first, then round robin"""
    if len(tus) <= cap:
        return list(tus)
    tus = list(tus)
    rng.shuffle(tus)
    seen, first, rest = set(), [], []
    for t in tus:
        k = (t[0].kind, t[1], t[0].flat)
        if k in seen:
            rest.append(t)
        else:
            seen.add(k)
            first.append(t)
    return (first + rest)[:cap]


def scan_generated(case):
    """Layer G: every generated member function that writes must carry its guard"""
    sys.path.insert(0, core.VERIF)
    from extract import guards
    bad, n = [], 0
    for d, _, fs in os.walk(os.path.join(case.dir, 'gen')):
        for f in sorted(fs):
            if not f.endswith('.hpp'):
                continue
            try:
                rows = guards.scan_generated_header(open(os.path.join(d, f), errors='replace').read())
            except (ValueError, AssertionError, IndexError) as ex:
                bad.append({'file': f, 'error': 'cannot parse generated header: %r' % (ex,), 'parse': True})
                continue
            for r in rows:
                if not r['writes']:
                    continue
                n += 1
                want = 'cursorWriteable' if 'cursor.set_value' in r['writes'] else 'writable'
                if r['guard'] != want:
                    bad.append({'file': f, 'class': r['cls'], 'member': r['name'], 'params': r['params'],
                                'line': r['line'], 'writes': r['writes'], 'guard': r['guard'], 'expected': want})
    return n, bad


def run(chk):
    thorough = chk.tier == 'thorough'
    chk.extract()
    grep_ = guards_extract(chk)
    if chk.extract_report is not None:
        chk.extract_report.setdefault('parts', {})['guards'] = {k: grep_[k] for k in grep_ if k != 'table'}
        for k, v in grep_.get('failed', {}).items():
            chk.extract_report.setdefault('failed', {})['guards.%s' % k] = v
    if grep_.get('failed'):
        chk.log('guard extraction failures:', json.dumps(grep_['failed']))
    proved = chk.prove(MODULE, THEOREMS)
    if thorough and proved:
        chk.leanchecker(MODULE)
    conv_table = en_table = None
    if proved:
        conv_table, en_table, err = model_tables(chk)
        if conv_table is None:
            chk.report_unproved('model-eval', err)
    stats = {'static_tus': 0, 'static_probes': 0, 'static_asserts': 0, 'negative_pairs': 0, 'negative_compiles': 0,
             'runtime_requests': 0, 'runtime_driver_builds': 0, 'generated_writers_scanned': 0,
             'classes': 0, 'schemas_used': 0}
    by_kind, by_schema, neg_errors = {}, {}, {}
    nschemas = 40 if thorough else 8
    configs = W.configs_for(chk.tier)
    neg_cap = 30 if thorough else 24
    run_ = W.WireRun(chk, nschemas, configs, values_per_msg=2, ext=True, seed_salt=11)
    try:
        if run_.prepare():
            run_.gen_cases()
            correspond(chk, run_, configs, conv_table, en_table, neg_cap, stats, by_kind, by_schema, neg_errors)
    finally:
        run_.cleanup()
    W.finish_cov(chk, run_, 'one evaluation = one compile-time probe outcome (a static_assert of the detection-idiom '
                 'TU, one (class, member) negative/positive compilation pair) or one run-time read-only traversal '
                 'request, under one compiler configuration; distinct = distinct (schema, class, member, byte '
                 'combination) probes resp. (schema, message, image) traversals; every probe is non-trivial: each '
                 'negative probe has a positive twin on the mutable view in the same TU / the same TU without '
                 '-DC11_CONST')
    chk.cov['c11'] = stats
    chk.cov['probes_by_kind'] = dict(sorted(by_kind.items()))
    chk.cov['probes_by_schema'] = by_schema
    chk.cov['negative_compile_error_classes'] = dict(sorted(neg_errors.items(), key=lambda kv: -kv[1])[:12])
    chk.cov['guard_table'] = {'rows': grep_.get('rows'), 'writers': grep_.get('writers'),
                              'writers_by_guard': grep_.get('by_guard')}
    chk.cov['proved_vs_observed'] = {
        'proved': 'theorems over the extracted guard table, conv and the accessor/conversion graph, and the Lean '
                  'read-only models',
        'observed': 'compiler acceptance/rejection of every generated mutator (detection idiom, negative '
                    'compilation), is_convertible matrices, buffer unchanged + no store on a read-only page during '
                    'read-only traversals'}
    from extract import guards
    bad_rows = guards.failing_rows(grep_)
    chk.cov['guard_table']['rows_failing_python_mirror'] = len(bad_rows)
    if bad_rows and not chk.failed_obligations:
        chk.report_unproved('the Python mirror of C11.table_guarded rejects rows that the Lean theorem accepts',
                            {'rows': bad_rows[:10]})
    if chk.failed_obligations or grep_.get('failed'):
        # the property is no longer shown to hold; name the overloads of the table that break the theorem
        chk.report_unproved('theorem' if chk.failed_obligations else 'extraction',
                            {'failed': chk.failed_obligations or grep_.get('failed'),
                             'lake_errors': chk.extra.get('lake_errors'),
                             'overloads_violating_table_guarded': bad_rows[:20]})
    chk.assumptions += [
        'SFINAE, template instantiation and overload resolution are the compiler\'s: the theorems are about the '
        'extracted guard table (regex/brace-matching scraper extract/guards.py, trusted) and the graph model; the '
        'compile probes observe g++ and clang++-14 on generated schemas only',
        'a program that already holds a mutable pointer to the buffer (or const_casts) is outside the property',
        'set choices, required/optional wrappers and enums are value types: their setters modify a copy, not the '
        'buffer, and are not mutators in the sense of C11',
        'setters called with cursor_ops::skip(c) do not compile for any byte type (skip_cursor_wrapper has no '
        'set_value); this is a hard error, not a constness matter, and is not probed',
        'negative compilation accepts any compile error of the const twin provided the mutable twin of the same TU '
        'compiles; the first error line is recorded in the coverage',
    ]


def correspond(chk, run_, configs, conv_table, en_table, neg_cap, stats, by_kind, by_schema, neg_errors):
    thorough = chk.tier == 'thorough'
    cases = run_.cases
    stats['schemas_used'] = len(cases)
    # ---------------- Layer G: guards in the generated text
    for c in cases:
        n, bad = scan_generated(c)
        stats['generated_writers_scanned'] += n
        chk.cov['evaluations'] += n
        for b in bad:
            if b.get('parse'):
                chk.report_unproved('generated-header-scan', dict(b, **sch(c)))
            else:
                chk.report_failure({'kind': 'impl≠spec', 'what': 'a generated member function that writes lacks its guard',
                                    'observed': b, **sch(c),
                                    'case': {'what': 'generated-guard-missing', 'member_kind': ','.join(b['writes']),
                                             'guard': b['guard']}})
    chk.log('generated-header guard scan: %d writers' % stats['generated_writers_scanned'])
    # ---------------- (a)+(c) static TU
    static = {}
    for c in cases:
        try:
            src, probes, classes = c11gen.static_tu(c.s['package'], c.layout, en_table, conv_table)
        except RuntimeError as ex:
            chk.report_unproved('model≠spec', str(ex))
            return
        path = os.path.join(c.dir, 'c11_static.cpp')
        open(path, 'w').write(src)
        static[c.idx] = (path, probes, classes)
        stats['classes'] += len(classes)
        by_schema['case%d' % c.idx] = {'classes': len(classes), 'static_probes': len(probes),
                                       'static_asserts': src.count('static_assert(')}
    jobs = [(c, cxx, std) for c in cases for (cxx, std) in configs]

    def compile_static(job):
        c, cxx, std = job
        rc, log = c11gen.compile_only(c, static[c.idx][0], cxx, std)
        return job, rc, log
    seen_static = set()
    with cf.ThreadPoolExecutor(core.NPROC) as ex:
        for (c, cxx, std), rc, log in ex.map(compile_static, jobs):
            path, probes, classes = static[c.idx]
            stats['static_tus'] += 1
            nasserts = by_schema['case%d' % c.idx]['static_asserts']
            stats['static_asserts'] += nasserts
            stats['static_probes'] += len(probes)
            chk.cov['evaluations'] += nasserts
            for p in probes.values():
                by_kind[p.kind] = by_kind.get(p.kind, 0) + 1
                seen_static.add((c.idx, p.id))
            if rc == 0:
                continue
            fails = c11gen.parse_static_failures(log)
            if not fails:
                chk.report_unproved('static-probe-TU does not compile for a reason other than a probe',
                                    {'config': [cxx, std], 'first_error': c11gen.first_error(log),
                                     'compiler_output': log[-3000:], **sch(c)})
                continue
            for pid_, labs in sorted(fails.items()):
                p = probes.get(pid_)
                if p is None:
                    continue
                neg = [l for (k, l) in labs if k == 'NEG']
                pos = [l for (k, l) in labs if k == 'POS']
                where = p.cls.where if p.cls is not None else 'sbepp::cursor'
                ckind = p.cls.kind if p.cls is not None else 'cursor'
                if neg:
                    what = ('conversion-away-from-const' if p.kind.startswith('conversion')
                            else 'const-view-offers-mutator')
                    chk.report_failure({
                        'kind': 'impl≠spec', 'what': what, 'config': {'cxx': cxx, 'std': std},
                        'probe': p.text, 'failed_asserts': neg, 'class': where, 'member': p.member,
                        **sch(c),
                        'replay_hint': 'compile the probe with the generated header: %s -std=%s -fsyntax-only' % (cxx, std),
                        'case': {'what': what, 'probe_kind': p.kind, 'class_kind': ckind, 'member': p.member,
                                 'combo': neg[0], 'cxx': cxx, 'std': std}})
                if pos:
                    chk.report_unproved('positive twin of a probe fails (the probe proves nothing)',
                                        {'config': [cxx, std], 'probe': p.text, 'failed_asserts': pos, 'class': where,
                                         'member': p.member, **sch(c)})
    chk.cov['distinct_nontrivial'] += len(seen_static)
    chk.log('static probe TUs: %d, %d static_asserts' % (stats['static_tus'], stats['static_asserts']))
    # ---------------- (b) negative compilation
    njobs = []
    for c in cases:
        rng = random.Random(chk.seed * 7919 + c.idx * 31 + 11)
        tus = c11gen.negative_tus(c.s['package'], static[c.idx][2])
        sel = pick_negative(tus, neg_cap, rng)
        ndir = os.path.join(c.dir, 'neg')
        os.makedirs(ndir, exist_ok=True)
        if thorough:
            cfgs = [configs[(c.idx * 2 + k) % len(configs)] for k in range(2)]
        else:
            cfgs = configs
        for i, (cl, member, src) in enumerate(sel):
            p = os.path.join(ndir, 'n%d.cpp' % i)
            open(p, 'w').write(src)
            for (cxx, std) in cfgs:
                njobs.append((c, cl, member, p, src, cxx, std))
        by_schema['case%d' % c.idx]['negative_pairs'] = len(sel)
        by_schema['case%d' % c.idx]['negative_candidates'] = len(tus)

    pch_keys = sorted({(j[0].idx, j[5], j[6]) for j in njobs})
    by_idx = {c.idx: c for c in cases}
    with cf.ThreadPoolExecutor(core.NPROC) as ex:
        pch = dict(zip(pch_keys, ex.map(lambda k: c11gen.build_pch(by_idx[k[0]], k[1], k[2]), pch_keys)))
    stats['precompiled_headers'] = sum(1 for v in pch.values() if v)

    def compile_pair(job):
        c, cl, member, p, src, cxx, std = job
        flags = pch.get((c.idx, cxx, std), [])
        rc_c, log_c = c11gen.compile_only(c, p, cxx, std, ['C11_CONST'], flags)
        rc_m, log_m = c11gen.compile_only(c, p, cxx, std, (), flags)
        if flags and rc_m != 0:
            # never let a precompiled-header problem decide a probe
            rc_c, log_c = c11gen.compile_only(c, p, cxx, std, ['C11_CONST'])
            rc_m, log_m = c11gen.compile_only(c, p, cxx, std)
        return job, rc_c, log_c, rc_m, log_m
    seen_neg = set()
    with cf.ThreadPoolExecutor(core.NPROC) as ex:
        for (c, cl, member, p, src, cxx, std), rc_c, log_c, rc_m, log_m in ex.map(compile_pair, njobs):
            stats['negative_pairs'] += 1
            stats['negative_compiles'] += 2
            chk.cov['evaluations'] += 1
            k = 'neg:%s.%s' % (cl.kind, member)
            by_kind[k] = by_kind.get(k, 0) + 1
            seen_neg.add((c.idx, cl.id, member))
            mut = {'resize': 'groupResize', 'clear': 'groupClear'}.get(member, 'elemWrite')
            if en_table is not None and (en_table.get((mut, True, True)) is not False
                                         or en_table.get((mut, False, False)) is not True):
                chk.report_unproved('model≠spec', {'mutator': mut, 'model': {str(k2): v for k2, v in en_table.items()
                                                                              if k2[0] == mut}})
            if rc_m != 0:
                chk.report_unproved('positive twin of a negative-compilation probe does not compile',
                                    {'config': [cxx, std], 'class': cl.where, 'member': member, 'probe': src,
                                     'first_error': c11gen.first_error(log_m), **sch(c)})
                continue
            if rc_c == 0:
                chk.report_failure({
                    'kind': 'impl≠spec', 'what': 'const-view-offers-mutator', 'config': {'cxx': cxx, 'std': std},
                    'probe': src, 'defines': ['C11_CONST'], 'class': cl.where, 'member': member,
                    'observed': 'the translation unit compiles with a const byte type',
                    **sch(c),
                    'case': {'what': 'const-view-offers-mutator', 'probe_kind': 'negative-compile',
                             'class_kind': cl.kind, 'member': member, 'cxx': cxx, 'std': std}})
                continue
            fe = c11gen.first_error(log_c)
            cls_ = re.sub(r"[‘'`].*", '', re.sub(r'^error: ', '', fe))[:60].strip()
            neg_errors['%s: %s' % (cxx.split('-')[0], cls_)] = neg_errors.get('%s: %s' % (cxx.split('-')[0], cls_), 0) + 1
            if not c11gen.CONST_ERR.search(fe):
                chk.report_unproved('negative-compilation probe fails with an unexpected diagnostic',
                                    {'config': [cxx, std], 'class': cl.where, 'member': member, 'probe': src,
                                     'first_error': fe})
    chk.cov['distinct_nontrivial'] += len(seen_neg)
    chk.log('negative compilation pairs: %d' % stats['negative_pairs'])
    # ---------------- (d) run-time probe
    # thorough: three configurations per schema, rotating, so that every configuration runs on ~a third of the schemas
    rt_of = {c.idx: (configs if not thorough else [configs[(c.idx * 3 + k) % len(configs)] for k in range(3)])
             for c in cases}
    rjobs = [(c, cxx, std) for c in cases for (cxx, std) in rt_of[c.idx]]

    def build(job):
        c, cxx, std = job
        exe, log = c11gen.build_runtime_driver(c, cxx, std)
        return job, exe, log
    drivers = {}
    with cf.ThreadPoolExecutor(core.NPROC) as ex:
        for (c, cxx, std), exe, log in ex.map(build, rjobs):
            stats['runtime_driver_builds'] += 1
            if exe is None:
                chk.report_unproved('read-only traversal driver does not compile (a read-only call rejected on a const '
                                    'view, or a driver defect)',
                                    {'config': [cxx, std], 'first_error': c11gen.first_error(log),
                                     'compiler_output': log[-3000:], **sch(c)})
            else:
                drivers[(c.idx, cxx, std)] = exe
    chk.log('read-only traversal drivers built: %d' % len(drivers))
    bo_of = {c.idx: c.layout['byteOrder'] for c in cases}
    reqs = []
    for c in cases:
        for m in c.layout['messages']:
            if 'error' in m or not wire.fits(m) or not wire.std_data_headers(m):
                run_.stats['messages_skipped_unfit'] += 1
                continue
            run_.stats['messages'] += 1
            for k in range(run_.values_per_msg):
                rng = random.Random(hash((chk.seed, c.idx, m['name'], k, 11)) & 0xffffffff)
                v = wire.gen_message_value(rng, bo_of[c.idx], m, c.s['id'], c.s['version'], ext_ok=True)
                reqs.append((c, m, 'decode (req %s (msg %s) (value %s))' % (c.sexp, m['name'], wire.mval_sexp(v))))
    mouts = run_.model_lines([r[2] for r in reqs]) if reqs else []
    per_driver = {}
    for (c, m, _), mo in zip(reqs, mouts):
        mk = W.kvs(mo)
        if 'spec' not in mk or mk.get('conf') != 'true':
            chk.report_unproved('model-decode', {'answer': mo[:300]})
            continue
        for (cxx, std) in rt_of[c.idx]:
            exe = drivers.get((c.idx, cxx, std))
            if exe:
                per_driver.setdefault((exe, cxx, std), []).append((c, m, mk))
    seen_rt = set()

    def run_driver(item):
        (exe, cxx, std), items = item
        rc, outs = run_.run_driver(exe, ['ro %s %s' % (m['name'], mk['image']) for (c, m, mk) in items])
        return item, rc, outs
    with cf.ThreadPoolExecutor(core.NPROC) as ex:
        results = list(ex.map(run_driver, per_driver.items()))
    for ((exe, cxx, std), items), rc, outs in results:
        if rc != 0 or len(outs) != len(items):
            chk.report_unproved('driver-run', {'rc': rc, 'answers': len(outs), 'requests': len(items),
                                               'config': [cxx, std]})
            continue
        for (c, m, mk), io in zip(items, outs):
            stats['runtime_requests'] += 1
            chk.cov['evaluations'] += 1
            by_kind['runtime_traversal'] = by_kind.get('runtime_traversal', 0) + 1
            seen_rt.add((c.idx, m['name'], mk['image']))
            ik = W.kvs(io)
            line = 'ro %s %s' % (m['name'], mk['image'])
            rep = {'config': {'cxx': cxx, 'std': std}, **sch(c), 'message': m['name'],
                   'driver_line': line, 'observed': io[:1500]}
            root = len(m['level']['leaves']) + len(m['level']['groups']) + len(m['level']['datas'])
            if ik.get('unchanged') != '1' or 'FAULT' in ik.get('ro', ''):
                chk.report_failure(dict(rep, kind='impl≠spec', what='a read-only call changed the buffer',
                                        case={'what': 'read-only-call-writes', 'unchanged': ik.get('unchanged'),
                                              'ro': ik.get('ro'), 'cxx': cxx, 'std': std, 'root_members': root}))
                continue
            sts = [ik.get('rast'), ik.get('curst'), ik.get('exst')] + ik.get('ro', '').split(',')
            # values only: sizes computed through a cursor are C04/C05 matter (known finding on member-less messages)
            exp_cur = re.sub(r'(^|;)size=\d+$', '', W.strip_sizes(mk['spec']))
            cur = ik.get('cur', '')
            if any(s != 'ok' for s in sts) or ik.get('rosame') != '1':
                # assertion / UB during a read-only traversal: not a C11 matter, but the probe did not complete
                kf = dict(rep, kind='impl≠spec', what='read-only traversal did not complete',
                          case={'what': 'read-only-traversal-status', 'status': ','.join(str(s) for s in sts),
                                'cxx': cxx, 'std': std, 'root_members': root})
                chk.report_failure(kf)
            elif ik.get('ra') != mk['spec'] or not cur.startswith(exp_cur):
                # (the cursor's end position is C04/C05 matter and is not judged here)
                chk.report_failure(dict(rep, kind='impl≠spec', what='const-view getters return other values than the '
                                        'specification', diff=W.first_diff(ik.get('ra', ''), mk['spec']),
                                        case={'what': 'const-view-decode', 'cxx': cxx, 'std': std, 'root_members': root}))
            if ik.get('ctl') != 'FAULT':
                chk.report_unproved('read-only-page control did not fire (the run-time probe cannot see writes)',
                                    dict(rep, ctl=ik.get('ctl')))
            if len(chk.cov['samples']) < 3:
                chk.sample({'message': m['name'], 'driver_line': line[:160], 'answer': io[-120:]})
    chk.cov['distinct_nontrivial'] += len(seen_rt)
    chk.log('read-only traversal requests: %d' % stats['runtime_requests'])
    # samples of compile-time probes
    for c in cases[:1]:
        _, probes, classes = static[c.idx]
        for p in list(probes.values())[:2]:
            chk.sample({'probe_kind': p.kind, 'class': p.cls.where if p.cls else 'cursor', 'text': p.text[:600]})


def replay(chk, rep):
    """re-run the recorded probe against the current tree: prints what the
    specification demands and what the compilers / the generated code do now"""
    from .. import sbeppc
    import shutil
    import tempfile
    print(json.dumps({k: rep[k] for k in rep if k not in ('schema_xml', 'schema_sexp', 'probe', 'compiler_output')},
                     indent=1)[:3000])
    if 'schema_xml' not in rep:
        print('no schema in the replay (theorem / extraction failure): run ./check C11')
        return 1
    exe, log = sbeppc.build(chk)
    if exe is None:
        print(log[-2000:])
        return 1
    cfg = rep.get('config', {'cxx': 'g++', 'std': 'c++17'})
    if isinstance(cfg, list):
        cfg = {'cxx': cfg[0], 'std': cfg[1]}
    d = tempfile.mkdtemp(dir=core.BUILD)
    try:
        xml = os.path.join(d, 'schema.xml')
        open(xml, 'w').write(rep['schema_xml'])
        rc, out = sbeppc.run(exe, xml, os.path.join(d, 'gen'))
        print('sbeppc rc=%s %s' % (rc, out[:300]))
        pkg = re.search(r'package="(\w+)"', rep['schema_xml']).group(1)

        class C:
            dir = d
            s = {'package': pkg}
            layout = None
        kind = rep.get('case', {}).get('probe_kind')
        if rep.get('probe') and kind == 'negative-compile':
            p = os.path.join(d, 'probe.cpp')
            open(p, 'w').write(rep['probe'])
            rc_c, log_c = c11gen.compile_only(C, p, cfg['cxx'], cfg['std'], ['C11_CONST'])
            rc_m, log_m = c11gen.compile_only(C, p, cfg['cxx'], cfg['std'])
            print('spec : the const twin (-DC11_CONST) must not compile, the mutable twin must compile')
            print('impl : const twin %s; mutable twin %s' % (
                'rejected: ' + c11gen.first_error(log_c) if rc_c else 'COMPILES', 'compiles' if rc_m == 0 else 'REJECTED'))
            return 1 if (rc_c == 0 or rc_m != 0) else 0
        model = chk.model_exe()
        if model is None or 'schema_sexp' not in rep:
            print('cannot rebuild the layout (model driver / schema_sexp missing)')
            return 1
        _, lay = core.sh([model], input='layout ' + rep['schema_sexp'] + '\n')
        C.layout = json.loads(lay.splitlines()[0])
        if rep.get('driver_line'):
            drv, log = c11gen.build_runtime_driver(C, cfg['cxx'], cfg['std'])
            if drv is None:
                print('impl : the read-only traversal driver does not compile:\n' + log[-1500:])
                return 1
            _, o = core.sh([drv], input=rep['driver_line'] + '\n')
            print('spec : unchanged=1 ro=ok,ok,ok (no store on the read-only mapping) ctl=FAULT')
            k = W.kvs(o)
            print('impl : ' + ' '.join('%s=%s' % (x, k.get(x)) for x in ('rast', 'curst', 'exst', 'unchanged', 'ro', 'rosame', 'ctl')))
            return 0 if (k.get('unchanged') == '1' and k.get('ro') == 'ok,ok,ok') else 1
        src, probes, _ = c11gen.static_tu(pkg, C.layout)
        p = os.path.join(d, 'static.cpp')
        open(p, 'w').write(src)
        rc, log = c11gen.compile_only(C, p, cfg['cxx'], cfg['std'])
        fails = c11gen.parse_static_failures(log)
        bad = 0
        for pid_, labs in sorted(fails.items()):
            pr = probes.get(pid_)
            if pr is None:
                continue
            if rep.get('member') in (None, pr.member):
                print('impl : probe %d (%s %s.%s) fails: %s' % (pid_, pr.kind, pr.cls.where if pr.cls else 'cursor',
                                                                pr.member, labs))
                bad += 1
        print('spec : every static_assert of the probe TU holds; impl: rc=%s, %d failing probes' % (rc, len(fails)))
        if rc != 0 and not fails:
            print(log[-1500:])
        return 1 if (bad or rc != 0) else 0
    finally:
        shutil.rmtree(d, ignore_errors=True)
