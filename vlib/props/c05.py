"""C05 - all size computations agree with the encoded size."""
import os

from .. import core, wirecheck as W
from . import c02

MODULE = 'Sbepp.Properties.C05'
THEOREMS = [
    'Sbepp.Properties.C05.level_size',
    'Sbepp.Properties.C05.group_size',
    'Sbepp.Properties.C05.data_size',
    'Sbepp.Properties.C05.cursor_size_after_encode',
    'Sbepp.Properties.C05.flat_level_size',
    'Sbepp.Properties.C05.trait_size_eq',
]


def sizes_only(obs):
    import re
    out = []
    for o in obs.split(';'):
        m = re.search(r'^(.*?)(?:=<[0-9a-f]*>)?,sz=(\d+)$', o)
        if m:
            out.append(m.group(1).split('=')[0].split(':n')[0] + ':sz=' + m.group(2))
        elif re.search(r'\]:sz=\d+$', o) or o.startswith('size=') or o.startswith('trait='):
            out.append(o)
    return ';'.join(out)


def judge(ik, mk):
    """sizes only: every group's, entry's and data member's size_bytes, the message size (random access and
    cursor), the trait-level size"""
    probs = []
    ra = ik.get('ra', '')
    size = mk['spec'].rsplit('size=', 1)[-1]
    exp = sizes_only(mk['spec']) + ';trait=' + size
    if ';trait=' not in ra:
        exp = sizes_only(mk['spec'])
    if ik.get('rast') != 'ok' or sizes_only(ra) != exp:
        probs.append(('impl≠spec', {'what': 'size_bytes', 'status': ik.get('rast'),
                                    'diff': W.first_diff(sizes_only(ra), exp),
                                    'case': {'what': 'sizes', 'access': 'random', 'status': ik.get('rast')}}))
    cur = ik.get('cur', '')
    if ik.get('curst') != 'ok' or not cur.endswith('size=%s;cursor=%s' % (size, size)):
        probs.append(('impl≠spec', {'what': 'cursor-based size', 'tail': cur[-80:], 'expected': size,
                                    'case': {'what': 'decode', 'access': 'cursor', 'status': ik.get('curst')}}))
    if not probs and (sizes_only(mk['model']) != sizes_only(mk['spec']) or mk.get('traitsize') != size):
        probs.append(('impl≠model (implementation agrees with the specification)',
                      {'model': sizes_only(mk['model'])[:300], 'traitsize': mk.get('traitsize')}))
    return probs


def run(chk):
    chk.extract()
    theorems = list(THEOREMS)
    extra = []
    flat = None
    try:
        from . import c05flat as flat  # provided with C12
        fmod, fths = flat.flat_size_obligations()
        theorems += fths
        extra = [fmod]
    except (ImportError, AttributeError):
        flat = None
    proved = chk.prove(MODULE, theorems, extra_targets=extra)
    if chk.tier == 'thorough' and proved:
        chk.leanchecker(MODULE)
    n = 120 if chk.tier == 'thorough' else 32
    run = W.WireRun(chk, n, W.configs_for(chk.tier), values_per_msg=3 if chk.tier == 'quick' else 6,
                    ext=False, seed_salt=5)
    try:
        if run.prepare():
            run.gen_cases()
            run.build_drivers()
            W.decode_check(chk, run, judge)
    finally:
        run.cleanup()
    if flat is not None:
        ev0 = chk.cov['evaluations']
        nflat = flat.flat_size_correspond(chk) or 0
        chk.cov['evaluations'] = max(chk.cov['evaluations'], ev0 + (nflat if chk.cov['evaluations'] == ev0 else 0))
    W.finish_cov(chk, run, 'one evaluation = one reference image whose every size (message, each group, each entry, '
                 'each data member, cursor-based size after full traversal, trait-level size_bytes(total counts, '
                 'total data)) is queried through the real generated code and compared with the image; plus the '
                 'header-value boundary grid for flat_group_base::size_bytes over all 16 dimension type pairs')
    if chk.failed_obligations and not chk.violations:
        chk.report_unproved('theorem', chk.failed_obligations)
    chk.assumptions += ['Gen.SizeFormula (model of the generated trait-level formula) is tied to the real generated '
                        'message_traits<>::size_bytes by the differential check']


replay = c02.replay
