"""C13 - <data> views (dynamic_array_ref) behave like a std::vector bounded by
their buffer.

Request/answer format: lean/Sbepp/Drive/C13.lean, harness/c13_dyn.cpp.
One request line = one whole operation sequence from an initial memory image.
Three values per request: impl (C++), model (Lean transliteration), spec (Lean
std::vector specification) - plus the harness' own std::vector.
"""
import collections
import multiprocessing
import multiprocessing.pool
import os
import random
import subprocess

MODULE = 'Sbepp.Properties.C13'
THEOREMS = [
    'Sbepp.Properties.C13.size_spec',
    'Sbepp.Properties.C13.size_bytes_spec',
    'Sbepp.Properties.C13.op_refine',
    'Sbepp.Properties.C13.op_frame',
    'Sbepp.Properties.C13.valid_for_vector_valid_here',
    'Sbepp.Properties.C13.erase_to_end_valid',
    'Sbepp.Properties.C13.ops_refine',
    'Sbepp.Properties.C13.ops_frame',
    'Sbepp.Properties.C13.bounded_by_buffer',
    'Sbepp.Properties.C13.push_back_bounded',
    'Sbepp.Rt.DynArray.getN_putN',
    'Sbepp.Rt.DynArray.getN_lt',
    'Sbepp.Rt.DynArray.wrapLen_eq_wrap',
    'Sbepp.Spec.Vec.apply_post',
    'Sbepp.Spec.Vec.length_apply',
    # the same statements for the definitions extracted from sbepp.hpp (extract/methods_dynarray.py) ...
    'Sbepp.Properties.C13.size_spec_extracted',
    'Sbepp.Properties.C13.size_bytes_spec_extracted',
    'Sbepp.Properties.C13.op_refine_extracted',
    'Sbepp.Properties.C13.erase_to_end_valid_extracted',
    'Sbepp.Properties.C13.ops_refine_extracted',
    'Sbepp.Properties.C13.bounded_by_buffer_extracted',
    'Sbepp.Properties.C13.push_back_bounded_extracted',
    # ... and the tie: extracted member function = hand model, one theorem per member function
    'Sbepp.Tie.DynArray.get_value_tie',
    'Sbepp.Tie.DynArray.sbe_size_tie',
    'Sbepp.Tie.DynArray.size_tie',
    'Sbepp.Tie.DynArray.data_unchecked_tie',
    'Sbepp.Tie.DynArray.data_checked_tie',
    'Sbepp.Tie.DynArray.data_tie',
    'Sbepp.Tie.DynArray.begin_tie',
    'Sbepp.Tie.DynArray.end_tie',
    'Sbepp.Tie.DynArray.empty_tie',
    'Sbepp.Tie.DynArray.operator_index_tie',
    'Sbepp.Tie.DynArray.front_tie',
    'Sbepp.Tie.DynArray.size_bytes_tie',
    'Sbepp.Tie.DynArray.resize_n_di_tie',
    'Sbepp.Tie.DynArray.clear_tie',
    'Sbepp.Tie.DynArray.resize_n_v_tie',
    'Sbepp.Tie.DynArray.resize_n_tie',
    'Sbepp.Tie.DynArray.push_back_tie',
    'Sbepp.Tie.DynArray.pop_back_tie',
    'Sbepp.Tie.DynArray.erase_it_tie',
    'Sbepp.Tie.DynArray.erase_it_it_tie',
    'Sbepp.Tie.DynArray.insert_it_v_tie',
    'Sbepp.Tie.DynArray.insert_it_n_v_tie',
    'Sbepp.Tie.DynArray.insert_impl_input_tie',
    'Sbepp.Tie.DynArray.insert_impl_forward_tie',
    'Sbepp.Tie.DynArray.insert_it_in_in_tie',
    'Sbepp.Tie.DynArray.insert_it_il_tie',
    'Sbepp.Tie.DynArray.assign_n_v_tie',
    'Sbepp.Tie.DynArray.assign_in_in_tie',
    'Sbepp.Tie.DynArray.assign_il_tie',
    'Sbepp.Tie.DynArray.assign_string_tie',
    'Sbepp.Tie.DynArray.assign_range_tie',
    'Sbepp.Tie.DynArray.assign_range_SBEPP_HAS_RANGES_tie',
    'Sbepp.Tie.DynArray.stepE_tie',
    'Sbepp.Tie.DynArray.runOpsE_tie',
]

SIGMA = [0x61, 0x80, 0xff]
LENS = {'u8': 1, 'u16': 2, 'u32': 4, 'u64': 8}
BOS = ['le', 'be']
ELEMS = ['char', 'u8', 'i8']
COMBOS = [(l, b) for l in LENS for b in BOS]
SLACK = 16          # bytes of the memory block after the view (canary)


# ------------------------------------------------------------------ ops
def new_len(n, op):
    nm = op[0]
    if nm in ('push', 'ins'):
        return n + 1
    if nm in ('pop', 'erase'):
        return n - 1
    if nm == 'clear':
        return 0
    if nm == 'erasr':
        return n - (op[2] - op[1])
    if nm == 'insn':
        return n + op[2]
    if nm in ('insr', 'insi', 'insl'):
        return n + len(op[2])
    if nm in ('rsz', 'rszd', 'rszv', 'asgn'):
        return op[1]
    return len(op[1])           # asgr asgl asgs asgrr


def hx(bs):
    return ''.join('%02x' % b for b in bs)


def fmt_op(op):
    nm = op[0]
    if nm == 'push':
        return 'push(%02x)' % op[1]
    if nm in ('pop', 'clear'):
        return nm + '()'
    if nm in ('erase', 'rsz', 'rszd'):
        return '%s(%d)' % (nm, op[1])
    if nm == 'erasr':
        return 'erasr(%d,%d)' % (op[1], op[2])
    if nm in ('ins', 'rszv', 'asgn'):
        return '%s(%d,%02x)' % (nm, op[1], op[2])
    if nm == 'insn':
        return 'insn(%d,%d,%02x)' % (op[1], op[2], op[3])
    if nm in ('insr', 'insi', 'insl'):
        return '%s(%d,%s)' % (nm, op[1], hx(op[2])) if op[2] else '%s(%d)' % (nm, op[1])
    return '%s(%s)' % (nm, hx(op[1]))


def ops_full(n, c):
    """every operation kind, every valid position, values from the alphabet;
    results may exceed the capacity by one (the bound itself is tested)"""
    o = [('push', v) for v in SIGMA]
    if n > 0:
        o.append(('pop',))
    o.append(('clear',))
    o += [('erase', i) for i in range(n)]
    o += [('erasr', i, j) for i in range(n + 1) for j in range(i, n + 1)]
    for i in range(n + 1):
        o += [('ins', i, v) for v in SIGMA]
        o += [('insn', i, k, SIGMA[(i + k) % 3]) for k in (0, 1, 2)]
        for nm in ('insr', 'insi', 'insl'):
            o += [(nm, i, xs) for xs in ((), (SIGMA[0],), (SIGMA[1], SIGMA[2]))]
    for k in range(c + 2):
        o += [('rsz', k), ('rszd', k), ('rszv', k, SIGMA[k % 3]), ('asgn', k, SIGMA[(k + 1) % 3])]
    for nm in ('asgr', 'asgl', 'asgs', 'asgrr'):
        for L in range(0, min(c + 1, 4) + 1):
            o.append((nm, tuple(SIGMA[(L + t) % 3] for t in range(L))))
    return o


def ops_thin(n, c):
    """every operation kind and every valid position, one value per operation"""
    o = [('push', SIGMA[n % 3])]
    if n > 0:
        o.append(('pop',))
    o.append(('clear',))
    o += [('erase', i) for i in range(n)]
    o += [('erasr', i, j) for i in range(n + 1) for j in range(i, n + 1)]
    for i in range(n + 1):
        o.append(('ins', i, SIGMA[(i + 1) % 3]))
        o += [('insn', i, k, SIGMA[(i + k) % 3]) for k in (0, 2)]
        o.append(('insr', i, (SIGMA[1], SIGMA[2])))
        o.append(('insi', i, (SIGMA[2], SIGMA[0])))
        o.append(('insl', i, (SIGMA[0],)))
    for k in sorted({0, max(n - 1, 0), n, n + 1, c, c + 1}):
        o += [('rsz', k), ('rszd', k), ('rszv', k, SIGMA[k % 3]), ('asgn', k, SIGMA[(k + 1) % 3])]
    for nm in ('asgr', 'asgl', 'asgs', 'asgrr'):
        for L in sorted({0, 2, min(c + 1, 4)}):
            o.append((nm, tuple(SIGMA[(L + t) % 3] for t in range(L))))
    return o


def sequences(n, c, depth, alphabet, first=None):
    """all non-empty sequences up to `depth`; a sequence ends after an
    operation whose result exceeds the capacity.  `first`: only sequences that
    start with the first-th operation of the alphabet (to split work units)"""
    out = []

    def rec(n, d, prefix, only=None):
        ops = alphabet(n, c)
        if only is not None:
            ops = ops[only:only + 1]
        for op in ops:
            seq = prefix + [op]
            out.append(seq)
            m = new_len(n, op)
            if d > 1 and m <= c:
                rec(m, d - 1, seq)
    rec(n, depth, [], first)
    return out


def encode_len(n, w, bo):
    return list(n.to_bytes(w, 'big' if bo == 'be' else 'little'))


def init_image(contents, c, w, bo):
    n = len(contents)
    return (encode_len(n, w, bo) + list(contents) + [0xe0 + i % 16 for i in range(c - n)]
            + [0xc0 + i % 16 for i in range(SLACK)])


def req_line(ln, bo, elem, c, contents, seq):
    w = LENS[ln]
    return 'dyn len=%s bo=%s elem=%s cap=%d init=%s ops=%s' % (
        ln, bo, elem, w + c, hx(init_image(contents, c, w, bo)), ';'.join(fmt_op(o) for o in seq))


def canonical(n):
    return tuple(SIGMA[i % 3] for i in range(n))


def all_contents(n):
    if n == 0:
        return [()]
    return [x + (s,) for x in all_contents(n - 1) for s in SIGMA]


def random_seq(rng, n, c, length):
    """valid-for-a-vector operations; ~all fit, the last one may overflow"""
    seq = []
    for step in range(length):
        last = step == length - 1
        room = c - n
        ch = rng.random()
        if last and rng.random() < 0.3:
            room = room + 1 + rng.randrange(3)         # may exceed the capacity
        kind = rng.choice(['push', 'pop', 'clear', 'erase', 'erasr', 'ins', 'insn', 'insr', 'insi', 'insl',
                           'rsz', 'rszv', 'rszd', 'asgn', 'asgr', 'asgl', 'asgs', 'asgrr',
                           'ins', 'insn', 'insr', 'insi', 'erase', 'erasr', 'push'])
        v = rng.choice(SIGMA + [0x00, 0x01, 0x7f]) if ch < 0.5 else rng.randrange(256)

        def rvals(k, nonzero=False):
            return tuple(rng.randrange(1 if nonzero else 0, 256) for _ in range(k))
        op = None
        if kind == 'push' and room >= 1:
            op = ('push', v)
        elif kind == 'pop' and n > 0:
            op = ('pop',)
        elif kind == 'clear' and rng.random() < 0.15:
            op = ('clear',)
        elif kind == 'erase' and n > 0:
            op = ('erase', rng.choice([0, n - 1, rng.randrange(n)]))
        elif kind == 'erasr':
            i = rng.choice([0, n, rng.randrange(n + 1)])
            j = rng.choice([i, n, rng.randrange(i, n + 1)])
            if j - i > 3 and rng.random() < 0.7:
                j = i + rng.randrange(3)
            op = ('erasr', i, j)
        elif kind == 'ins' and room >= 1:
            op = ('ins', rng.choice([0, n, rng.randrange(n + 1)]), v)
        elif kind == 'insn':
            k = rng.randrange(0, min(room, 4) + 1)
            op = ('insn', rng.choice([0, n, rng.randrange(n + 1)]), k, v)
        elif kind in ('insr', 'insi', 'insl'):
            k = rng.randrange(0, min(room, 4) + 1)
            op = (kind, rng.choice([0, n, rng.randrange(n + 1)]), rvals(k))
        elif kind in ('rsz', 'rszd'):
            op = (kind, rng.randrange(0, n + room + 1))
        elif kind in ('rszv', 'asgn'):
            op = (kind, rng.randrange(0, n + room + 1), v)
        elif kind in ('asgr', 'asgrr'):
            op = (kind, rvals(rng.randrange(0, min(n + room, 12) + 1)))
        elif kind == 'asgl':
            op = (kind, rvals(rng.randrange(0, min(n + room, 4) + 1)))
        elif kind == 'asgs':
            op = (kind, rvals(rng.randrange(0, min(n + room, 12) + 1), nonzero=True))
        if op is None:
            continue
        seq.append(op)
        n = new_len(n, op)
        if n > c:
            break
    return seq


# ------------------------------------------------------------------ tasks
def task_lines(task):
    """deterministic list of request lines of one work unit"""
    kind = task[0]
    lines = []
    if kind == 'exh':
        _, combos, elem_rot, c, contents, depth, alpha, rotate, first = task
        alphabet = ops_full if alpha == 'full' else ops_thin
        seqs = sequences(len(contents), c, depth, alphabet, first)
        k = first or 0
        for seq in seqs:
            if rotate:
                # `rotate` of the 8 (length type, byte order) combinations per sequence
                for j in range(rotate):
                    ln, bo = combos[(k + (3 * j if rotate < len(combos) else j)) % len(combos)]
                    lines.append(req_line(ln, bo, ELEMS[(k + j) % 3], c, contents, seq))
                k += 1
            else:
                for (ln, bo) in combos:
                    for e in elem_rot:
                        lines.append(req_line(ln, bo, e, c, contents, seq))
    elif kind == 'rnd':
        _, seed, ln, bo, elem, count = task
        rng = random.Random(seed)
        for _ in range(count):
            c = rng.choice([3, 5, 8, 13, 24])
            n = rng.randrange(c + 1)
            contents = tuple(rng.randrange(256) for _ in range(n))
            seq = random_seq(rng, n, c, rng.randrange(20, 61))
            lines.append(req_line(ln, bo, elem, c, contents, seq))
    elif kind == 'lines':
        lines = list(task[1])
    return lines


def make_tasks(tier, seed):
    thorough = tier == 'thorough'
    C = 4 if thorough else 3
    tasks = []
    # A: depth 1, every state (all contents), full alphabet, all combos, all element types
    for c in range(C + 1):
        for n in range(c + 1):
            for contents in all_contents(n):
                tasks.append(('exh', COMBOS, ELEMS if thorough else ['char'], c, contents, 1, 'full', 0, None))
    # B: depth 2, canonical contents, full alphabet, all combos
    for c in range(C + 1):
        for n in range(c + 1):
            for k, (ln, bo) in enumerate(COMBOS):
                tasks.append(('exh', [(ln, bo)], [ELEMS[(k + c + n) % 3]], c, canonical(n), 2, 'full', 0, None))
    # B': depth 2, every state, thin alphabet, 1 (quick) / 4 (thorough) of the combos per sequence, rotating
    for c in range(C + 1):
        for n in range(c + 1):
            for contents in all_contents(n):
                tasks.append(('exh', COMBOS, None, c, contents, 2, 'thin', 4 if thorough else 1, None))
    # C: depth 3, canonical contents, thin alphabet, 1 (quick) / 8 = all (thorough) of the combos per
    # sequence, rotating; one work unit per first operation
    for c in range(C + 1):
        for n in range(c + 1):
            for first in range(len(ops_thin(n, c))):
                tasks.append(('exh', COMBOS, None, c, canonical(n), 3, 'thin', 8 if thorough else 1, first))
    # D: long random sequences
    per = 120 if not thorough else 1200
    k = 0
    for (ln, bo) in COMBOS:
        for e in ELEMS:
            for part in range(1 if not thorough else 4):
                tasks.append(('rnd', seed * 1000003 + 7919 * k + 13, ln, bo, e, per // (1 if not thorough else 4)))
                k += 1
    # E: boundary grid: lengths next to the maximum of the length type, and the
    # length-type wrap (compared against the model only: outside the hypotheses)
    tasks.append(('lines', boundary_lines()))
    return tasks


def boundary_lines():
    out = []
    for bo in BOS:
        for e in ELEMS:
            # u8: 253..255 elements
            for n in (253, 254):
                contents = tuple((i * 7 + 1) % 256 for i in range(n))
                for seq in ([('push', 0x61)], [('push', 0x61), ('push', 0x62)], [('ins', 0, 0x80)],
                            [('insn', 100, 255 - n, 0xff)], [('insr', n, (1,) * (255 - n))],
                            [('insi', 0, (1,) * (255 - n))], [('rsz', 255)], [('rszv', 255, 9)],
                            [('asgn', 255, 3)], [('asgr', tuple(range(1, 256)))], [('asgs', tuple(range(1, 256)))],
                            [('erasr', 0, n)], [('erasr', 10, n)], [('erase', n - 1)], [('pop',)] * 3,
                            # beyond the length type: model only
                            [('push', 1)] * 3, [('insn', 0, 10, 5)], [('insr', 3, (1,) * 9)],
                            [('insi', 3, (1,) * 9)], [('asgr', (7,) * 257)], [('asgs', (7,) * 258)],
                            [('asgrr', (7,) * 256)]):
                    out.append(req_line('u8', bo, e, 300, contents, seq))
        # u16: 65534 elements
        contents = tuple((i * 13 + 5) % 256 for i in range(65534))
        for seq in ([('push', 0x61)], [('push', 0x61), ('push', 0x62)], [('ins', 0, 0x80)], [('erasr', 1, 65534)],
                    [('insn', 65534, 1, 7)], [('rsz', 65535)], [('insn', 65534, 2, 7)]):
            out.append(req_line('u16', bo, 'char', 65600, contents, seq))
    return out


# ------------------------------------------------------------------ judging
def kv(line):
    return dict(x.split('=', 1) for x in line.split() if '=' in x)


def fields(s):
    return s.split(';')


def match_wild(have, want):
    """hex strings; `??` in want matches any byte"""
    if len(have) != len(want):
        return False
    if '?' not in want:
        return have == want
    return all(want[i] == '?' or want[i] == have[i] for i in range(len(want)))


def judge(req, obs, spec):
    """obs: 'buf;rets;flags;size;sb' (impl or model); spec: 'contents;rets;flags;len;peak'.
    None if the observation is what the specification requires, else a reason."""
    if obs == 'OOB':
        return 'memory outside the block was modified'
    o = fields(obs)
    s = fields(spec)
    if len(o) != 5 or len(s) != 5:
        return 'malformed answer'
    sflags = s[2].split(',') if s[2] else []
    oflags = o[2].split(',') if o[2] else []
    orets = o[1].split(',') if o[1] else []
    srets = s[1].split(',') if s[1] else []
    bad = [i for i, f in enumerate(sflags) if f != 'ok']
    if bad:
        k = bad[0]
        if any(f != 'ok' for f in oflags[:k]):
            return 'op %d: unexpected %s' % (oflags[:k].index([f for f in oflags[:k] if f != 'ok'][0]),
                                             [f for f in oflags[:k] if f != 'ok'][0])
        if orets[:k] != srets[:k]:
            return 'returned iterators differ before op %d' % k
        return None
    for i, f in enumerate(oflags):
        if f != 'ok':
            return 'op %d: %s on an operation that is valid for a vector and fits' % (i, f)
    if orets != srets:
        return 'returned iterators differ: %s vs %s' % (o[1], s[1])
    w = LENS[req['len']]
    n = int(s[3])
    peak = int(s[4])
    buf = o[0]
    init = req['init']
    if len(buf) != len(init):
        return 'memory block length changed'
    if o[3] != s[3]:
        return 'size() = %s, vector size = %s' % (o[3], s[3])
    if o[4] != str(w + n):
        return 'size_bytes = %s, expected %d' % (o[4], w + n)
    if buf[:2 * w] != hx(encode_len(n, w, req['bo'])):
        return 'length prefix %s does not encode %d' % (buf[:2 * w], n)
    if not match_wild(buf[2 * w:2 * (w + n)], s[0]):
        return 'payload %s, vector contents %s' % (buf[2 * w:2 * (w + n)], s[0])
    if buf[2 * (w + peak):] != init[2 * (w + peak):]:
        return 'a byte beyond the payload area in use (peak %d) was modified' % peak
    return None


def run_exe(exe, lines):
    p = subprocess.run([exe], input='\n'.join(lines) + '\n', stdout=subprocess.PIPE, stderr=subprocess.STDOUT,
                       text=True, timeout=1800)
    return p.returncode, p.stdout.splitlines()


def evaluate(model, exes, lines):
    """-> dict with counts, failures (impl != spec), corr (impl == spec != model), vecbad"""
    res = {'lines': len(lines), 'evals': 0, 'ops': 0, 'hist': collections.Counter(), 'fail': [], 'corr': [],
           'vec': [], 'err': [], 'bound': 0, 'valid': 0, 'samples': []}
    if not lines:
        return res
    rc, mout = run_exe(model, lines)
    if rc != 0 or len(mout) != len(lines):
        res['err'].append('model driver rc=%s lines=%d/%d' % (rc, len(mout), len(lines)))
        return res
    reqs = []
    mstr = []
    sstr = []
    mverdict = []
    expect_vec = []
    for line, m in zip(lines, mout):
        r = kv(line)
        reqs.append(r)
        ms = m.split(' ')
        if len(ms) != 2 or not ms[0].startswith('model=') or not ms[1].startswith('spec='):
            res['err'].append('model answer %r for %r' % (m, line))
            mstr.append(None); sstr.append(None); mverdict.append('malformed'); expect_vec.append(None)
            continue
        mo, sp = ms[0][6:], ms[1][5:]
        mstr.append(mo)
        sstr.append(sp)
        mverdict.append(judge(r, mo, sp) if sp != 'bad-init' else None)
        s = fields(sp)
        sflags = s[2].split(',') if len(s) == 5 and s[2] else []
        if len(s) == 5 and all(f == 'ok' for f in sflags):
            res['valid'] += 1
            expect_vec.append((s[0], s[1], s[3]))
        else:
            if len(s) == 5:
                res['bound'] += 1
            expect_vec.append(None)
        names = [o.split('(')[0] for o in r.get('ops', '').split(';') if o]
        res['ops'] += len(names)
        res['hist'].update(names)
    if res['err']:
        return res
    res['samples'] = [{'request': lines[i][:300], 'model_and_spec': mout[i][:300]} for i in (0, len(lines) - 1)]
    for cfg, exe in exes:
        if len(cfg) > 2 and cfg[2] == 'unchecked':
            # without assertions only valid, fitting sequences are defined behaviour
            sel = [k for k in range(len(lines)) if expect_vec[k] is not None and mverdict[k] is None]
        else:
            sel = list(range(len(lines)))
        if not sel:
            continue
        rc, iout = run_exe(exe, [lines[k] for k in sel])
        if rc != 0 or len(iout) != len(sel):
            res['err'].append('harness %s rc=%s lines=%d/%d' % (cfg, rc, len(iout), len(sel)))
            continue
        for idx, i in zip(sel, iout):
            res['evals'] += 1
            sp = i.split(' ')
            if len(sp) != 2 or not sp[0].startswith('impl=') or not sp[1].startswith('vec='):
                res['err'].append('harness answer %r for %r' % (i, lines[idx]))
                continue
            io, vo = sp[0][5:], sp[1][4:]
            # a model outcome `UB` (precondition of a standard algorithm violated, or an access outside
            # the memory block) puts no constraint on the implementation
            same = io == mstr[idx] or ',UB' in (',' + mstr[idx].split(';')[2])
            if sstr[idx] == 'bad-init':
                verdict = None
            elif same:
                verdict = mverdict[idx]
            else:
                verdict = judge(reqs[idx], io, sstr[idx])
            rec = {'line': lines[idx], 'config': cfg, 'impl': i, 'model': mout[idx]}
            if verdict is not None:
                rec['why'] = verdict
                if len(res['fail']) < 20:
                    res['fail'].append(rec)
                else:
                    res['fail_more'] = res.get('fail_more', 0) + 1
            elif not same:
                if len(res['corr']) < 20:
                    res['corr'].append(rec)
            ev = expect_vec[idx]
            if ev is not None and verdict is None:
                v = vo.split(';')
                if len(v) != 3 or not match_wild(v[0], ev[0]) or v[1] != ev[1] or v[2] != ev[2]:
                    if len(res['vec']) < 20:
                        res['vec'].append(rec)
    return res


_G = {}


def _worker(task):
    try:
        return evaluate(_G['model'], _G['exes'], task_lines(task))
    except Exception as e:  # never lose a work unit silently
        return {'lines': 0, 'evals': 0, 'ops': 0, 'hist': {}, 'fail': [], 'corr': [], 'vec': [],
                'err': ['worker: %r on %r' % (e, task[:1])], 'bound': 0, 'valid': 0, 'samples': []}


# ------------------------------------------------------------------ shrinking
def split_ops(line):
    r = kv(line)
    ops = [o for o in r.get('ops', '').split(';') if o]
    head = line[:line.index(' ops=')] if ' ops=' in line else line
    return head, ops


def fails(model, exe_cfg, line):
    r = evaluate(model, [exe_cfg], [line])
    return bool(r['fail']) and not r['err'], r


def shrink(model, exe_cfg, line):
    """shortest failing prefix, then drop operations while it still fails"""
    head, ops = split_ops(line)
    best = ops
    for k in range(1, len(ops) + 1):
        ok, _ = fails(model, exe_cfg, head + ' ops=' + ';'.join(ops[:k]))
        if ok:
            best = ops[:k]
            break
    changed = True
    while changed and len(best) > 1:
        changed = False
        for i in range(len(best) - 1):          # the last op is the diverging one
            cand = best[:i] + best[i + 1:]
            ok, _ = fails(model, exe_cfg, head + ' ops=' + ';'.join(cand))
            if ok:
                best = cand
                changed = True
                break
    final = head + ' ops=' + ';'.join(best)
    _, r = fails(model, exe_cfg, final)
    return final, best, r


def length_before_last(model, line):
    """vector length before the last (diverging) operation, from the spec side"""
    head, ops = split_ops(line)
    rc, out = run_exe(model, [head + ' ops=' + ';'.join(ops[:-1])])
    try:
        return int(fields(out[0].split(' ')[1][5:])[3])
    except Exception:
        return None


def make_case(model, line, cfg, ops):
    r = kv(line)
    last = ops[-1] if ops else ''
    name = last.split('(')[0]
    args = last[last.index('(') + 1:-1].split(',') if '(' in last and last[-2:] != '()' else []
    case = {'op': name, 'op_index': len(ops) - 1, 'n_ops': len(ops), 'len': r.get('len'), 'bo': r.get('bo'),
            'elem': r.get('elem'), 'cxx': cfg[0], 'std': cfg[1], 'build': cfg[2] if len(cfg) > 2 else 'checked',
            'args': ','.join(args)}
    n = length_before_last(model, line)
    if n is not None:
        case['size_before'] = n
        if name == 'erasr' and len(args) == 2:
            case['first'] = 'begin' if args[0] == '0' else ('end' if int(args[0]) == n else 'middle')
            case['last'] = 'end' if int(args[1]) == n else 'middle'
        elif name in ('erase', 'ins', 'insn', 'insr', 'insi', 'insl') and args:
            case['pos'] = 'begin' if args[0] == '0' else ('end' if int(args[0]) == n else 'middle')
    return case


# ------------------------------------------------------------------ check
def configs_for(tier):
    """(compiler, standard, 'checked' | 'unchecked'); unchecked = SBEPP_DISABLE_ASSERTS, fed only
    the sequences that are valid for a vector and fit"""
    if tier == 'thorough':
        return [('g++', 'c++11', 'checked'), ('g++', 'c++17', 'checked'), ('g++', 'c++20', 'checked'),
                ('clang++-14', 'c++11', 'checked'), ('clang++-14', 'c++14', 'checked'),
                ('clang++-14', 'c++20', 'checked'),
                ('g++', 'c++14', 'unchecked'), ('clang++-14', 'c++17', 'unchecked')]
    return [('g++', 'c++17', 'checked'), ('clang++-14', 'c++11', 'checked'), ('g++', 'c++20', 'unchecked')]


def build_one(chk, c):
    flags = ['-DC13_UNCHECKED'] if len(c) > 2 and c[2] == 'unchecked' else []
    # one cache/lock name per configuration, so that the configurations compile in parallel
    name = 'c13_dyn_%s_%s_%s' % (c[0].replace('+', 'x'), c[1].replace('+', 'x'), c[2] if len(c) > 2 else 'checked')
    return chk.build_cxx(name, ['c13_dyn.cpp'], cxx=c[0], std=c[1], flags=flags)


def build_all(chk, configs):
    exes = []
    with multiprocessing.pool.ThreadPool(len(configs)) as tp:
        outs = tp.map(lambda c: build_one(chk, c), configs)
    for c, (exe, log) in zip(configs, outs):
        if exe is None:
            chk.report_unproved('harness-build', '%s: %s' % (' '.join(c), log[-1500:]))
        else:
            exes.append((tuple(c), exe))
    return exes


def correspond(chk, configs):
    model = chk.model_exe()
    if model is None:
        chk.report_unproved('model-driver-build', 'sbepp_model does not build')
        return
    exes = build_all(chk, configs)
    if not exes:
        return
    tasks = make_tasks(chk.tier, chk.seed)
    corpus = corpus_lines()
    if corpus:
        tasks.insert(0, ('lines', corpus))
    _G['model'] = model
    _G['exes'] = exes
    tot = {'lines': 0, 'evals': 0, 'ops': 0, 'bound': 0, 'valid': 0}
    hist = collections.Counter()
    fail, corr, vec, err, samples = [], [], [], [], []
    nproc = max(2, min(14, (os.cpu_count() or 4) - 1))
    ctx = multiprocessing.get_context('fork')
    with ctx.Pool(nproc) as pool:
        for r in pool.imap_unordered(_worker, tasks, chunksize=1):
            for k in tot:
                tot[k] += r[k]
            hist.update(r['hist'])
            fail += r['fail']
            corr += r['corr']
            vec += r['vec']
            err += r['err']
            if len(samples) < 6:
                samples += r['samples'][:1]
    chk.log('correspondence: %d request lines, %d evaluations, %d operations, %d failures, %d impl!=model, '
            '%d vector mismatches' % (tot['lines'], tot['evals'], tot['ops'], len(fail), len(corr), len(vec)))
    for e in err[:3]:
        chk.report_unproved('harness-run', e)
    # failures: shrink, name the first diverging operation
    seen = set()
    for rec in fail[:12]:
        cfg = tuple(rec['config'])
        exe = dict(exes).get(cfg)
        final, ops, r = shrink(model, (cfg, exe), rec['line'])
        case = make_case(model, final, cfg, ops)
        key = (case['op'], case.get('first'), case.get('last'), case.get('pos'))
        if key in seen:
            continue
        seen.add(key)
        f = (r['fail'] or [rec])[0]
        chk.report_failure({
            'kind': 'impl≠spec', 'harness': 'c13_dyn',
            'config': {'cxx': cfg[0], 'std': cfg[1], 'build': cfg[2] if len(cfg) > 2 else 'checked'},
            'lines': [final], 'original_line': rec['line'],
            'observed': {'impl': f['impl'], 'model_and_spec': f['model'], 'why': f.get('why')}, 'case': case})
    if fail and not chk.violations and not chk.known_hits:
        chk.report_unproved('impl≠spec (not reproduced while shrinking)', fail[0])
    if vec and not fail:
        chk.report_failure({
            'kind': 'impl≠std::vector', 'harness': 'c13_dyn',
            'config': dict(zip(('cxx', 'std', 'build'), vec[0]['config'])),
            'lines': [vec[0]['line']], 'observed': {'impl_and_vector': vec[0]['impl'], 'model_and_spec': vec[0]['model']},
            'case': {'op': 'vector-mismatch'}})
    if corr and not chk.violations:
        chk.report_unproved('impl≠model (implementation agrees with the specification)', corr[0])
    chk.cov['evaluations'] = tot['evals']
    chk.cov['distinct_nontrivial'] = tot['lines']
    chk.cov['traces_validated_against_impl'] = tot['evals']
    chk.cov['operations_executed_per_configuration'] = tot['ops']
    chk.cov['sequences_valid_and_fitting'] = tot['valid']
    chk.cov['sequences_ending_at_the_buffer_or_length_bound'] = tot['bound']
    chk.cov['operation_histogram'] = dict(hist)
    chk.cov['rule'] = (
        'one request = one operation sequence from an initial memory image; distinct = distinct request lines '
        '(all non-trivial: >= 1 operation); evaluations = lines x compiler configurations. Streams: (A) depth 1 from '
        'every state (all contents over a 3-letter alphabet, capacity <= C) x full operation alphabet (every kind, '
        'every valid position, all 3 values, ranges of length 0..2, counts 0..cap+1) x 4 length types x 2 byte orders; '
        '(B) depth 2 from canonical contents x full alphabet^2 x all 8 type combinations; (B\') depth 2 from every state '
        'x thin alphabet^2 (every kind, every valid position, one value), each sequence under 1 (quick) / 4 (thorough) of '
        'the 8 combinations, rotating; (C) depth 3 from canonical contents x thin alphabet^3, each sequence under 1 (quick) '
        '/ all 8 (thorough) of the 8 combinations; (D) seeded random sequences of length '
        '20-60; (E) boundary grid next to the maximum of uint8/uint16 lengths. C = 3 quick / 4 thorough. Sequences '
        'end at the first operation that exceeds the capacity (the assertion is compared with the model).')
    chk.cov['exhaustive'] = False
    chk.cov['exhaustive_within_the_stated_small_scopes'] = True
    chk.cov['configurations'] = ['%s -std=%s %s' % tuple(c) for c in configs]
    for s in samples:
        chk.sample(s)


def corpus_lines():
    d = os.path.join(os.path.dirname(os.path.dirname(os.path.dirname(os.path.abspath(__file__)))), 'corpus', 'C13')
    out = []
    if os.path.isdir(d):
        for f in sorted(os.listdir(d)):
            for l in open(os.path.join(d, f)):
                l = l.strip()
                if l.startswith('dyn '):
                    out.append(l)
    return out


def run(chk):
    chk.extract()
    proved = chk.prove(MODULE, THEOREMS)
    if chk.tier == 'thorough' and proved:
        chk.leanchecker(MODULE)
    correspond(chk, configs_for(chk.tier))
    if chk.failed_obligations and not chk.violations:
        chk.report_unproved('theorem', chk.failed_obligations)
    xfail = ((chk.extract_report or {}).get('parts', {}).get('methods_dynarray', {}) or {}).get('failed')
    if xfail and not chk.violations:
        chk.report_unproved('extraction', {'part': 'methods_dynarray', 'failed': xfail})
    chk.assumptions += [
        'std::copy / std::copy_backward / std::fill_n / std::copy_n on single-byte elements are modelled by their '
        'specification (block move), with the overlap precondition as an explicit UB outcome; a self-copy '
        '(destination == source begin, e.g. erase(p, p)) is treated as a no-op although [alg.copy] formally excludes it',
        'the source ranges of insert/assign do not alias the array itself',
        'unchecked builds (SBEPP_DISABLE_ASSERTS) are run only on sequences that are valid and fit; what they do on '
        'others is outside the property',
        'constant evaluation is not exercised',
    ]


def replay(chk, rep):
    model = chk.model_exe()
    cfg = rep.get('config', {'cxx': 'g++', 'std': 'c++17'})
    c = (cfg['cxx'], cfg['std'], cfg.get('build', 'checked'))
    exe, log = build_one(chk, c)
    if exe is None or model is None:
        print('build failed', log[-800:])
        return 2
    lines = rep.get('lines', [])
    bad = 0
    for l in lines:
        r = evaluate(model, [(c, exe)], [l])
        _, mo = run_exe(model, [l])
        _, io = run_exe(exe, [l])
        print('request:', l)
        print('  impl :', io[0] if io else '?')
        print('  model:', mo[0] if mo else '?')
        for f in r['fail']:
            print('  impl≠spec:', f.get('why'))
        if r['fail'] or r['err'] or r['vec']:
            bad += 1
    return 1 if bad else 0
