"""C02 - decoding returns exactly what a conforming SBE encoder wrote."""
from .. import wirecheck as W

MODULE = 'Sbepp.Properties.C02'
THEOREMS = [
    'Sbepp.Properties.C02.decode_image',
    'Sbepp.Properties.C02.decode_image_accepted',
    'Sbepp.Properties.C02.scalar_roundtrip',
    'Sbepp.Properties.C02.scalar_bytes_roundtrip',
    'Sbepp.Properties.C02.message_size',
    'Sbepp.Properties.C02.encode_then_decode',
    'Sbepp.Properties.C02.encode_then_decode_accepted',
    'Sbepp.Properties.C02.message_round_trip',
]
EXT = False
WALK_MODULE = 'Sbepp.Properties.C02Walk'
WALK_THEOREMS = ['Sbepp.Properties.C02Walk.' + t for t in (
    'first_dynamic_pos_spec', 'next_dynamic_pos_spec', 'message_level_pos_spec', 'message_cursor_size_spec',
    'groupPos_zero_is_kernel', 'endDs_step_is_kernel')]
SALT = 2


def judge(ik, mk, check_trait=False):
    probs = []
    ra = ik.get('ra', '')
    trait = None
    if ';trait=' in ra:
        ra, trait = ra.rsplit(';trait=', 1)
    if ik.get('rast') != 'ok' or ra != mk['spec']:
        probs.append(('impl≠spec', {'accessors': 'random-access', 'status': ik.get('rast'),
                                    'diff': W.first_diff(ra, mk['spec']),
                                    'case': {'what': 'decode', 'access': 'random', 'status': ik.get('rast')}}))
    exp_cur = W.strip_sizes(mk['spec'])
    cur = ik.get('cur', '')
    size = mk['spec'].rsplit('size=', 1)[-1]
    if ik.get('curst') != 'ok' or not cur.startswith(exp_cur) or not cur.endswith(';cursor=' + size):
        probs.append(('impl≠spec', {'accessors': 'cursor', 'status': ik.get('curst'),
                                    'diff': W.first_diff(cur, exp_cur + ';cursor=' + size),
                                    'case': {'what': 'decode', 'access': 'cursor', 'status': ik.get('curst')}}))
    if check_trait and trait is not None:
        size = mk['spec'].rsplit('size=', 1)[-1]
        if trait != size:
            probs.append(('impl≠spec', {'what': 'trait-level size_bytes(counts..., total_data) differs from the image size',
                                        'trait': trait, 'image_size': size, 'counts': mk.get('counts'),
                                        'tdata': mk.get('tdata'),
                                        'case': {'what': 'trait-size', 'status': 'ok'}}))
        elif mk.get('traitsize') != size:
            probs.append(('impl≠model (implementation agrees with the specification)',
                          {'what': 'Gen.messageSize', 'model': mk.get('traitsize'), 'impl': trait}))
    if ik.get('unchanged') != '1':
        probs.append(('impl≠spec', {'what': 'a getter modified the buffer', 'case': {'what': 'decode-writes'}}))
    if not probs and mk['spec'] != mk['model']:
        probs.append(('impl≠model (implementation agrees with the specification)',
                      {'diff': W.first_diff(mk['model'], mk['spec'])}))
    return probs


def run_decode(chk, module, theorems, ext, salt, n_quick=32, n_thorough=120, extra_targets=(), extra=None):
    chk.extract()
    proved = chk.prove(module, theorems, extra_targets=extra_targets)
    if chk.tier == 'thorough' and proved:
        chk.leanchecker(module)
    n = n_thorough if chk.tier == 'thorough' else n_quick
    run = W.WireRun(chk, n, W.configs_for(chk.tier), values_per_msg=3 if chk.tier == 'quick' else 6,
                    ext=ext, seed_salt=salt)
    try:
        if run.prepare():
            run.gen_cases()
            run.build_drivers()
            W.decode_check(chk, run, (lambda ik, mk: judge(ik, mk, check_trait=not ext)))
            W.constexpr_check(chk, run, max_cases=6 if chk.tier == 'quick' else 40)
    finally:
        run.cleanup()
    if extra is not None:
        extra(chk, W.configs_for(chk.tier))
    W.finish_cov(chk, run, 'one evaluation = one reference image (printed by the Lean specification from a random '
                 'value tree of a generated schema%s) decoded by the generated accessors of the real sbeppc output, '
                 'by random access and by cursor, under one compiler configuration; distinct = distinct '
                 '(schema, message, image); every image is non-trivial (contains every member of the message)'
                 % (' with wire block lengths above the compiled ones' if ext else ''))
    if chk.failed_obligations and not chk.violations:
        chk.report_unproved('theorem', chk.failed_obligations)
    chk.assumptions += [
        'decode_image_accepted discharges the layout hypothesis through resolve_wf for every layout accepted by the '
        'validator MODEL (Schema/Resolve.lean); that model is tied to the real validator by the acceptance/offset '
        'correspondence on generated schemas',
        'constant evaluation (C++20) is exercised by generated static_assert translation units for root-level scalar '
        'fields, group counts/sizes and the message size; arrays, entries and data payloads only at run time',
        'messages whose data header composite is not (length, varData) at offset 0, or whose block length does not '
        'fit its header member, are skipped here (counted in run_stats)',
    ]


def run(chk):
    from .. import c02bswap as B
    run_decode(chk, MODULE, THEOREMS + B.THEOREMS + WALK_THEOREMS, EXT, SALT,
               extra_targets=(B.MODULE, WALK_MODULE), extra=B.correspond)
    chk.assumptions += [
        'byte order: the compiled-in byteswap branch (compiler intrinsics / std::byteswap) is compared with the byte '
        'reversal specification on value grids only (its semantics is the compiler\'s); the portable branch and the '
        '__builtin_bswap32 16-bit variant, which no compiler present selects, are re-extracted from sbepp.hpp, proved '
        'for every value, and additionally compiled verbatim and compared',
    ]


def replay(chk, rep):
    import subprocess, tempfile, os, json
    from .. import core, sbeppc, wire, schema as S
    print(json.dumps({k: rep[k] for k in rep if k not in ('schema_xml',)}, indent=1)[:3000])
    print('schema_xml and driver_line in the replay file reproduce the case: run sbeppc on the schema, build the '
          'generated driver (vlib/wire.py gen_driver) and feed it driver_line')
    return 1
