"""C08 - sbeppc rejects exactly the schemas that break its layout rules.

Three verdicts per schema:
  impl   real sbeppc: exit status, first `Error:` line -> diagnostic class (regex table) and entity (line -> path)
  model  Lean transliteration of parser/validators (`Schema.Rules.check`): ok | class, entity, set
  spec   Lean declarative rules (`Spec.Rules.violations`): the list of broken rules with their entities
impl != spec  => report_failure (the property fails on that schema)
impl == spec != model => report_unproved (correspondence broken)
Inputs: generated valid schemas, plus every single-rule edit (vlib/mutate.py) of some of them at every
applicable position, plus valid boundary edits that must be accepted.
"""
import concurrent.futures as cf
import json
import os
import random
import re
import shutil

from .. import core, schema as S, sbeppc, mutate as M

MODULE = 'Sbepp.Properties.C08'
THEOREMS = [
    'Sbepp.Properties.C08.parseNum_spec',
    'Sbepp.Properties.C08.C08_full',
    'Sbepp.Properties.C08.rejects_every_broken_schema',
    'Sbepp.Properties.C08.accepts_every_rule_abiding_schema',
    'Sbepp.Properties.C08.check_error_sound',
    'Sbepp.Properties.C08.check_error_sound_hash_order',
    'Sbepp.Properties.C08.check_error_sound_cyclic',
    'Sbepp.Properties.C08.accepted_no_overlap',
    'Sbepp.Properties.C08.accepted_members_in_block',
    'Sbepp.Properties.C08.cycle_detection_complete',
    'Sbepp.Properties.C08.cyclic_schema_rejected',
    'Sbepp.Properties.C08.keyword_lists_agree',
    'Sbepp.Properties.C08.symbolic_name_per_character',
]

# translator tie of the layout arithmetic (extract/validator_layout.py -> Sbepp.Extracted.ValidatorLayout,
# lean/Sbepp/Lemmas/ValidatorLayoutTie.lean): the C++ steps as the source states them now = the steps of the model
TIE_MODULE = 'Sbepp.Lemmas.ValidatorLayoutTie'
TIE_PART = 'validator_layout'
TIE_THEOREMS = ['Sbepp.Schema.LayoutTie.' + t for t in (
    'validate_field_offset_tie', 'validate_element_offset_tie', 'validate_block_length_tie',
    'composite_loop_tie', 'validate_encoding_composite_tie', 'members_loop_tie', 'validate_members_tie',
    'overflow_witness_extracted', 'overflow_witness_model', 'overflow_witness_twin',
    'extracted_field_offset_ok', 'extracted_field_offset_below_min', 'extracted_field_offset_overflow',
    'extracted_field_offset_error', 'extracted_element_offset_const', 'extracted_element_offset_nonconst',
    'extracted_element_offset_ok', 'extracted_element_offset_below_min', 'extracted_element_offset_overflow',
    'extracted_block_length_ok', 'extracted_block_length_below_min', 'extracted_block_length_error',
    'compLeaves_step', 'vElementOffset_step', 'vElementOffset_ok_iff', 'vFields_step', 'vLevelValues_step',
    'compLeaves_skeleton', 'fieldLeaves_skeleton', 'compositeTyped_of_ok', 'membersTyped_of_ok',
    'compositeLoop_bounded', 'membersLoop_bounded', 'composite_size_extracted', 'level_layout_extracted',
    'message_layout_extracted', 'compLeaves_no_wrap', 'fieldLeaves_no_wrap', 'accepted_composite_no_wrap',
    'accepted_level_no_wrap')]
THEOREMS += TIE_THEOREMS

ANSI = re.compile(r'\x1b\[[0-9;]*m')
ERR = re.compile(r'^Error: (?:(.*?):(\d+):(\d+): )?(.*)$')

# first match wins
PATTERNS = [(c, re.compile(r)) for c, r in [
    ('attrEmpty', r"^`[^`]*` attribute is empty"),
    ('attrNotNumeric', r"^cannot convert `[^`]*` value \(.*\) to its underlying numeric type"),
    ('nodeContentEmpty', r"^required node content is empty"),
    ('choiceIndexNotNumeric', r"doesn't represent choice_index_t"),
    ('duplicateEncoding', r"^encoding `.*` already exists at"),
    ('duplicateMessageName', r"^message with name `.*` already exists"),
    ('duplicateMessageId', r"^message with id `.*` already exists"),
    ('duplicateMemberName', r"^member with name `.*` already exists"),
    ('duplicateValidValue', r"^duplicate validValue name"),
    ('duplicateEnumValue', r"^duplicate validValue value"),
    ('duplicateChoice', r"^duplicate choice name"),
    ('duplicateCompositeElement', r"^duplicate composite element"),
    ('invalidName', r"is not a valid SBE name$"),
    ('unknownPrimitiveType', r"^primitiveType `.*` is not a valid primitive type"),
    ('constantWithoutValue', r"^either `valueRef` or value must be provided"),
    ('badValueRef', r"is not a valid `valueRef`$"),
    ('headerUnknown', r"^(message|group|data) header encoding `.*` doesn't exist"),
    ('unknownFieldType', r"^field type `.*` doesn't exist"),
    ('unknownEncoding', r"^encoding `.*` doesn't exist"),
    ('notAnEnum', r"^encoding `.*` is not an enum"),
    ('noSuchValidValue', r"doesn't have valid value"),
    ('headerValueOutOfRange', r"^value `\d+` cannot be represented by (message|group) header element `.*` of type"),
    ('valueRefOutOfRange', r"^valueRef `.*` \(.*\) cannot be represented by type"),
    ('constantTooLong', r"^constant length \(\d+\) is greater than `length`"),
    ('valueOutOfRange', r"^value `(.|\n)*` cannot be represented by type"),
    ('nonCharConstantLength', r"^non-char constant length must be equal to 1"),
    ('arrayNotSingleByte', r"^arrays must have a single-byte type"),
    ('headerNotComposite', r"^(message|group|data) header encoding `.*` is not a composite"),
    ('notAType', r"^encoding `.*` is not a type"),
    ('encodingTypeLength', r"^encoding type `.*` must have length equal to 1"),
    ('enumTypeNotIntegral', r"^enum type should be `char` or integer"),
    ('setTypeNotUnsigned', r"^underlying type must be unsigned"),
    ('choiceIndexOutOfRange', r"^choice index `\d+` is out of valid range"),
    ('offsetTooSmall', r"^custom offset \(\d+\) is less than minimum possible"),
    ('offsetOverflow', r"^offset \(\d+\) plus size \(\d+\) is too big"),
    ('cyclicReference', r"^cyclic reference detected"),
    ('headerMissingElement', r"header `.*` doesn't have required `.*` element"),
    ('headerElementKind', r"header element `.*` must be a type or a ref"),
    ('headerElementRefKind', r"header element `.*` must refer to a type"),
    ('headerElementArray', r"header element `.*` must be a non-array type"),
    ('headerElementConstant', r"header element `.*` cannot be a constant"),
    ('headerElementNotInteger', r"header element `.*` must have an integer type, got"),
    ('varDataLength', r"^data header element `.*` must have length equal to 0"),
    ('dataHeaderLayout', r"^data header `.*` must consist of `length` at offset 0 directly followed by `varData`"),
    ('fieldConstantWithoutValueRef', r"^field constant must have `valueRef`"),
    ('compositeFieldConstant', r"^composite field can't be a constant"),
    ('enumConstantTypeMismatch', r"^enum constant type `.*` should match field type"),
    ('blockLengthTooSmall', r"^custom `blockLength` \(\d+\) is less than minimum"),
    ('keywordName', r"is not a valid C\+\+ name$"),
    ('badSchemaName', r"is not a valid C\+\+ namespace"),
]]


def classify(msg):
    for c, r in PATTERNS:
        if r.search(msg):
            return c
    return 'unclassified'


def parse_sbeppc(rc, out, linemap):
    """-> dict(verdict, cls, path, line, msg)"""
    txt = ANSI.sub('', out)
    first = None
    for l in txt.splitlines():
        if l.startswith('Error: '):
            first = l
            break
    if rc == 0:
        return {'verdict': 'accepted', 'error_line_on_success': first}
    if rc != 1 or first is None:
        return {'verdict': 'crashed', 'rc': rc, 'out': txt[-400:]}
    # the message may span lines (values containing newlines): take everything from the first error line
    rest = txt[txt.index(first):].rstrip('\n')
    m = ERR.match(rest.split('\n')[0])
    msg = m.group(4) if m else rest
    line = int(m.group(2)) if m and m.group(2) else None
    return {'verdict': 'rejected', 'cls': classify(msg), 'line': line, 'path': linemap.get(line), 'msg': rest[:300]}


def unpath(p):
    if p == '':
        return []
    return [bytes.fromhex(c[1:]).decode('utf-8', 'replace') if c.startswith('~') else c for c in p.split('/')]


def parse_viols(v):
    out = []
    for x in v.split(','):
        if '@' in x:
            c, p = x.split('@', 1)
            out.append((c, tuple(unpath(p))))
    return out


def parse_model(line):
    kv = {}
    for tok in line.strip().split(' '):
        if '=' in tok:
            k, v = tok.split('=', 1)
            kv[k] = v
    if 'verdict' not in kv:
        return None
    r = {'verdict': 'accepted' if kv['verdict'] == 'ok' else 'rejected', 'rules': kv.get('rules') == 'true',
         'viol': parse_viols(kv.get('viol', ''))}
    if r['verdict'] == 'rejected':
        r['cls'] = kv.get('class')
        r['path'] = tuple(unpath(kv.get('at', '')))
        r['set'] = parse_viols(kv.get('set', ''))
    return r


class Case:
    __slots__ = ('idx', 'kind', 'schema', 'mut', 'xml', 'impl', 'model', 'files_left', 'base')

    def __init__(self, idx, kind, schema, mut, base):
        self.idx, self.kind, self.schema, self.mut, self.base = idx, kind, schema, mut, base
        self.impl = self.model = None
        self.files_left = False
        self.xml = None


def run_sbeppc(exe, workdir, c):
    d = os.path.join(workdir, 'c%d_%d' % (c.base, c.idx))
    os.makedirs(d, exist_ok=True)
    xml, linemap = M.render(c.schema)
    c.xml = xml
    path = os.path.join(d, 'schema.xml')
    with open(path, 'w', encoding='utf-8') as f:
        f.write(xml)
    outdir = os.path.join(d, 'gen')
    rc, out = sbeppc.run(exe, path, outdir)
    c.impl = parse_sbeppc(rc, out, linemap)
    if c.impl['verdict'] != 'accepted':
        c.files_left = os.path.isdir(outdir) and any(fs for _, _, fs in os.walk(outdir))
    shutil.rmtree(d, ignore_errors=True)
    return c


def model_batch(exe, lines):
    rc, out = core.sh([exe], input='\n'.join(lines) + '\n', timeout=3000)
    outs = out.splitlines()
    if rc != 0 or len(outs) != len(lines):
        raise RuntimeError('model driver: rc=%s, %d answers for %d requests' % (rc, len(outs), len(lines)))
    return outs


def case_dict(c):
    m = c.mut
    return {'kind': c.kind, 'rule': m.rule if m else 'none', 'position': m.position if m else 'unedited',
            'expected_class': (m.cls if m else None), 'edit': (m.note if m else ''),
            'sbeppc': c.impl['verdict'], 'sbeppc_class': c.impl.get('cls'),
            'model': c.model['verdict'] if c.model else None, 'model_class': c.model.get('cls') if c.model else None,
            'spec': ('rules hold' if c.model['rules'] else 'rule broken') if c.model else None,
            'spec_classes': sorted({v[0] for v in c.model['viol']}) if c.model else []}


def replay_of(c, kind, why):
    return {'kind': kind, 'what': why, 'schema_xml': c.xml, 'request': 'verdict ' + M.to_sexp(c.schema),
            'observed': {'impl': c.impl, 'model': {k: c.model[k] for k in c.model if k != 'viol'},
                         'spec': {'rules': c.model['rules'], 'violations': ['%s@%s' % (a, '/'.join(b)) for a, b in c.model['viol']]}},
            'mutator': (dict(rule=c.mut.rule, cls=c.mut.cls, path=c.mut.path, position=c.mut.position, expect=c.mut.expect,
                             note=c.mut.note) if c.mut else None),
            'base_schema': c.base, 'case': case_dict(c)}


STAT_KEYS = ['evaluated', 'valid_schemas', 'mutants', 'boundary_accept_cases', 'impl_ne_spec', 'impl_ne_model',
             'impl_ne_spec_location', 'unclassified', 'sbeppc_crashes', 'class_and_entity_equal', 'class_in_hash_order_set',
             'mutator_ne_spec', 'rejected_but_files_written', 'generated_schema_rejected_by_all', 'sbeppc_accepts', 'sbeppc_rejects']


def judge(rep, c, stats):
    """rep(kind, what, replay): kind = 'failure' (impl != spec) | 'unproved' (correspondence)"""
    impl, mod = c.impl, c.model
    stats['evaluated'] += 1
    if impl['verdict'] == 'crashed':
        stats['sbeppc_crashes'] += 1
        rep('failure', None, replay_of(c, 'impl≠spec', 'sbeppc neither accepted nor rejected with a diagnostic (crash/abort): '
                                                   'no located diagnostic, exit status %s' % impl.get('rc')))
        return
    stats['sbeppc_accepts' if impl['verdict'] == 'accepted' else 'sbeppc_rejects'] += 1
    spec_ok = mod['rules']
    spec_classes = {v[0] for v in mod['viol']}
    # --- impl vs spec
    if (impl['verdict'] == 'accepted') != spec_ok:
        stats['impl_ne_spec'] += 1
        rep('failure', None, replay_of(c, 'impl≠spec', 'sbeppc accepted a schema that breaks a rule' if not spec_ok
                                       else 'sbeppc rejected a schema that breaks no rule'))
        return
    if impl['verdict'] == 'rejected':
        if impl['cls'] == 'unclassified':
            stats['unclassified'] += 1
            rep('unproved', 'diagnostic text matches no class of the regex table', replay_of(c, 'unclassified', impl['msg']))
            return
        if impl['cls'] not in spec_classes:
            stats['impl_ne_spec'] += 1
            rep('failure', None, replay_of(c, 'impl≠spec', 'sbeppc reports a rule that the specification does not consider broken'))
            return
        if impl['path'] is not None and (impl['cls'], tuple(impl['path'])) not in set(mod['viol']):
            stats['impl_ne_spec_location'] += 1
            rep('failure', None, replay_of(c, 'impl≠spec', 'the diagnostic is located at an entity where the rule is not broken'))
            return
        if c.files_left:
            stats['rejected_but_files_written'] += 1
    # --- impl vs model
    if impl['verdict'] != mod['verdict']:
        stats['impl_ne_model'] += 1
        rep('unproved', 'impl≠model (implementation agrees with the specification): verdict', replay_of(c, 'impl≠model', ''))
        return
    if impl['verdict'] == 'rejected':
        exact = impl['cls'] == mod['cls'] and (impl['path'] is None or tuple(impl['path']) == mod['path'])
        in_set = (impl['cls'], tuple(impl['path'] or ())) in set(mod['set'])
        if exact:
            stats['class_and_entity_equal'] += 1
        elif in_set:
            stats['class_in_hash_order_set'] += 1
        else:
            stats['impl_ne_model'] += 1
            rep('unproved', 'impl≠model (implementation agrees with the specification): diagnostic class/entity',
                replay_of(c, 'impl≠model', ''))
            return
    # --- the mutator's own expectation (a fourth, independent statement of the rule)
    m = c.mut
    if m is not None:
        if m.expect == 'accept' and not spec_ok:
            stats['mutator_ne_spec'] += 1
            rep('unproved', 'mutator expects acceptance, the specification finds a broken rule', replay_of(c, 'mutator≠spec', ''))
        elif m.expect == 'reject':
            hit = (m.cls in spec_classes) if m.path is None else ((m.cls, tuple(m.path)) in set(mod['viol']))
            if not hit:
                stats['mutator_ne_spec'] += 1
                rep('unproved', 'the rule the mutator broke is not in the specification\'s violation list',
                    replay_of(c, 'mutator≠spec', ''))
    elif not spec_ok:
        stats['generated_schema_rejected_by_all'] += 1


def _strings(txt):
    return re.findall(r'"([^"]*)"', txt)


def tables_tie(chk):
    """the literal tables the hand-written model copies from /repo must still be what /repo says
    (keyword list, reserved namespaces, primitive type sets, required header members)"""
    src = os.path.join(core.REPO, 'sbeppc/src/sbepp/sbeppc')
    cpp = open(os.path.join(src, 'sbe_schema_cpp_validator.hpp')).read()
    val = open(os.path.join(src, 'sbe_schema_validator.hpp')).read()
    utl = open(os.path.join(src, 'utils.hpp')).read()
    lean = open(os.path.join(core.LEAN, 'Sbepp', 'Schema', 'Rules.lean')).read()
    res = open(os.path.join(core.LEAN, 'Sbepp', 'Schema', 'Resolve.lean')).read()

    def block(txt, start, end):
        i = txt.find(start)
        if i < 0:
            return None
        j = txt.find(end, i)
        return txt[i:j] if j > 0 else None

    def cxx_set(txt, name):
        b = block(txt, name + '{', '};')
        return None if b is None else set(_strings(b))

    pairs = {
        'cpp_keywords': (cxx_set(cpp, 'cpp_keywords'), set(_strings(block(lean, 'def cppKeywords', 'def isCppKeyword') or ''))),
        'primitive_types': (cxx_set(utl, 'primitive_types'),
                            set(_strings(block(res, 'def primSize?', 'def isPrimitive') or ''))),
        'single_byte_types': (cxx_set(val, 'single_byte_types'),
                              set(_strings(block(lean, 'def isSingleByteType', 'def isIntegralType') or ''))),
        'integral_types': (cxx_set(val, 'integral_types'),
                           set(_strings(block(lean, 'def isIntegralType', 'def isUnsignedPrimitiveType') or ''))),
        'unsigned_types': (cxx_set(val, 'unsigned_types'),
                           set(_strings(block(lean, 'def isUnsignedPrimitiveType', '/-- `sbe_schema_cpp_validator') or ''))),
        'reserved_namespaces': (set(re.findall(r'str == "(\w+)"', block(cpp, 'bool is_reserved_cpp_namespace', '}') or '')),
                                set(_strings(block(lean, 'def isReservedCppNamespace', '\n\n') or ''))),
        'message_header_members': (set(_strings(block(val, 'void validate_message_header()', '// strict') or '')) - {'message'},
                                   {'schemaId', 'templateId', 'version', 'blockLength'}),
        'group_header_members': (set(_strings(block(val, 'void validate_group_header(', '// strict') or '')) - {'group'},
                                 {'numInGroup', 'blockLength'}),
    }
    bad = {}
    for k, (a, b) in pairs.items():
        if a is None or not a or a != b:
            bad[k] = {'repo': sorted(a) if a else None, 'model': sorted(b)}
    chk.extra['tables_tie'] = {'checked': sorted(pairs), 'mismatch': bad}
    if bad:
        chk.report_unproved('extraction: a literal table of the model no longer matches /repo', bad)
    return not bad


def gen_schema(seed, i):
    rng = random.Random((seed * 1000003 + i) * 31 + 8)
    g = S.Gen(rng)
    return M.repair(g.schema()), g.feat


def job(args):
    """one worker: schemas `idxs` (with all mutants when `with_mut`), sbeppc + model + judgement"""
    seed, idxs, with_mut, keep, exe, model, workdir, part, nparts, names_full, names_rotate = args
    stats = dict.fromkeys(STAT_KEYS, 0)
    feat, rules_hist, cls_hist, pos_hist = {}, {}, {}, {}
    reports, samples, nontrivial = [], [], 0
    cases = []
    for i in idxs:
        sch, f = gen_schema(seed, i)
        for k, v in f.items():
            feat[k] = feat.get(k, 0) + v
        if part == 0:
            cases.append(Case(len(cases), 'valid', sch, None, i))
        if with_mut:
            krng = random.Random(seed * 31 + i)
            for k, m in enumerate(M.mutants(sch, random.Random(seed * 7919 + i), 0 if i < names_full else names_rotate)):
                if m.rule == 'value' and krng.random() > keep:
                    continue
                if k % nparts != part:
                    continue
                cases.append(Case(k + 1, 'mutant' if m.expect == 'reject' else 'boundary', m.schema, m, i))
    for c in cases:
        run_sbeppc(exe, workdir, c)
    answers = model_batch(model, ['verdict ' + M.to_sexp(c.schema) for c in cases])
    seen = set()

    def rep(kind, what, replay):
        reports.append((kind, what, replay))
    for c, a in zip(cases, answers):
        c.model = parse_model(a)
        if c.model is None:
            reports.append(('unproved', 'model-verdict', {'answer': a[:300], 'schema_xml': c.xml}))
            continue
        stats['valid_schemas' if c.kind == 'valid' else 'mutants' if c.kind == 'mutant' else 'boundary_accept_cases'] += 1
        if c.mut:
            rules_hist[c.mut.rule] = rules_hist.get(c.mut.rule, 0) + 1
            cls_hist[str(c.mut.cls)] = cls_hist.get(str(c.mut.cls), 0) + 1
            pk = re.sub(r'\d+', 'N', c.mut.position)
            pos_hist[pk] = pos_hist.get(pk, 0) + 1
            seen.add((c.base, c.mut.rule, c.mut.cls, tuple(c.mut.path or ()), c.mut.position, c.mut.note))
        else:
            seen.add((c.base,))
        judge(rep, c, stats)
        if c.mut and len(samples) < 2 and c.idx % 397 == 3:
            samples.append({'rule': c.mut.rule, 'position': c.mut.position, 'edit': c.mut.note, 'sbeppc': c.impl,
                            'model': {k: c.model[k] for k in ('verdict', 'cls', 'path') if k in c.model}})
    return {'stats': stats, 'feat': feat, 'rules': rules_hist, 'cls': cls_hist, 'pos': pos_hist, 'reports': reports,
            'samples': samples, 'distinct': len(seen), 'cases': len(cases)}


def merge(dst, src):
    for k, v in src.items():
        dst[k] = dst.get(k, 0) + v


def run(chk):
    chk.extract()
    tables_tie(chk)
    proved = chk.prove(MODULE, THEOREMS, extra_targets=[TIE_MODULE])
    if chk.tier == 'thorough' and proved:
        chk.leanchecker(MODULE)
    thorough = chk.tier == 'thorough'
    n_valid = 1500 if thorough else 150
    n_mut = 120 if thorough else 20
    keep = 0.35 if thorough else 0.25
    # the naming probes: all of them at every position of the first `names_full` schemas, a rotating window elsewhere
    names_full, names_rotate = (4, 3) if thorough else (1, 3)
    stats = dict.fromkeys(STAT_KEYS, 0)
    model = chk.model_exe()
    if model is None:
        chk.report_unproved('model-driver-build', 'sbepp_model does not build')
        return
    exe, log = sbeppc.build(chk)
    if exe is None:
        chk.report_unproved('sbeppc-build', log[-2000:])
        return
    workdir = os.path.join(core.BUILD, 'scratch', 'C08-%d' % os.getpid())
    shutil.rmtree(workdir, ignore_errors=True)
    os.makedirs(workdir)
    feat, rules_hist, cls_hist, pos_hist = {}, {}, {}, {}
    ncases = distinct = 0
    try:
        nparts = 4
        jobs = [(chk.seed, [i], True, keep, exe, model, workdir, part, nparts, names_full, names_rotate)
                for i in range(n_mut) for part in range(nparts)]
        rest = list(range(n_mut, n_valid))
        jobs += [(chk.seed, rest[k:k + 10], False, keep, exe, model, workdir, 0, 1, 0, 0) for k in range(0, len(rest), 10)]
        with cf.ProcessPoolExecutor(core.NPROC) as ex:
            for r in ex.map(job, jobs):
                merge(stats, r['stats'])
                merge(feat, r['feat'])
                merge(rules_hist, r['rules'])
                merge(cls_hist, r['cls'])
                merge(pos_hist, r['pos'])
                ncases += r['cases']
                distinct += r['distinct']
                for s in r['samples']:
                    chk.sample(s)
                for kind, what, replay in r['reports']:
                    if kind == 'failure':
                        chk.report_failure(replay)
                    else:
                        chk.report_unproved(what, replay)
        chk.log('%d cases (%d generated schemas, every single-rule edit of %d of them)' % (ncases, n_valid, n_mut))
        chk.cov['evaluations'] = stats['evaluated']
        chk.cov['distinct_nontrivial'] = distinct
        chk.cov['programs'] = ncases
        chk.cov['traces_validated_against_impl'] = stats['evaluated']
        chk.cov['disagreements_checked'] = stats['evaluated']
        chk.cov['rule'] = ('one evaluation = one schema (a generated valid schema, a single-rule-breaking edit of one at one '
                           'position, or a valid boundary edit) judged by real sbeppc (exit status, first diagnostic -> class, '
                           'line -> entity), by the Lean model and by the Lean specification; distinct = distinct '
                           '(base schema, rule, class, entity, position, edit)')
        chk.cov['run_stats'] = stats
        chk.cov['input_feature_histogram'] = dict(sorted(feat.items()))
        chk.cov['mutants_per_rule'] = dict(sorted(rules_hist.items()))
        chk.cov['mutants_per_expected_class'] = dict(sorted(cls_hist.items()))
        chk.cov['mutants_per_position_kind'] = dict(sorted(pos_hist.items()))
    finally:
        shutil.rmtree(workdir, ignore_errors=True)
    if chk.failed_obligations and not chk.violations:
        chk.report_unproved('theorem', chk.failed_obligations)
    xfail = ((chk.extract_report or {}).get('parts', {}).get(TIE_PART, {'failed': {'part': 'not run'}}) or {}).get('failed')
    if xfail and not chk.violations:
        chk.report_unproved('extraction', {'part': TIE_PART, 'failed': xfail})
    chk.assumptions += [
        'the model receives the schema as an AST (vlib/mutate.py to_sexp): XML well-formedness, missing required attributes, '
        'non-numeric attribute text, presence/byteOrder tokens, member order and <include> are outside the model (C09)',
        'validate_types / validate_type_names iterate an unordered_map: with several broken public types the model names the set '
        'sbeppc may pick its first diagnostic from (run_stats.class_in_hash_order_set counts those cases)',
        'floating-point literal acceptance (strtof/strtod + ERANGE) is modelled from the glibc behaviour and only checked '
        'differentially on the boundary grid of vlib/mutate.py',
        'sbeppc is run without --schema-name',
    ]


def replay(chk, rep):
    """re-run the recorded schema on the current tree: prints impl / model / spec"""
    import tempfile
    exe, log = sbeppc.build(chk)
    model = chk.model_exe()
    if exe is None or model is None:
        print('cannot build sbeppc or the model driver')
        return 2
    xml = rep.get('schema_xml') or (rep.get('detail') or {}).get('schema_xml')
    req = rep.get('request') or (rep.get('detail') or {}).get('request')
    if not xml or not req:
        print(json.dumps(rep, indent=1)[:3000])
        return 2
    d = tempfile.mkdtemp(prefix='c08replay', dir=core.BUILD)
    try:
        p = os.path.join(d, 'schema.xml')
        open(p, 'w', encoding='utf-8').write(xml)
        rc, out = sbeppc.run(exe, p, os.path.join(d, 'gen'))
        print('impl : rc=%s %s' % (rc, ANSI.sub('', out).strip()[:400]))
        print('model/spec: ' + model_batch(model, [req])[0][:1200])
    finally:
        shutil.rmtree(d, ignore_errors=True)
    return 1
