"""C10 - checked builds never touch memory outside the view silently, and never
assert on boundary-valid calls.

Layer R: generated schemas -> real sbeppc -> per-schema driver (vlib/c10gen.py,
harness/c10_driver.hpp) built with SBEPP_ENABLE_ASSERTS_WITH_HANDLER.  For every
generated message, well-formed images and images whose blockLength / numInGroup /
length values are overwritten (0, max, fitting-1, fitting+1): for EVERY buffer
length n from 0 to the image size the first n bytes are placed in a buffer of
exactly n accessible bytes (PROT_NONE right behind it) and every accessor kind is
called on its own on `make_view<Msg>(p, n)`: outcome ok / ASSERT / FAULT / UB.

  spec  (c10gen.Spec: SBE layout rules on the image)  the chain needs bytes [.., needs_end)
        required: never FAULT/UB; needs_end <= n and preconditions hold  =>  ok
  model (Lean Rt.Guards via `guard` requests: the extracted checks evaluated with C++ semantics +
        hand model of the touched bytes)  run = ok / ASSERT / FAULT
Second buffer mode (canary) for every chain whose last accessor WRITES (setters, array element writes and
assign_range, and the mutating operations of <data>: assign_range, assign(first,last), assign(n,v), assign(ilist),
assign_string, insert*, push_back, pop_back, clear, erase*, resize*): the view [p, p+n) lies inside an allocation
whose tail is filled with canary bytes, so an out-of-view write completes: outcome in {ok, ASSERT} x {canary intact,
modified}.  modified without handler = silent out-of-view write (cause silent-oob-write); modified then handler =
write before check (the open finding); intact + needs satisfied + handler = spurious.  State sweep for <data>: the
stored length prefix is set to {0, k-1, k, k+1, max} relative to the number k of elements assigned/inserted.

Cursor traversals (guard-page mode): `auto c = init_cursor(m)`, the members before member k through the plain
cursor (entries through cursor_range), member k READ through the cursor and each of the four wrappers and - scalar
fields - WRITTEN through the setter `v.NAME(value, w)` with w = c, init(c), dont_move(c), init_dont_move(c)
(`skip` has no setters); the specification of a setter run is that of the getter run of the same wrapper.

impl vs spec  -> chk.report_failure with a narrow `case`
model vs impl -> chk.report_unproved
"""
import concurrent.futures as cf
import json
import os
import random
import sys
import zlib

from .. import core, wire, wirecheck as W, c10gen

MODULE = 'Sbepp.Properties.C10'
THEOREMS = [
    'Sbepp.Properties.C10.sizeCheck_sound',
    'Sbepp.Properties.C10.sizeCheck_complete',
    'Sbepp.Properties.C10.sizeCheck_past_end_rejected',
    'Sbepp.Properties.C10.sizeCheck_sound_full_proved',
    'Sbepp.Properties.C10.sizeCheck_wrap_full_false',
    'Sbepp.Properties.C10.end_propagates',
    'Sbepp.Properties.C10.end_args_extracted',
    'Sbepp.Properties.C10.checks_precede_access_extracted',
    'Sbepp.Properties.C10.guard_sound_partial',
    'Sbepp.Properties.C10.guard_sound_walk_partial',
    'Sbepp.Properties.C10.guard_sound_full_false',
    'Sbepp.Properties.C10.no_silent_access_partial',
    'Sbepp.Properties.C10.no_silent_access_full_false',
    'Sbepp.Properties.C10.write_before_check_false',
    'Sbepp.Properties.C10.resize_check_unconditional',
    'Sbepp.Properties.C10.completed_call_clean',
    'Sbepp.Properties.C10.no_silent_write',
    'Sbepp.Properties.C10.guard_sound_cursor_partial',
    'Sbepp.Properties.C10.no_silent_access_cursor_partial',
    'Sbepp.Properties.C10.guard_sound_cursor_full_false',
    'Sbepp.Properties.C10.cursor_setter_sites_extracted',
    'Sbepp.Properties.C10.cursor_setter_as_getter',
    'Sbepp.Properties.C10.no_silent_write_cursor',
    'Sbepp.Properties.C10.guard_complete_partial',
    'Sbepp.Properties.C10.guard_complete_touch_full_false',
]
BASE = 0x7f0000001000   # the address the model uses for byte 0 (any non-null value below 2^63 - image size)
CH = {'o': 'ok', 'A': 'ASSERT', 'F': 'FAULT', 'U': 'UB', '?': 'BADPATH'}


def extract_all(chk):
    """run_all (shared) + this property's extractor if the lead has not yet added it there"""
    rep = chk.extract()
    if 'size_checks' not in rep.get('parts', {}):
        sys.path.insert(0, core.VERIF)
        from extract import size_checks
        with core.Lock('lake'):
            r = size_checks.extract(core.REPO, os.path.join(core.LEAN, 'Sbepp', 'Extracted'))
        rep['parts']['size_checks'] = r
        for k, v in r.get('failed', {}).items():
            rep['failed']['size_checks.%s' % k] = v
        if r.get('failed'):
            chk.log('extraction failures (size_checks):', json.dumps(r['failed']))
    return rep


class Item:
    """one image of one message with its chains"""
    __slots__ = ('case', 'm', 'img', 'mut', 'chains', 'evals', 'model', 'impl', 'cur', 'cruns', 'cmodel', 'cidx',
                 'canary_model', 'extra_counts')

    def __init__(self, case, m, img, mut):
        self.case, self.m, self.img, self.mut = case, m, img, mut
        self.chains = []
        self.evals = []
        self.model = None
        self.impl = {}
        self.cur = None       # c10gen.CursorSpec
        self.cruns = []       # [(k, var, needs_end, kind)]
        self.cmodel = None
        self.cidx = []            # indices of the chains whose last accessor writes (canary mode)
        self.canary_model = None
        self.extra_counts = ()


def build_items(chk, run, values_per_msg, muts_per_image, max_image, max_chains, max_cursor_members=40,
                sweep_sites=1):
    items = []
    skipped = 0
    for c in run.cases:
        bo = c.layout['byteOrder']
        for m in c.layout['messages']:
            if not wire.fits(m) or not wire.std_data_headers(m):
                run.stats['messages_skipped_unfit'] += 1
                continue
            run.stats['messages'] += 1
            for k in range(values_per_msg):
                rng = random.Random(zlib.crc32(repr((chk.seed, c.idx, m['name'], k, 'c10')).encode()))
                img = None
                for sizes in ({'ext': [0, 0, 1, 3], 'counts': [0, 1, 2, 2], 'data': [0, 1, 2, 3]},
                              {'ext': [0, 1], 'counts': [0, 1, 1, 2], 'data': [0, 1, 2]},
                              {'ext': [0], 'counts': [1, 1, 0], 'data': [0, 1]},
                              {'ext': [0], 'counts': [1, 0], 'data': [1]}):
                    v = wire.gen_message_value(rng, bo, m, c.s['id'], c.s['version'], ext_ok=True, sizes=sizes)
                    img = c10gen.flatten_message(bo, m, v)
                    if len(img) <= max_image:
                        break
                if len(img) > max_image + max_image // 3:
                    skipped += 1
                    continue
                variants = [(img, None)]
                sites = c10gen.header_sites(bo, m, v)
                picks = []
                for s in sites:
                    for val in c10gen.mutation_values(s):
                        picks.append((s, val))
                rng.shuffle(picks)
                for s, val in picks[:muts_per_image]:
                    variants.append((c10gen.mutate(bo, img, s, val),
                                     {'field': s[2], 'off': s[0], 'from': s[3], 'to': val}, ()))
                variants[0] = (img, None, ())
                # state sweep for <data>: stored length prefix in {0, k-1, k, k+1, max} relative to the number k of
                # elements assigned / inserted (the chains then use k-1, k, k+1 and every view size around them)
                dsites = [s for s in sites if s[2] == 'data.length']
                rng.shuffle(dsites)
                for s in dsites[:sweep_sites]:
                    k = s[3] if 1 <= s[3] <= 6 else 2
                    mxv = min(256 ** s[1] - 1, (1 << 32) - 1)
                    for pv in sorted({0, k - 1, k, k + 1, mxv}):
                        if pv == s[3]:
                            continue
                        variants.append((c10gen.mutate(bo, img, s, pv),
                                         {'field': s[2], 'off': s[0], 'from': s[3], 'to': pv, 'sweep_k': k},
                                         (k - 1, k, k + 1)))
                    variants[0] = (img, None, variants[0][2] + (k - 1, k, k + 1))
                for im, mut, extra in variants:
                    it = Item(c, m, im, mut)
                    it.extra_counts = extra
                    spec = c10gen.Spec(bo, m, im)
                    sweep = bool(mut and 'sweep_k' in mut)
                    it.chains = c10gen.enum_chains(spec, max_chains=4 * max_chains if sweep else max_chains,
                                                   extra_counts=extra, only_data=sweep)[:max_chains]
                    it.evals = [spec.eval(ch) for ch in it.chains]
                    it.cidx = [j for j, ev in enumerate(it.evals) if ev.mutating]
                    if sweep:
                        pass
                    elif c10gen.exact_composites(c.s, m['name']):
                        it.cur = c10gen.CursorSpec(c10gen.Spec(bo, m, im))
                        it.cruns = it.cur.runs(max_cursor_members)
                    else:
                        run.stats['cursor_skipped_inexact_composite'] = run.stats.get(
                            'cursor_skipped_inexact_composite', 0) + 1
                    items.append(it)
    run.stats['images_skipped_too_large'] = skipped
    return items


def expected_char(ev, n):
    return 'o' if (ev.needs_end <= n and ev.pre_ok) else 'A'


def judge(chk, run, it, cxx, std, impl, stats):
    """impl / model: lists (per n) of outcome strings (one char per chain)"""
    model_blocks = it.model
    L = len(it.img)
    reported = set()
    nev = len(it.evals)
    for ev in it.evals:
        stats['kinds'][ev.kind] = stats['kinds'].get(ev.kind, 0) + L + 1
    nomodel = sum(1 for ev in it.evals if not ev.modelled)
    for n in range(L + 1):
        ib = impl[n]
        mrun, mguard, mspec = model_blocks[n]
        expb = ''.join('o' if (ev.needs_end <= n and ev.pre_ok) else 'A' for ev in it.evals)
        chk.cov['evaluations'] += nev
        stats['calls'] += nev
        stats['spec_only_calls'] += nomodel
        for ch in 'oAFU?':
            k = ib.count(ch)
            if k:
                stats['outcomes'][ch] = stats['outcomes'].get(ch, 0) + k
        for j, ev in enumerate(it.evals):
            got = ib[j]
            exp = expb[j]
            if ev.needs_end == n and got == 'o' or ev.needs_end == n + 1 and got == 'A':
                stats['boundary'] += 1
            if got == exp and (got == mrun[j] or not ev.modelled) and (not ev.modelled or (
                    (mspec[j] == 'i') == (ev.needs_end <= n) and (got != 'o' or mguard[j] == 'g'))):
                continue
            if ev.modelled and (mrun[j] == 'U' or ev.huge):
                stats['model_undefined'] += 1
            bad = None
            past = ev.past_end(n)
            if got in 'FU?':
                bad = ('out-of-view-access-not-asserted' if got == 'F' else
                       ('undefined-behaviour' if got == 'U' else 'bad-path'))
            elif exp == 'o' and got != 'o':
                bad = 'spurious-assertion'
            elif exp == 'A' and got == 'o':
                if ev.huge:
                    # 64-bit header values whose products/sums leave the pointer range: the real arithmetic
                    # wraps modulo 2^64, the specification's positions are not meaningful any more
                    stats['wrap_regime_ok'] += 1
                elif past:
                    # a check on a view that begins past the end pointer passed although the bytes it guards
                    # do not exist (nothing was touched, else FAULT)
                    bad = 'check-passed-on-view-past-end'
                else:
                    # with exact guard pages nothing at or beyond n was touched: the specification asks for more
                    # bytes than the code needs here
                    stats['ok_beyond_needs'] += 1
                    stats['ok_beyond_needs_kinds'][ev.kind] = stats['ok_beyond_needs_kinds'].get(ev.kind, 0) + 1
                    if len(stats['ok_beyond_needs_samples']) < 6:
                        stats['ok_beyond_needs_samples'].append({
                            'chain': ev.cpp_path, 'n': n, 'needs_end': ev.needs_end, 'steps': ev.steps,
                            'image': wire.hexs(it.img)})
            cause = 'none'
            if bad:
                if ev.huge or got == 'U' or (ev.modelled and mrun[j] == 'U'):
                    # a UBSan trap in a checked build is pointer arithmetic that overflowed; the model reports the
                    # same situation as undefined: both only arise from 64-bit header values
                    cause = 'pointer-range-overflow'
                elif past:
                    cause = 'view-begins-past-end'
                elif ev.kind in ('data.assign_range', 'data.assign_iter') and got == 'F':
                    cause = 'write-before-check'
                elif ev.kind in ('data.insert_n', 'data.insert') and got == 'F':
                    cause = 'unknown-container'
                else:
                    cause = 'unknown'
            key = (j, bad, cause)
            if bad and key not in reported and bad != 'bad-path':
                reported.add(key)
                stats['violations_by_cause'][cause] = stats['violations_by_cause'].get(cause, 0) + 1
                case = {'accessor': ev.kind, 'n': n,
                        'needs_end': (ev.needs_end if ev.needs_end < c10gen.INF else 'beyond-image'),
                        'outcome': CH[got], 'expected': CH[exp], 'what': bad, 'cause': cause,
                        'view_begin': ev.view_begin, 'mutated': it.mut['field'] if it.mut else 'none',
                        'model': CH.get(mrun[j], mrun[j]), 'cxx': cxx, 'std': std,
                        'max_hdr_bytes': c10gen.max_hdr_bytes(it.m)}
                chk.report_failure({
                    'kind': 'impl≠spec', 'config': {'cxx': cxx, 'std': std, 'defines': ['SBEPP_ENABLE_ASSERTS_WITH_HANDLER']},
                    'schema_xml': open(it.case.xml).read(), 'schema_sexp': it.case.sexp, 'message': it.m['name'],
                    'image': wire.hexs(it.img), 'mutation': it.mut, 'n': n,
                    'chain': ev.cpp_path, 'steps': ev.steps,
                    'driver_line': 'trunc %s %s %d %s' % (it.m['name'], wire.hexs(it.img), n, ev.cpp_path),
                    'model_line': c10gen.lean_request(it.case.layout['byteOrder'], BASE, it.img, str(n), it.m,
                                                      [(ev.needs_end, ev.lean_ops)], detail=True),
                    'observed': {'impl': CH[got], 'spec': CH[exp], 'model': CH.get(mrun[j], mrun[j])},
                    'case': case})
            elif bad == 'bad-path':
                chk.report_unproved('driver-path', {'chain': ev.cpp_path, 'message': it.m['name']})
            if ev.modelled and got != mrun[j] and mrun[j] != 'U' and not ev.huge and ('model', j) not in reported:
                reported.add(('model', j))
                stats['model_mismatch'] += 1
                chk.report_unproved('impl≠model (Rt.Guards does not describe what the accessor does)', {
                    'chain': ev.cpp_path, 'lean_ops': ev.lean_ops, 'n': n, 'impl': CH[got], 'model': CH.get(mrun[j], mrun[j]),
                    'spec': CH[exp], 'schema_xml': open(it.case.xml).read(), 'message': it.m['name'],
                    'image': wire.hexs(it.img), 'cxx': cxx, 'std': std,
                    'driver_line': 'trunc %s %s %d %s' % (it.m['name'], wire.hexs(it.img), n, ev.cpp_path),
                    'model_line': c10gen.lean_request(it.case.layout['byteOrder'], BASE, it.img, str(n), it.m,
                                                      [(ev.needs_end, ev.lean_ops)], detail=True)})
            # guard / spec columns of the model answer
            if ev.modelled and (mspec[j] == 'i') != (ev.needs_end <= n):
                chk.report_unproved('model-spec-verdict', {'chain': ev.cpp_path, 'n': n})
            if ev.modelled and mrun[j] == 'o' and mguard[j] != 'g':
                chk.report_unproved('model-run-without-guard', {'chain': ev.cpp_path, 'n': n})


def judge_canary(chk, run, it, cxx, std, impl, stats):
    """canary mode: impl / model blocks (per n) hold one character per MUTATING chain:
    o / A with the bytes behind the view intact, w = completed although they were modified (silent out-of-view
    write), W = handler invoked after they were modified, F, U"""
    L = len(it.img)
    reported = set()
    evs = [it.evals[j] for j in it.cidx]
    for ev in evs:
        kn = 'canary:' + ev.kind
        stats['kinds'][kn] = stats['kinds'].get(kn, 0) + L + 1
    for n in range(L + 1):
        ib = impl[n]
        mb = it.canary_model[n]
        chk.cov['evaluations'] += len(evs)
        stats['canary_calls'] += len(evs)
        for ch in 'oAwWFU?':
            k = ib.count(ch)
            if k:
                stats['canary_outcomes'][ch] = stats['canary_outcomes'].get(ch, 0) + k
        for j, ev in enumerate(evs):
            got = ib[j]
            exp = 'o' if (ev.needs_end <= n and ev.pre_ok) else 'A'
            mod = mb[j]
            if got == exp and (mod == got or mod == '-'):
                continue
            past = ev.past_end(n)
            undefined = ev.huge or got == 'U' or mod == 'U'
            bad = None
            cause = 'none'
            outcome = {'o': 'ok', 'A': 'ASSERT', 'w': 'ok-after-write', 'W': 'ASSERT-after-write', 'F': 'FAULT',
                       'U': 'UB', '?': 'BADPATH'}[got]
            if got == 'w':
                bad = 'out-of-view-write-not-asserted'
                cause = 'pointer-range-overflow' if undefined else 'silent-oob-write'
            elif got == 'W':
                bad = 'out-of-view-write-before-assertion'
                cause = 'pointer-range-overflow' if undefined else 'write-before-check'
            elif got in 'FU':
                bad = 'out-of-view-access-not-asserted' if got == 'F' else 'undefined-behaviour'
                cause = 'pointer-range-overflow' if undefined else ('view-begins-past-end' if past else 'unknown')
            elif got == '?':
                chk.report_unproved('driver-path', {'chain': ev.cpp_path, 'message': it.m['name']})
            elif exp == 'o' and got == 'A':
                bad = 'spurious-assertion'
                cause = 'pointer-range-overflow' if undefined else 'unknown'
            elif exp == 'A' and got == 'o':
                if undefined:
                    stats['wrap_regime_ok'] += 1
                elif past:
                    bad = 'check-passed-on-view-past-end'
                    cause = 'view-begins-past-end'
                else:
                    stats['ok_beyond_needs'] += 1
                    stats['ok_beyond_needs_kinds'][ev.kind] = stats['ok_beyond_needs_kinds'].get(ev.kind, 0) + 1
            key = (j, bad, cause)
            if bad and key not in reported:
                reported.add(key)
                stats['violations_by_cause'][cause] = stats['violations_by_cause'].get(cause, 0) + 1
                case = {'accessor': ev.kind, 'n': n, 'mode': 'canary',
                        'needs_end': (ev.needs_end if ev.needs_end < c10gen.INF else 'beyond-image'),
                        'outcome': outcome, 'expected': CH[exp], 'what': bad, 'cause': cause,
                        'view_begin': ev.view_begin, 'mutated': it.mut['field'] if it.mut else 'none',
                        'model': mod, 'cxx': cxx, 'std': std, 'max_hdr_bytes': c10gen.max_hdr_bytes(it.m)}
                chk.report_failure({
                    'kind': 'impl≠spec', 'config': {'cxx': cxx, 'std': std, 'defines': ['SBEPP_ENABLE_ASSERTS_WITH_HANDLER']},
                    'schema_xml': open(it.case.xml).read(), 'schema_sexp': it.case.sexp, 'message': it.m['name'],
                    'image': wire.hexs(it.img), 'mutation': it.mut, 'n': n, 'chain': ev.cpp_path, 'steps': ev.steps,
                    'buffer_mode': 'view [p, p+n) inside an allocation of n + %d bytes, tail filled with 0x%02x' % (
                        c10gen.CANARY_SLACK, c10gen.CANARY_FILL),
                    'driver_line': 'canary %s %s %d %d %s' % (it.m['name'], wire.hexs(it.img), n, c10gen.CANARY_SLACK,
                                                             ev.cpp_path),
                    'model_line': c10gen.lean_request(it.case.layout['byteOrder'], BASE, it.img, str(n), it.m,
                                                      [(ev.needs_end, ev.lean_ops if ev.modelled else 'sz')],
                                                      canary=True),
                    'observed': {'impl': outcome, 'spec': CH[exp], 'model': mod},
                    'case': case})
            if mod not in ('-', 'U') and not ev.huge and got != mod and ('model', j) not in reported:
                reported.add(('model', j))
                stats['model_mismatch'] += 1
                chk.report_unproved('impl≠model (Rt.Guards, canary mode)', {
                    'chain': ev.cpp_path, 'lean_ops': ev.lean_ops, 'n': n, 'impl': got, 'model': mod, 'spec': exp,
                    'schema_xml': open(it.case.xml).read(), 'message': it.m['name'], 'image': wire.hexs(it.img),
                    'cxx': cxx, 'std': std,
                    'driver_line': 'canary %s %s %d %d %s' % (it.m['name'], wire.hexs(it.img), n, c10gen.CANARY_SLACK,
                                                             ev.cpp_path),
                    'model_line': c10gen.lean_request(it.case.layout['byteOrder'], BASE, it.img, str(n), it.m,
                                                      [(ev.needs_end, ev.lean_ops)], canary=True)})


def judge_cursor(chk, run, it, cxx, std, impl, stats):
    L = len(it.img)
    reported = set()
    nr = len(it.cruns)
    for (k, var, needs_end, kind) in it.cruns:
        kname = '%s.%s' % (kind, var)
        stats['kinds'][kname] = stats['kinds'].get(kname, 0) + L + 1
    for n in range(L + 1):
        ib = impl[n]
        mrun, mguard, mspec = it.cmodel[n]
        chk.cov['evaluations'] += nr
        stats['cursor_calls'] += nr
        for ch in 'oAFU?':
            c_ = ib.count(ch)
            if c_:
                stats['outcomes'][ch] = stats['outcomes'].get(ch, 0) + c_
        for j, (k, var, needs_end, kind) in enumerate(it.cruns):
            got = ib[j]
            exp = 'o' if needs_end <= n else 'A'
            if needs_end == n and got == 'o' or needs_end == n + 1 and got == 'A':
                stats['boundary'] += 1
            if got == exp == mrun[j]:
                continue
            kname = '%s.%s' % (kind, var)
            huge = it.cur.huge
            past = it.cur.past_end(k, n)
            bad = None
            if got == '?':
                if ('badrun', j) not in reported:
                    reported.add(('badrun', j))
                    chk.report_unproved('driver-cursor-run', {'cursor_member': k, 'variant': var, 'kind': kind,
                                                              'message': it.m['name']})
                continue
            if got in 'FU':
                bad = 'out-of-view-access-not-asserted' if got == 'F' else 'undefined-behaviour'
            elif exp == 'o' and got != 'o':
                bad = 'spurious-assertion'
            elif exp == 'A' and got == 'o':
                if huge:
                    stats['wrap_regime_ok'] += 1
                elif past:
                    bad = 'check-passed-on-view-past-end'
                else:
                    stats['ok_beyond_needs'] += 1
                    stats['ok_beyond_needs_kinds'][kname] = stats['ok_beyond_needs_kinds'].get(kname, 0) + 1
                    if len(stats['ok_beyond_needs_samples']) < 6:
                        stats['ok_beyond_needs_samples'].append({'cursor_run': [k, var], 'n': n, 'needs_end': needs_end,
                                                                 'kind': kind, 'image': wire.hexs(it.img)})
            cause = 'none'
            if bad:
                cause = 'pointer-range-overflow' if (huge or got == 'U' or mrun[j] == 'U') else (
                    'view-begins-past-end' if past else 'unknown')
            key = (j, bad, cause)
            if bad and key not in reported:
                reported.add(key)
                stats['violations_by_cause'][cause] = stats['violations_by_cause'].get(cause, 0) + 1
                case = {'accessor': kname, 'n': n, 'needs_end': (needs_end if needs_end < c10gen.INF else 'beyond-image'),
                        'outcome': CH[got], 'expected': CH[exp], 'what': bad, 'cause': cause,
                        'mutated': it.mut['field'] if it.mut else 'none', 'model': CH.get(mrun[j], mrun[j]),
                        'cxx': cxx, 'std': std, 'max_hdr_bytes': c10gen.max_hdr_bytes(it.m)}
                chk.report_failure({
                    'kind': 'impl≠spec', 'config': {'cxx': cxx, 'std': std, 'defines': ['SBEPP_ENABLE_ASSERTS_WITH_HANDLER']},
                    'schema_xml': open(it.case.xml).read(), 'schema_sexp': it.case.sexp, 'message': it.m['name'],
                    'image': wire.hexs(it.img), 'mutation': it.mut, 'n': n, 'cursor_member': k, 'cursor_wrapper': var,
                    'cursor_run': 'member %d (%s) %s' % (k, kind, (
                        'WRITTEN through the setter v.NAME(value, %s)' % {'plain': 'c'}.get(var[4:], 'cursor_ops::%s(c)' % var[4:])
                        if var in c10gen.SETVARS else
                        'read through v.NAME(%s)' % {'plain': 'c'}.get(var, 'cursor_ops::%s(c)' % var))),
                    'driver_line': 'ctrav %s %s %d %s  # answer character 0' % (
                        it.m['name'], wire.hexs(it.img), n, c10gen.cpp_ctrav_runs([it.cruns[j]])),
                    'model_line': c10gen.lean_ctrav_request(it.case.layout['byteOrder'], BASE, it.img, str(n), it.m,
                                                            [it.cruns[j]], detail=True),
                    'observed': {'impl': CH[got], 'spec': CH[exp], 'model': CH.get(mrun[j], mrun[j])},
                    'case': case})
            if mrun[j] == 'U' or huge:
                stats['model_undefined'] += 1
            elif got != mrun[j] and ('model', j) not in reported:
                reported.add(('model', j))
                stats['model_mismatch'] += 1
                chk.report_unproved('impl≠model (Rt.Guards cursor traversal does not describe what the accessors do)', {
                    'cursor_member': k, 'wrapper': var, 'kind': kind, 'n': n, 'impl': CH[got],
                    'model': CH.get(mrun[j], mrun[j]), 'spec': CH[exp], 'schema_xml': open(it.case.xml).read(),
                    'message': it.m['name'], 'image': wire.hexs(it.img), 'cxx': cxx, 'std': std,
                    'driver_line': 'ctrav %s %s %d %s' % (it.m['name'], wire.hexs(it.img), n,
                                                         c10gen.cpp_ctrav_runs([it.cruns[j]])),
                    'model_line': c10gen.lean_ctrav_request(it.case.layout['byteOrder'], BASE, it.img, str(n), it.m,
                                                            [it.cruns[j]], detail=True)})


def run_schemas(chk, nschemas, configs, values_per_msg, muts_per_image, max_image=200, max_chains=160,
                max_cursor_members=24, sweep_sites=1):
    run = W.WireRun(chk, nschemas, configs, values_per_msg=values_per_msg, seed_salt=10, max_depth=3)
    stats = {'calls': 0, 'kinds': {}, 'outcomes': {}, 'boundary': 0, 'ok_beyond_needs': 0, 'model_mismatch': 0,
             'ok_beyond_needs_kinds': {}, 'ok_beyond_needs_samples': [], 'violations_by_cause': {}, 'model_undefined': 0, 'wrap_regime_ok': 0, 'spec_only_calls': 0,
             'images': 0, 'mutated_images': 0, 'chains': 0, 'truncation_points': 0, 'cursor_calls': 0,
             'cursor_runs': 0, 'canary_calls': 0, 'canary_outcomes': {}, 'canary_chains': 0,
             # setter variants of the cursor stream; `gap`: scalar field with a non-zero cursor-relative offset
             # (custom `offset=` leaving a gap behind the previous field / the level start); `window points`:
             # truncation lengths n at which a size check made at the un-advanced cursor would still pass while the
             # field's bytes end beyond n, i.e. n in [cursor + size, cursor + gap + size)
             'cursor_setter_runs': 0, 'cursor_gap_setter_runs': 0, 'cursor_gap_setter_runs_nonlast_plain': 0,
             'cursor_gap_window_points': 0, 'cursor_gap_window_points_nonlast_plain': 0,
             'cursor_images_with_gap_setter': 0}
    try:
        if not run.prepare():
            return run, stats
        run.gen_cases()
        # drivers
        jobs = [(c, cxx, std) for c in run.cases for (cxx, std) in configs]
        drivers = {}

        def bld(job):
            c, cxx, std = job
            exe, log = c10gen.build(c, cxx, std)
            return job, exe, log
        with cf.ThreadPoolExecutor(core.NPROC) as ex:
            for (c, cxx, std), exe, log in ex.map(bld, jobs):
                run.stats['driver_builds'] += 1
                if exe is None:
                    chk.report_failure({'kind': 'generated code does not compile', 'config': {'cxx': cxx, 'std': std},
                                        'schema_xml': open(c.xml).read(), 'compiler_output': log[-3000:],
                                        'case': {'what': 'driver-compile', 'cxx': cxx, 'std': std,
                                                 'first_error': W.first_error(log)}})
                else:
                    drivers[(c.idx, cxx, std)] = exe
        chk.log('drivers built: %d' % len(drivers))
        items = build_items(chk, run, values_per_msg, muts_per_image, max_image, max_chains, max_cursor_members,
                            sweep_sites)
        stats['canary_chains'] = sum(len(it.cidx) for it in items)
        stats['images'] = len(items)
        stats['mutated_images'] = sum(1 for it in items if it.mut)
        stats['chains'] = sum(len(it.chains) for it in items)
        stats['truncation_points'] = sum(len(it.img) + 1 for it in items)
        chk.log('images: %d (%d mutated), chains: %d, truncation points: %d' % (
            stats['images'], stats['mutated_images'], stats['chains'], stats['truncation_points']))
        # model
        reqs = [c10gen.lean_request(it.case.layout['byteOrder'], BASE, it.img, 'all', it.m,
                                    [(ev.needs_end, ev.lean_ops) for ev in it.evals if ev.modelled]) for it in items]
        creqs = [(i, c10gen.lean_ctrav_request(it.case.layout['byteOrder'], BASE, it.img, 'all', it.m, it.cruns))
                 for i, it in enumerate(items) if it.cruns]
        stats['cursor_runs'] = sum(len(it.cruns) for it in items)
        for it in items:
            anygap = False
            for (k, var, _ne, _kind) in it.cruns:
                if var not in c10gen.SETVARS:
                    continue
                stats['cursor_setter_runs'] += 1
                f = it.cur.members[k]['field']
                if f['rel'] > 0:
                    anygap = True
                    pts = max(0, min(f['cur'] + f['rel'] + f['size'], len(it.img) + 1) - (f['cur'] + f['size']))
                    stats['cursor_gap_setter_runs'] += 1
                    stats['cursor_gap_window_points'] += pts
                    if var == 'set.plain' and not f['last']:
                        stats['cursor_gap_setter_runs_nonlast_plain'] += 1
                        stats['cursor_gap_window_points_nonlast_plain'] += pts
            stats['cursor_images_with_gap_setter'] += 1 if anygap else 0
        kreqs = [(i, c10gen.lean_request(it.case.layout['byteOrder'], BASE, it.img, 'all', it.m,
                                         [(it.evals[j].needs_end, it.evals[j].lean_ops) for j in it.cidx
                                          if it.evals[j].modelled], canary=True))
                 for i, it in enumerate(items) if it.cidx]

        def model_chunk(lines):
            return run.model_lines(lines)
        chunks = [list(range(i, len(items), core.NPROC)) for i in range(core.NPROC)]
        chunks = [ch for ch in chunks if ch]
        with cf.ThreadPoolExecutor(core.NPROC) as ex:
            for idxs, outs in zip(chunks, ex.map(lambda ix: model_chunk([reqs[i] for i in ix]), chunks)):
                for i, o in zip(idxs, outs):
                    blocks = o.split(',')
                    it = items[i]
                    if o.startswith('bad-op') or len(blocks) != len(it.img) + 1:
                        chk.report_unproved('model-guard', {'answer': o[:300], 'request': reqs[i][:600]})
                        it.model = None
                    else:
                        # chains without a model (container operations) get the placeholder '-'
                        cols = []
                        for b in blocks:
                            parts = b.split('/')
                            k = 0
                            full = [[], [], []]
                            for ev in it.evals:
                                for q in range(3):
                                    full[q].append(parts[q][k] if ev.modelled else '-')
                                if ev.modelled:
                                    k += 1
                            cols.append([''.join(x) for x in full])
                        it.model = cols
        chk.log('model: guard requests answered')
        cchunks = [creqs[i::core.NPROC] for i in range(core.NPROC)]
        cchunks = [ch for ch in cchunks if ch]
        with cf.ThreadPoolExecutor(core.NPROC) as ex:
            for ch, outs in zip(cchunks, ex.map(lambda ch: run.model_lines([r[1] for r in ch]), cchunks)):
                for (i, rq), o in zip(ch, outs):
                    blocks = o.split(',')
                    it = items[i]
                    if o.startswith('bad-op') or len(blocks) != len(it.img) + 1:
                        chk.report_unproved('model-ctrav', {'answer': o[:300], 'request': rq[:800]})
                        it.cruns = []
                    else:
                        it.cmodel = [b.split('/') for b in blocks]
        chk.log('model: cursor traversal requests answered (%d runs, %d setter runs)' % (
            stats['cursor_runs'], stats['cursor_setter_runs']))
        kchunks = [kreqs[i::core.NPROC] for i in range(core.NPROC)]
        kchunks = [ch for ch in kchunks if ch]
        with cf.ThreadPoolExecutor(core.NPROC) as ex:
            for ch, outs in zip(kchunks, ex.map(lambda ch: run.model_lines([r[1] for r in ch]), kchunks)):
                for (i, rq), o in zip(ch, outs):
                    blocks = o.split(',')
                    it = items[i]
                    if o.startswith('bad-op') or len(blocks) != len(it.img) + 1:
                        chk.report_unproved('model-guard-canary', {'answer': o[:300], 'request': rq[:800]})
                        it.cidx = []
                        continue
                    rows = []
                    for b in blocks:
                        runs = b.split('/')[0]
                        k = 0
                        row = []
                        for j in it.cidx:
                            if it.evals[j].modelled:
                                row.append(runs[k])
                                k += 1
                            else:
                                row.append('-')
                        rows.append(''.join(row))
                    it.canary_model = rows
        chk.log('model answers done')
        # implementation
        per_driver = {}
        for i, it in enumerate(items):
            if it.model is None:
                continue
            for (cxx, std) in configs:
                exe = drivers.get((it.case.idx, cxx, std))
                if exe:
                    per_driver.setdefault((exe, cxx, std), []).append(i)

        def drive(job):
            (exe, cxx, std), idxs = job
            lines = []
            for i in idxs:
                lines.append('trunc %s %s all %s' % (items[i].m['name'], wire.hexs(items[i].img) or '-',
                                                     ';'.join(ev.cpp_path for ev in items[i].evals)))
                lines.append('ctrav %s %s all %s' % (items[i].m['name'], wire.hexs(items[i].img) or '-',
                                                    c10gen.cpp_ctrav_runs(items[i].cruns)))
                lines.append('canary %s %s all %d %s' % (
                    items[i].m['name'], wire.hexs(items[i].img) or '-', c10gen.CANARY_SLACK,
                    ';'.join(items[i].evals[j].cpp_path for j in items[i].cidx) or 'z'))
            rc, outs = run.run_driver(exe, lines)
            return job, rc, outs
        with cf.ThreadPoolExecutor(core.NPROC) as ex:
            results = list(ex.map(drive, per_driver.items()))
        chk.log('driver runs done')
        nontrivial = set()
        for ((exe, cxx, std), idxs), rc, outs in results:
            if rc != 0 or len(outs) != 3 * len(idxs):
                chk.report_unproved('driver-run', {'rc': rc, 'answers': len(outs), 'requests': 3 * len(idxs),
                                                   'tail': outs[-1][:200] if outs else ''})
                continue
            for i, o, oc, ok_ in zip(idxs, outs[0::3], outs[1::3], outs[2::3]):
                it = items[i]
                if it.cidx and it.canary_model is not None:
                    kblocks = ok_.split(',')
                    if len(kblocks) != len(it.img) + 1 or any(len(b) != len(it.cidx) for b in kblocks):
                        chk.report_unproved('driver-answer-canary', {'answer': ok_[:200], 'message': it.m['name']})
                    else:
                        judge_canary(chk, run, it, cxx, std, kblocks, stats)
                if it.cruns and it.cmodel is not None:
                    cblocks = oc.split(',')
                    if len(cblocks) != len(it.img) + 1 or any(len(b) != len(it.cruns) for b in cblocks):
                        chk.report_unproved('driver-answer-ctrav', {'answer': oc[:200], 'message': it.m['name']})
                    else:
                        judge_cursor(chk, run, it, cxx, std, cblocks, stats)
                blocks = o.split(',')
                if len(blocks) != len(it.img) + 1 or any(len(b) != len(it.evals) for b in blocks):
                    chk.report_unproved('driver-answer', {'answer': o[:200], 'message': it.m['name']})
                    continue
                judge(chk, run, it, cxx, std, blocks, stats)
                nontrivial.add((it.case.idx, it.m['name'], wire.hexs(it.img)))
                if len(chk.cov['samples']) < 4:
                    chk.sample({'message': it.m['name'], 'image': wire.hexs(it.img)[:120], 'mutation': it.mut,
                                'chains': [ev.cpp_path for ev in it.evals[:12]],
                                'n=|image|/2': blocks[len(it.img) // 2][:12]})
        chk.cov['distinct_nontrivial'] += len(nontrivial)
    finally:
        run.cleanup()
    return run, stats


def run(chk):
    extract_all(chk)
    proved = chk.prove(MODULE, THEOREMS)
    if chk.tier == 'thorough' and proved:
        chk.leanchecker(MODULE)
    if chk.tier == 'thorough':
        configs = [(c, s_) for c in ('g++', 'clang++-14') for s_ in ('c++11', 'c++14', 'c++17', 'c++20')]
        run_, stats = run_schemas(chk, 80, configs, values_per_msg=1, muts_per_image=3, max_image=240, max_chains=200,
                                  max_cursor_members=32)
    else:
        configs = [('g++', 'c++17'), ('clang++-14', 'c++11')]
        run_, stats = run_schemas(chk, 12, configs, values_per_msg=1, muts_per_image=3)
    W.finish_cov(chk, run_, 'one evaluation = one accessor chain (every accessor kind of a generated message on its own: '
                 'field getters/setters, composite/array views and elements, header access, group size/begin/++/*/[] '
                 'and size_bytes, entry members recursively, data size/data/elements/resize/assign_range and container '
                 'operations; cursor traversals: every member read through the plain cursor and through each of the four '
                 'wrappers after a traversal prefix, scalar fields also written through the cursor setter and the '
                 'setters of init / dont_move / init_dont_move) called on '
                 'make_view<Msg>(p, n) over a buffer of exactly n accessible bytes, for one n in 0..|image|, one '
                 'compiler configuration of a checked build; distinct = distinct (schema, message, image)')
    chk.cov['c10'] = {k: v for k, v in stats.items() if k != 'kinds'}
    chk.cov['accessor_kind_histogram'] = dict(sorted(stats['kinds'].items()))
    if chk.failed_obligations and not chk.violations:
        chk.report_unproved('theorem', chk.failed_obligations)
    chk.assumptions += [
        'the begin of a composite is taken as the offset of its first leaf in the model requests (a composite begins at '
        'or before it): verdicts are unaffected because every access through the composite lies at or after that leaf',
        'header values are overwritten with at most 2^32-1 so that derived pointers stay inside the 8 GiB PROT_NONE tail',
        'cursor traversals are skipped for messages in which a composite-typed field begins before its first non-constant '
        'leaf (custom offset on the first element): the accessor constants cannot be reconstructed from the leaves',
        'container operations of <data> views (front/back/push_back/pop_back/clear/erase/insert/resize(count)) are '
        'judged implementation vs specification only (no Lean model of their event order)',
        'the specification asks for the documented extent of a view (complete header / array / size() elements): calls '
        'that complete with fewer bytes (clear, pop_back) are counted as ok_beyond_needs, not as failures',
        'constant evaluation (C++20 constexpr) is not exercised by the drivers',
    ]


def replay(chk, rep):
    """re-run the recorded case on the current tree: real sbeppc on schema_xml, generated driver on driver_line,
    sbepp_model on model_line; prints implementation, model and specification side by side"""
    import re
    import shutil
    import tempfile
    from .. import sbeppc
    print(json.dumps({k: rep[k] for k in rep if k not in ('schema_xml', 'schema_sexp', 'model_line', 'driver_line')},
                     indent=1)[:3000])
    if 'schema_xml' not in rep or 'driver_line' not in rep:
        print('not an input replay (theorem / extraction / correspondence record)')
        return 1
    extract_all(chk)
    model = chk.model_exe()
    exe, log = sbeppc.build(chk)
    if model is None or exe is None:
        print('cannot build the model driver / sbeppc')
        return 1
    d = tempfile.mkdtemp(prefix='c10replay', dir=core.BUILD)
    try:
        class Case:
            pass
        case = Case()
        case.dir = d
        case.xml = os.path.join(d, 'schema.xml')
        open(case.xml, 'w').write(rep['schema_xml'])
        case.s = {'package': re.search(r'package="([^"]+)"', rep['schema_xml']).group(1)}
        rc, out = sbeppc.run(exe, case.xml, os.path.join(d, 'gen'))
        if rc != 0:
            print('sbeppc rejects the schema now: rc=%s %s' % (rc, out[:300]))
            return 1
        rc, lay = core.sh([model], input='layout ' + rep['schema_sexp'] + '\n')
        case.layout = json.loads(lay)
        cfg = rep.get('config', {})
        drv, log = c10gen.build(case, cfg.get('cxx', 'g++'), cfg.get('std', 'c++17'))
        if drv is None:
            print('driver does not compile:\n' + log[-2000:])
            return 1
        line = rep['driver_line'].split('  #')[0]
        rc, impl = core.sh([drv], input=line + '\n')
        rc, mod = core.sh([model], input=rep['model_line'] + '\n')
        print('driver_line : ' + line[:400])
        print('impl        : ' + impl.strip()[:400])
        print('model       : ' + mod.strip()[:400] + '   (RUN/GUARD/SPEC, one character per chain or cursor run)')
        print('spec        : expected %s (needs_end=%s, n=%s)' % (
            rep.get('observed', {}).get('spec'), rep.get('case', {}).get('needs_end'), rep.get('n')))
        got = impl.strip()
        j = None
        m = re.search(r'answer character (\d+)', rep['driver_line'])
        if m:
            j = int(m.group(1))
        ch = got[j] if (j is not None and j < len(got)) else (got[:1] if got else '?')
        names = dict(CH, w='ok-after-write (bytes behind the view modified, handler not invoked)',
                     W='ASSERT-after-write (bytes behind the view modified, then the handler)')
        print('observed now: %s' % names.get(ch, ch))
        return 0 if CH.get(ch) == rep.get('observed', {}).get('spec') else 1
    finally:
        shutil.rmtree(d, ignore_errors=True)
