"""C04 - cursor access is equivalent to random access and tracks position;
illegal cursor calls are reported in checked builds."""
import concurrent.futures as cf
import copy
import json
import os
import random
import zlib

from .. import core, wire, wirecheck as W, c04gen as G, schema as S
from . import c02

MODULE = 'Sbepp.Properties.C04'
THEOREMS = [
    'Sbepp.Properties.C04.cursor_abs_eq_random',
    'Sbepp.Properties.C04.compiled_accessors',
    'Sbepp.Properties.C04.cursor_rel_chain',
    'Sbepp.Properties.C04.cursor_step_field',
    'Sbepp.Properties.C04.cursor_step_set',
    'Sbepp.Properties.C04.cursor_step_group',
    'Sbepp.Properties.C04.cursor_step_data',
    'Sbepp.Properties.C04.cursor_step',
    'Sbepp.Properties.C04.cursor_step_protocol',
    'Sbepp.Properties.C04.protocol_geometry_is_image_geometry',
    'Sbepp.Properties.C04.cursor_wrong_position_reported',
    'Sbepp.Properties.C04.cursor_subrange_spec',
    'Sbepp.Properties.C04.cursor_subrange_spec_unchecked',
    'Sbepp.Properties.C04.cursor_range_iteration',
    'Sbepp.Properties.C04.size_check_sound',
    'Sbepp.Properties.C04.cursor_checked_get_inside_view',
    'Sbepp.Properties.C04.cursor_checked_set_inside_view',
    'Sbepp.Properties.C04.cursor_traversal_end_partial',
    'Sbepp.Properties.C04.cursor_entry_traversal_end',
    'Sbepp.Properties.C04.cursor_traversal_end_image',
    'Sbepp.Properties.C04.cursor_traversal_end_schema',
    'Sbepp.Properties.C04.cursor_traversal_end_full_false',
    # the same statements about the member functions as translated from the current sbepp.hpp (extract/methods_cursor.py)
    'Sbepp.Properties.C04.cursor_step_field_extracted',
    'Sbepp.Properties.C04.cursor_step_set_extracted',
    'Sbepp.Properties.C04.cursor_step_group_extracted',
    'Sbepp.Properties.C04.cursor_step_data_extracted',
    'Sbepp.Properties.C04.cursor_step_protocol_extracted',
    'Sbepp.Properties.C04.cursor_wrong_position_reported_extracted',
    'Sbepp.Properties.C04.cursor_checked_get_inside_view_extracted',
    'Sbepp.Properties.C04.cursor_checked_set_inside_view_extracted',
    'Sbepp.Lemmas.CursorTie.stepFieldX_eq',
    'Sbepp.Lemmas.CursorTie.stepSetX_eq',
    'Sbepp.Lemmas.CursorTie.stepGroupX_eq',
    'Sbepp.Lemmas.CursorTie.stepDataX_eq',
] + ['Sbepp.Lemmas.CursorTie.%s.%s_tie' % (_c, _m)      # translated method = hand model, per (class, method)
     for _c in ('C', 'I', 'IDM', 'DM', 'S')
     for _m in ('get_value', 'set_value', 'get_last_value', 'set_last_value', 'get_static_field_view',
                'get_last_static_field_view', 'get_first_group_view', 'get_first_data_view', 'get_group_view',
                'get_data_view')
     if not (_c == 'S' and _m.startswith('set_'))] + [
    # cursor ranges: the same statements about the member functions translated from sbepp.hpp (extract/methods_group.py)
    'Sbepp.Properties.C04.cursor_subrange_spec_extracted',
    'Sbepp.Properties.C04.cursor_subrange_spec_unchecked_extracted',
    'Sbepp.Properties.C04.cursor_range_iteration_extracted',
    'Sbepp.Lemmas.GroupTie.C.mkRangeFlatX_eq',
    'Sbepp.Lemmas.GroupTie.C.mkRangeNestedX_eq',
    'Sbepp.Lemmas.GroupTie.C.forRange_visitLoop',
    'Sbepp.Lemmas.GroupTie.C.forRange_iterE',
    'Sbepp.Lemmas.GroupTie.C.Entry.accessors_tie',
] + ['Sbepp.Lemmas.GroupTie.C.%s.%s_tie' % (_c, _m)
     for _c, _ms in (('Entry', ('ctor_ptr', 'ctor_cursor')),
                     ('InputIt', ('ctor', 'deref', 'inc', 'eq', 'ne')),
                     ('CursorRange', ('ctor', 'size', 'begin', 'end')),
                     ('CFlat', ('get_header', 'sbe_size', 'size', 'cursor_range', 'cursor_subrange1', 'cursor_subrange2',
                                'cursor_begin', 'cursor_end', 'visit_children')),
                     ('CNested', ('get_header', 'sbe_size', 'size', 'cursor_range', 'cursor_subrange1', 'cursor_subrange2',
                                  'cursor_begin', 'cursor_end', 'visit_children')))
     for _m in _ms]

MOVING = ('plain', 'init', 'skip')


def stable_seed(*parts):
    """process-independent seed (str hashes are salted per process)"""
    return zlib.crc32(repr(parts).encode())

PRE_WRAPPERS = ('plain', 'dont_move', 'skip')


# ------------------------------------------------------------------ directed schemas

def _hdr(name, members):
    return {'k': 'composite', 'name': name, 'elems': [{'k': 'type', 'name': n, 'prim': p} for n, p in members]}


def directed_schemas():
    """hand-written corner cases of the cursor protocol: levels whose cursor
    accessors cannot move the cursor (no member at all; constant fields only),
    gaps before/after fields, view-typed last fields, data-first levels,
    several groups and data members per level, nesting"""
    types = [
        _hdr('messageHeader', [('blockLength', 'uint16'), ('templateId', 'uint16'), ('schemaId', 'uint16'),
                               ('version', 'uint16')]),
        _hdr('Dim', [('blockLength', 'uint16'), ('numInGroup', 'uint8')]),
        _hdr('Dim2', [('blockLength', 'uint8'), ('numInGroup', 'uint16')]),
        {'k': 'composite', 'name': 'Var', 'elems': [{'k': 'type', 'name': 'length', 'prim': 'uint8'},
                                                    {'k': 'type', 'name': 'varData', 'prim': 'uint8', 'length': 0}]},
        {'k': 'composite', 'name': 'Var2', 'elems': [{'k': 'type', 'name': 'length', 'prim': 'uint16'},
                                                     {'k': 'type', 'name': 'varData', 'prim': 'char', 'length': 0}]},
        {'k': 'type', 'name': 'K', 'prim': 'uint16', 'presence': 'constant', 'const': '7'},
        {'k': 'type', 'name': 'A3', 'prim': 'char', 'length': 3},
        {'k': 'type', 'name': 'A0', 'prim': 'uint8', 'length': 0},
        {'k': 'composite', 'name': 'Cmp', 'elems': [{'k': 'type', 'name': 'x', 'prim': 'uint8'},
                                                    {'k': 'type', 'name': 'y', 'prim': 'uint32', 'offset': 3}]},
        {'k': 'enum', 'name': 'En', 'enc': 'uint8', 'values': [{'name': 'A', 'value': 1}, {'name': 'B', 'value': 2}]},
        {'k': 'set', 'name': 'St', 'enc': 'uint16', 'choices': [{'name': 'a', 'index': 0}, {'name': 'b', 'index': 9}]},
    ]

    def sch(msgs, bo='littleEndian'):
        return {'package': 'vs', 'id': 9, 'version': 1, 'byteOrder': bo, 'types': copy.deepcopy(types), 'messages': msgs}

    out = []
    # 1: entries whose only fields are constants, followed by more members (custom block length 4)
    out.append(sch([{
        'name': 'MK', 'id': 1, 'fields': [{'name': 'fa', 'id': 1, 'type': 'uint32'}],
        'groups': [{'name': 'gk', 'id': 2, 'dim': 'Dim', 'blockLength': 4, 'fields': [{'name': 'fk', 'id': 3, 'type': 'K'}],
                    'groups': [], 'datas': []},
                   {'name': 'ge', 'id': 4, 'dim': 'Dim', 'blockLength': 2, 'fields': [], 'groups': [], 'datas': []}],
        'datas': [{'name': 'dz', 'id': 5, 'type': 'Var'}]}]))
    # 2: message without members; message with constant fields only
    out.append(sch([{'name': 'ME', 'id': 1, 'blockLength': 3, 'fields': [], 'groups': [], 'datas': []},
                    {'name': 'MC', 'id': 2, 'blockLength': 2, 'fields': [{'name': 'fk', 'id': 1, 'type': 'K'}],
                     'groups': [], 'datas': []}]))
    # 3: gaps, views as last field, all field kinds, both byte orders
    for bo in ('littleEndian', 'bigEndian'):
        out.append(sch([{
            'name': 'MG', 'id': 1, 'blockLength': 30, 'fields': [
                {'name': 'f1', 'id': 1, 'type': 'uint16', 'offset': 2}, {'name': 'f2', 'id': 2, 'type': 'K'},
                {'name': 'f3', 'id': 3, 'type': 'A3', 'offset': 6}, {'name': 'f4', 'id': 4, 'type': 'En'},
                {'name': 'f5', 'id': 5, 'type': 'St', 'offset': 12}, {'name': 'f6', 'id': 6, 'type': 'A0'},
                {'name': 'f7', 'id': 7, 'type': 'double'}, {'name': 'f8', 'id': 8, 'type': 'Cmp', 'offset': 23}],
            'groups': [], 'datas': []},
            {'name': 'MV', 'id': 2, 'fields': [{'name': 'v1', 'id': 1, 'type': 'int64'},
                                               {'name': 'v2', 'id': 2, 'type': 'A3', 'offset': 9}],
             'groups': [], 'datas': [{'name': 'vd1', 'id': 3, 'type': 'Var'}, {'name': 'vd2', 'id': 4, 'type': 'Var2'}]}], bo))
    # 4: several groups and data members on every level, nesting, levels without fields
    out.append(sch([{
        'name': 'MN', 'id': 1, 'fields': [{'name': 'n1', 'id': 1, 'type': 'uint8'}, {'name': 'n2', 'id': 2, 'type': 'uint32', 'offset': 4}],
        'groups': [
            {'name': 'ga', 'id': 3, 'dim': 'Dim', 'fields': [{'name': 'a1', 'id': 4, 'type': 'uint16'}],
             'groups': [{'name': 'gaa', 'id': 5, 'dim': 'Dim2', 'blockLength': 5,
                         'fields': [{'name': 'aa1', 'id': 6, 'type': 'uint8', 'offset': 1}, {'name': 'aa2', 'id': 7, 'type': 'A3'}],
                         'groups': [], 'datas': [{'name': 'aad', 'id': 8, 'type': 'Var'}]}],
             'datas': [{'name': 'ad', 'id': 9, 'type': 'Var2'}]},
            {'name': 'gb', 'id': 10, 'dim': 'Dim2', 'fields': [], 'groups': [],
             'datas': [{'name': 'bd1', 'id': 11, 'type': 'Var'}, {'name': 'bd2', 'id': 12, 'type': 'Var'}]},
            {'name': 'gc', 'id': 13, 'dim': 'Dim', 'fields': [{'name': 'c1', 'id': 14, 'type': 'En'}, {'name': 'c2', 'id': 15, 'type': 'Cmp'}],
             'groups': [], 'datas': []}],
        'datas': [{'name': 'nd1', 'id': 16, 'type': 'Var'}, {'name': 'nd2', 'id': 17, 'type': 'Var2'}]},
        {'name': 'MD', 'id': 2, 'blockLength': 2, 'fields': [],
         'groups': [{'name': 'gd', 'id': 3, 'dim': 'Dim', 'fields': [{'name': 'd1', 'id': 4, 'type': 'uint8'}], 'groups': [], 'datas': []}],
         'datas': []}]))
    return out


# ------------------------------------------------------------------ script generators

def rand_bits(rng, size):
    return rng.randrange(256 ** size) if size else 0


def field_calls(rng, f, variant):
    n = f['name']
    if variant == 'plain':
        return [('c', n, 'plain')]
    mov = rng.choice(MOVING)
    opts = [[('c', n, 'plain')], [('c', n, 'init')], [('c', n, 'skip')],
            [('c', n, 'dont_move'), ('c', n, mov)], [('c', n, 'init_dont_move'), ('c', n, mov)],
            [('c', n, 'dont_move'), ('c', n, 'dont_move'), ('c', n, mov)]]
    if not f['isView'] and f['size'] > 0:
        b = rand_bits(rng, f['size'])
        opts += [[('s', n, 'plain', b)], [('s', n, 'init', b)], [('s', n, 'dont_move', b), ('c', n, mov)],
                 [('s', n, 'init_dont_move', b), ('c', n, 'plain')], [('c', n, 'dont_move'), ('s', n, 'plain', b)]]
    return rng.choice(opts)


def split_ranges(rng, bodies, variant):
    """cover entries [0, n) by an `all` loop that breaks after k entries followed
    by subranges, all from legal cursor positions"""
    n = len(bodies)
    if variant == 'plain' or n == 0 or rng.random() < 0.4:
        return [('all', 0, 0, bodies)]
    k = rng.randint(0, n)
    out = [('all', 0, 0, bodies[:k])]
    while k < n:
        if rng.random() < 0.5:
            out.append(('sub', k, 0, bodies[k:]))
            k = n
        else:
            c = rng.randint(0, n - k)
            out.append(('subn', k, c, bodies[k:k + c]))
            k += c
            if c == 0 and rng.random() < 0.5:
                out.append(('sub', k, 0, bodies[k:]))
                k = n
    return out


def group_calls(rng, g, gv, variant):
    n = g['name']
    bodies = [legal_traversal(rng, g['level'], e, variant) for e in gv['entries']]
    if variant == 'plain':
        return [('r', n, 'plain', [('all', 0, 0, bodies)])]
    c = rng.random()
    if c < 0.15:
        return [('c', n, 'skip')]
    pre = []
    if c < 0.3:
        pre = [('c', n, 'dont_move')]
    elif c < 0.45:
        pre = [('c', n, 'init_dont_move')]
    w = rng.choice(('plain', 'init'))
    return pre + [('r', n, w, split_ranges(rng, bodies, variant))]


def data_calls(rng, d, variant):
    n = d['name']
    if variant == 'plain':
        return [('c', n, 'plain')]
    mov = rng.choice(MOVING)
    return rng.choice([[('c', n, 'plain')], [('c', n, 'init')], [('c', n, 'skip')],
                       [('c', n, 'dont_move'), ('c', n, mov)], [('c', n, 'init_dont_move'), ('c', n, mov)]])


def legal_traversal(rng, level, value, variant='random'):
    items = []
    for f in level['fields']:
        items += field_calls(rng, f, variant)
    for g, gv in zip(level['groups'], value['groups']):
        items += group_calls(rng, g, gv, variant)
    for d in level['datas']:
        items += data_calls(rng, d, variant)
    return items


def start_for(rng, level, items):
    """a default-constructed cursor is legal when the first call initializes it"""
    if items and (items[0][2] in ('init', 'init_dont_move') or not level['fields']) and rng.random() < 0.4:
        return 'null'
    return 'init'


def injections(rng, level, value, items, limit):
    """copies of a legal traversal with one extra plain/dont_move/skip call of
    another member of the same level inserted at one position"""
    sites = []   # (path to list, index, level)

    def walk(lv, its, path):
        for i in range(len(its) + 1):
            sites.append((path, i, lv))
        for i, it in enumerate(its):
            if it[0] == 'r':
                sub = [g for g in lv['groups'] if g['name'] == it[1]][0]['level']
                for ri, rg in enumerate(it[3]):
                    for bi, b in enumerate(rg[3]):
                        walk(sub, b, path + [(i, ri, bi)])
    walk(level, items, [])
    rng.shuffle(sites)
    out = []
    for (path, idx, lv) in sites:
        if len(out) >= limit:
            break
        ms = G.members(lv)
        tgt = items
        for (i, ri, bi) in path:
            tgt = tgt[i][3][ri][3][bi]
        nxt = tgt[idx][1] if idx < len(tgt) else None
        cands = [m for m in ms if m[1] != nxt]
        if not cands:
            continue
        kind, name, _ = rng.choice(cands)
        new = copy.deepcopy(items)
        t2 = new
        for (i, ri, bi) in path:
            t2 = t2[i][3][ri][3][bi]
        t2.insert(idx, ('c', name, rng.choice(PRE_WRAPPERS)))
        out.append(new)
    return out


def bad_subranges(level, value):
    """cursor_subrange precondition violations on every root group"""
    out = []
    for g, gv in zip(level['groups'], value['groups']):
        n = len(gv['entries'])
        pre = [('c', f['name'], 'init') for f in level['fields'][-1:]]
        for rg in (('sub', n, 0, []), ('subn', n, 0, []), ('subn', 0, n + 1, []), ('subn', max(n - 1, 0), 2, [])):
            out.append(pre + [('r', g['name'], 'init', [rg])])
    return out


def prefix_before(level, value, gi):
    """plain traversal of everything before group `gi` of a level"""
    rng = random.Random(0)
    items = []
    for f in level['fields']:
        items += field_calls(rng, f, 'plain')
    for g, gv in list(zip(level['groups'], value['groups']))[:gi]:
        items += group_calls(rng, g, gv, 'plain')
    return items


def subrange_scripts(level, value, depth=0):
    """every overload of cursor_range / cursor_subrange on every group reachable through first entries
    (flat and nested groups, root and inner levels): pos in {0, 1, size-1, size}, count in {0, 1, size-pos};
    the cursor is brought to entry `pos` by iterating the first `pos` entries of cursor_range, then the range under
    test is iterated completely (every entry traversed in order); the script ends after the loop, so the final
    cursor is the end of the last entry of the range"""
    rng = random.Random(0)
    out = []
    for gi, (g, gv) in enumerate(zip(level['groups'], value['groups'])):
        n = len(gv['entries'])
        bodies = [legal_traversal(rng, g['level'], e, 'plain') for e in gv['entries']]
        pre = prefix_before(level, value, gi)
        ranges = [[('all', 0, 0, bodies)]]
        for pos in sorted({0, 1, max(n - 1, 0), n}):
            lead = [('all', 0, 0, bodies[:pos])] if pos else []
            ranges.append(lead + [('sub', pos, 0, bodies[pos:])])
            for count in sorted({0, 1, max(n - pos, 0)}):
                ranges.append(lead + [('subn', pos, count, bodies[pos:pos + count])])
        # a sub-range followed by the rest of the group and of the message: the traversal stays legal
        for rs in ranges:
            out.append(pre + [('r', g['name'], 'plain', rs)])
        if n and depth < 2:
            for inner in subrange_scripts(g['level'], gv['entries'][0], depth + 1)[:14]:
                out.append(pre + [('r', g['name'], 'plain', [('all', 0, 0, [inner])])])
    return out


def alphabet(rng, level, value):
    """single steps for the exhaustive exploration: every (member, wrapper)
    getter, setters, and one call inside the first entry of every group"""
    A = []
    for kind, name, info in G.members(level):
        for w in G.WRAPPERS:
            A.append(('c', name, w))
        if kind == 'f' and not info['isView'] and info['size'] > 0:
            for w in ('plain', 'dont_move'):
                A.append(('s', name, w, rand_bits(rng, info['size'])))
    for g, gv in zip(level['groups'], value['groups']):
        if gv['entries']:
            for kind, name, info in G.members(g['level']):
                for w in G.WRAPPERS:
                    A.append(('r', g['name'], 'plain', [('all', 0, 0, [[('c', name, w)]])]))
            A.append(('r', g['name'], 'dont_move', [('all', 0, 0, [[]])]))
    return A


# ------------------------------------------------------------------ running and judging

def parse_answers(line):
    """model answer -> (head kvs, [per-script kvs])"""
    parts = line.split(' model=')
    head = W.kvs(parts[0])
    outs = []
    for p in parts[1:]:
        outs.append(W.kvs('model=' + p))
    return head, outs


def first_diff(a, b):
    xa, xb = a.split(';'), b.split(';')
    for i, (x, y) in enumerate(zip(xa, xb)):
        if x != y:
            return i, x, y
    if len(xa) != len(xb):
        i = min(len(xa), len(xb))
        return i, (xa[i] if i < len(xa) else None), (xb[i] if i < len(xb) else None)
    return None


def level_at(clevel, path):
    """the level a dotted event path like g7[1].f9 lives in, and the member name"""
    lv = clevel
    segs = path.split('.')
    for s in segs[:-1]:
        gname = s.split('[')[0]
        lv = [g for g in lv['groups'] if g['name'] == gname][0]['level']
    return lv, segs[-1]


def diagnose(clevel, ev_impl, ev_spec):
    """narrow description of the first event where implementation and specification differ"""
    d = first_diff(ev_impl, ev_spec)
    if d is None:
        return {}
    i, x, y = d
    case = {'first_diff_index': i, 'impl_event': x, 'spec_event': y}
    ref = y or x
    if ref and '=' in ref:
        path = ref.split('=')[0]
        try:
            lv, last = level_at(clevel, path)
            if '#' in last:   # a range object (its size) or the state of its iterator after the loop
                g = [g for g in lv['groups'] if g['name'] == last.split('#')[0]][0]
                el = g['level']
                case.update({'member_kind': 'range-end' if last.endswith('end') else 'range-size',
                             'group_kind': 'flat' if not el['groups'] and not el['datas'] else 'nested'})
            elif '[' in last:   # entry creation
                g = [g for g in lv['groups'] if g['name'] == last.split('[')[0]][0]
                el = g['level']
                case.update({'member_kind': 'entry', 'entry_members': len(G.members(el)),
                             'entry_declared_fields': el['nDecl'], 'entry_has_cursor_ctor': el['emptyCtor']})
            else:
                kinds = {n: k for k, n, _ in G.members(lv)}
                case['member_kind'] = {'f': 'field', 'g': 'group', 'd': 'data'}.get(kinds.get(last), '?')
        except (IndexError, KeyError):
            pass
    elif ref in ('ASSERT', 'UB', 'FAULT') or (x and x.startswith('end@')) or (y and y.startswith('end@')):
        case['member_kind'] = 'end'
    return case


class CursorRun:
    def __init__(self, chk, run):
        self.chk = chk
        self.run = run
        self.clayouts = {}
        self.drivers = {}
        self.unchecked = {}
        self.stats = {'cursor_requests': 0, 'cursor_calls': 0, 'layerG_accessors': 0, 'c04_driver_builds': 0,
                      'scripts_legal': 0, 'scripts_injected': 0, 'scripts_exhaustive': 0, 'scripts_subrange': 0,
                      'spec_unspecified': 0, 'asserts_expected': 0}
        self.outcomes = {}
        self.distinct = set()

    # -- layouts, Layer G, drivers
    def prepare(self):
        chk, run = self.chk, self.run
        outs = run.model_lines(['cursor (layout %s)' % c.sexp for c in run.cases])
        good = []
        for c, o in zip(run.cases, outs):
            try:
                lay = json.loads(o)
            except ValueError:
                chk.report_unproved('model-cursor-layout', {'answer': o[:300], 'schema_xml': open(c.xml).read()})
                continue
            bad = [m for m in lay.get('messages', []) if 'error' in m or not m.get('sameAsWireLayout')]
            if 'error' in lay or bad:
                chk.report_unproved('impl≠model: the cursor layout model (Gen.CursorOffsets) disagrees with the wire '
                                    'layout model on an accepted schema', {'model': (bad or [lay])[0], 'schema_xml': open(c.xml).read()})
                continue
            self.clayouts[c.idx] = lay
            good.append(c)
            self.layer_g(c, lay)
        # checked builds under every configuration; one build with assertions compiled out (legal sequences only)
        jobs = [(c, cxx, std, True) for c in good for (cxx, std) in run.configs]
        jobs += [(c, run.configs[0][0], run.configs[0][1], False) for c in good]

        def build(job):
            c, cxx, std, checked = job
            exe, log = G.build_driver(c, self.clayouts[c.idx], cxx, std, checked)
            return job, exe, log
        with cf.ThreadPoolExecutor(core.NPROC) as ex:
            for (c, cxx, std, checked), exe, log in ex.map(build, jobs):
                self.stats['c04_driver_builds'] += 1
                if exe is not None and not checked:
                    self.unchecked[(c.idx, cxx, std)] = exe
                    continue
                if exe is None:
                    chk.report_failure({'kind': 'generated cursor accessors do not compile',
                                        'config': {'cxx': cxx, 'std': std}, 'schema_xml': open(c.xml).read(),
                                        'compiler_output': log[-3000:],
                                        'case': {'what': 'c04-driver-compile', 'cxx': cxx, 'std': std,
                                                 'first_error': W.first_error(log)}})
                else:
                    self.drivers[(c.idx, cxx, std)] = exe
        return good

    def layer_g(self, c, lay):
        """REL/ABS/last-flag of every generated cursor accessor, read from the text sbeppc wrote"""
        chk = self.chk
        got = G.parse_generated_accessors(os.path.join(c.dir, 'gen'), c.s['package'])
        exp = G.expected_accessors(lay)
        for name, es in exp.items():
            self.stats['layerG_accessors'] += len(es)
            gs = got.get(name, [])
            # getters only: a field has one getter (setters are matched by the same regex only via get_*)
            if sorted(set(es), key=str) != sorted(set(gs), key=str):
                # specification: ABS = validator offset + header size, REL = distance from the previous field's end
                chk.report_failure({'kind': 'impl≠spec', 'what': 'constants of a generated cursor accessor',
                                    'member': name, 'generated': gs, 'expected': es, 'schema_xml': open(c.xml).read(),
                                    'case': {'what': 'cursor-accessor-constants', 'member': name}})

    # -- execution
    def execute(self, kind, jobs, checked=True):
        """jobs: (case, msg clayout, value, start, [scripts]) -> compares impl/model/spec per script"""
        chk, run = self.chk, self.run
        if not jobs:
            return []
        reqs = []
        drivers = self.drivers if checked else self.unchecked
        jobs = [j if len(j) == 6 else tuple(j) + (None,) for j in jobs]
        for (c, m, v, start, scripts, vsize) in jobs:
            reqs.append('cursor (req %s (msg %s) (value %s) (start %s)%s%s %s)' % (
                c.sexp, m['name'], wire.mval_sexp(v), start, '' if checked else ' (checks off)',
                '' if vsize is None else ' (end %d)' % vsize,
                ' '.join('(calls %s)' % G.items_sexp(s) for s in scripts)))
        mouts = run.model_lines(reqs)
        per_driver = {}
        parsed = []
        for (c, m, v, start, scripts, vsize), mo in zip(jobs, mouts):
            head, outs = parse_answers(mo)
            if head.get('conf') != 'true' or len(outs) != len(scripts):
                chk.report_unproved('model-cursor', {'answer': mo[:400], 'schema_xml': open(c.xml).read()})
                parsed.append(None)
                continue
            parsed.append((head, outs))
            for (cxx, std) in run.configs:
                exe = drivers.get((c.idx, cxx, std))
                if exe:
                    lst = per_driver.setdefault((exe, cxx, std), [])
                    for si, s in enumerate(scripts):
                        lst.append((len(parsed) - 1, si, G.driver_request(m['name'], m['level'], head['image'], start, s,
                                                                          '-' if vsize is None else '%d' % vsize)))
        results = {}   # (job index, script index) -> impl status of the first config
        for (exe, cxx, std), lst in per_driver.items():
            rc, outs = run.run_driver(exe, [x[2] for x in lst])
            if rc != 0 or len(outs) != len(lst):
                chk.report_unproved('c04-driver-run', {'rc': rc, 'answers': len(outs), 'requests': len(lst)})
                continue
            for (ji, si, line), io in zip(lst, outs):
                c, m, v, start, scripts, vsize = jobs[ji]
                head, mks = parsed[ji]
                mk = mks[si]
                ik = W.kvs(io)
                self.judge(kind, c, m, v, start, scripts[si], line, ik, mk, head, cxx, std + ('' if checked else ' unchecked'))
                results.setdefault((ji, si), ik.get('st'))
        return results

    def judge(self, kind, c, m, v, start, script, line, ik, mk, head, cxx, std):
        chk = self.chk
        self.stats['cursor_requests'] += 1
        ncalls = G.count_calls(script)
        self.stats['cursor_calls'] += ncalls
        chk.cov['evaluations'] += 1
        impl, model, spec = ik.get('ev', ''), mk.get('model', ''), mk.get('spec', '')
        st = ik.get('st')
        self.outcomes[st] = self.outcomes.get(st, 0) + 1
        self.distinct.add((c.idx, m['name'], head['image'], start, line))
        unspec = spec.endswith('UNSPEC')
        if kind == 'truncated':
            # the view is shorter than the image: the protocol specification is silent; every SBEPP_SIZE_CHECK of the
            # model is compared with the real one (the first member that does not fit must be reported, in both)
            spec_ok = True
            spec = model
        elif unspec:
            self.stats['spec_unspecified'] += 1
            prefix = spec[:-len('UNSPEC')]
            spec_ok = impl.startswith(prefix)
        else:
            spec_ok = impl == spec
            if spec.endswith('ASSERT'):
                self.stats['asserts_expected'] += 1
        wrote = mk.get('mbuf', '-') != '-'
        if spec_ok and wrote and not unspec and st == 'ok' and ik.get('buf') != mk.get('sbuf'):
            spec_ok = False
        base = {'config': {'cxx': cxx, 'std': std}, 'schema_xml': open(c.xml).read(), 'message': m['name'],
                'image': head['image'], 'start': start, 'script': G.items_sexp(script), 'driver_line': line,
                'model_request': 'cursor (req %s (msg %s) (value %s) (start %s)%s (calls %s))' % (
                    c.sexp, m['name'], wire.mval_sexp(v), start, ' (checks off)' if std.endswith('unchecked') else '',
                    G.items_sexp(script)),
                'observed': {'impl': impl, 'impl_status': st, 'spec': spec, 'model': model, 'mfail': mk.get('mfail')}}
        if not spec_ok:
            case = {'what': 'cursor-calls', 'stream': kind, 'status': st, 'cxx': cxx, 'std': std,
                    'root_members': len(G.members(m['level']))}
            case.update(diagnose(m['level'], impl, spec if not unspec else spec[:-len(';UNSPEC')]))
            chk.report_failure(dict(base, kind='impl≠spec', case=case))
        elif unspec:
            # the model stops where the specification becomes silent (an entry created from a cursor that is not
            # at an entry start: what follows reads arbitrary bytes as headers and lengths)
            if not model.endswith('UNSPEC') or not impl.startswith(model[:-len('UNSPEC')]):
                self.stats['impl_ne_model'] = self.stats.get('impl_ne_model', 0) + 1
                if self.stats['impl_ne_model'] <= 5:
                    chk.report_unproved('impl≠model (implementation agrees with the specification)',
                                        dict(base, diff=first_diff(impl, model)))
        elif impl != model or (wrote and st == 'ok' and ik.get('buf') != mk.get('mbuf')):
            self.stats['impl_ne_model'] = self.stats.get('impl_ne_model', 0) + 1
            if self.stats['impl_ne_model'] <= 5:
                chk.report_unproved('impl≠model (implementation agrees with the specification)',
                                    dict(base, diff=first_diff(impl, model)))
        if len(chk.cov['samples']) < 6 and ncalls >= 3:
            chk.sample({'stream': kind, 'message': m['name'], 'script': G.items_sexp(script)[:300],
                        'spec': spec[:300], 'impl_status': st})


def flat_level(bo, level, v):
    """wire image of a level value (wire.py layout dicts)"""
    out = list(v['block'])
    for g, gv in zip(level['groups'], v['groups']):
        out += gv['hdr']
        for e in gv['entries']:
            out += flat_level(bo, g['level'], e)
    for d, dv in zip(level['datas'], v['datas']):
        out += wire.put(bo, d['lenSize'], len(dv)) + list(dv)
    return out


def final_cursor(spec):
    last = spec.rsplit(';', 1)[-1]
    return last[4:] if last.startswith('end@') else None


def cursor_check(chk, run, cr, cases):
    tier = chk.tier
    quick = tier == 'quick'
    bo_of = {c.idx: c.layout['byteOrder'] for c in cases}
    legal_jobs, inj_jobs, sub_jobs, trunc_jobs = [], [], [], []
    small = []
    n_values = 2 if quick else 4
    n_legal = 3 if quick else 8
    n_inj = 10 if quick else 40
    for c in cases:
        lay = cr.clayouts[c.idx]
        wl = {m['name']: m for m in c.layout['messages']}
        for m in lay['messages']:
            wm = wl[m['name']]
            if not wire.fits(wm) or not wire.std_data_headers(wm):
                run.stats['messages_skipped_unfit'] += 1
                continue
            for k in range(n_values):
                rng = random.Random(stable_seed(chk.seed, c.idx, m['name'], k, 'c04'))
                sizes = {'ext': [0, 0, 1, 7], 'counts': [0, 1, 2, 3], 'data': [0, 1, 2, 5]}
                v = wire.gen_message_value(rng, bo_of[c.idx], wm, c.s['id'], c.s['version'], ext_ok=True, sizes=sizes)
                root = v['root']
                # (a) legal in-order traversals with a random wrapper per member, (d) random range splits
                plain = legal_traversal(rng, m['level'], root, 'plain')
                scripts = [plain] + [legal_traversal(rng, m['level'], root, 'random') for _ in range(n_legal)]
                by_start = {}
                for s in scripts:
                    by_start.setdefault('init' if s is plain else start_for(rng, m['level'], s), []).append(s)
                for st, ss in by_start.items():
                    legal_jobs.append((c, m, v, st, ss))
                    cr.stats['scripts_legal'] += len(ss)
                # (c) one illegal step injected into the plain traversal
                inj = injections(rng, m['level'], root, plain, n_inj)
                if inj:
                    inj_jobs.append((c, m, v, 'init', inj))
                    cr.stats['scripts_injected'] += len(inj)
                # (d) subrange preconditions
                bs = bad_subranges(m['level'], root) if k == 0 else []
                bs += subrange_scripts(m['level'], root)
                if bs:
                    sub_jobs.append((c, m, v, 'init', bs))
                    cr.stats['scripts_subrange'] += len(bs)
                # (e) the same traversal through a view that ends inside the message: size checks
                if k == 0:
                    total = wm['hdrSize'] + len(flat_level(bo_of[c.idx], wm['level'], root))
                    for cut in sorted(set(rng.randint(wm['hdrSize'], max(wm['hdrSize'], total - 1)) for _ in range(3))):
                        trunc_jobs.append((c, m, v, 'init', [plain], cut))
                        cr.stats['scripts_truncated'] = cr.stats.get('scripts_truncated', 0) + 1
                if k == 0 and 1 <= len(G.members(m['level'])) <= (4 if quick else 5):
                    small.append((c, m, v, rng))
    chk.log('cursor scripts: %d legal, %d injected, %d subrange' % (cr.stats['scripts_legal'], cr.stats['scripts_injected'], cr.stats['scripts_subrange']))
    res = cr.execute('legal', legal_jobs)
    cr.execute('legal-unchecked', legal_jobs, checked=False)
    chk.log('legal traversals done')
    # a complete legal traversal must end at the end of the message
    check_traversal_end(chk, cr, legal_jobs)
    cr.execute('injected', inj_jobs)
    cr.execute('subrange', sub_jobs)
    cr.execute('truncated', trunc_jobs)
    chk.log('injected/subrange done')
    # (b) every call sequence up to depth D over (member x wrapper), extended while the implementation accepts it
    depth = 3 if quick else 4
    budget = 2500 if quick else 20000
    small = small[:12 if quick else 40]
    frontier = [(c, m, v, A, [[]]) for (c, m, v, rng) in small for A in [alphabet(rng, m['level'], v['root'])]]
    for d in range(depth):
        jobs = []
        metas = []
        total = sum(len(seqs) * len(A) for (_, _, _, A, seqs) in frontier)
        keep = min(1.0, budget / max(total, 1))
        for (c, m, v, A, seqs) in frontier:
            rng = random.Random(stable_seed(chk.seed, c.idx, m['name'], d, 'bfs'))
            scripts = [s + [a] for s in seqs for a in A if keep >= 1.0 or rng.random() < keep]
            if scripts:
                jobs.append((c, m, v, 'init', scripts))
                metas.append((c, m, v, A, scripts))
                cr.stats['scripts_exhaustive'] += len(scripts)
        chk.log('exhaustive depth %d: %d scripts over %d messages' % (d + 1, sum(len(j[4]) for j in jobs), len(jobs)))
        res = cr.execute('exhaustive-depth%d' % (d + 1), jobs)
        frontier = []
        for ji, (c, m, v, A, scripts) in enumerate(metas):
            alive = [s for si, s in enumerate(scripts) if res.get((ji, si)) == 'ok']
            if alive:
                frontier.append((c, m, v, A, alive))
    cr.stats['exhaustive_messages'] = len(small)
    cr.stats['exhaustive_depth'] = depth


def check_traversal_end(chk, cr, legal_jobs):
    """the specification's own final position after a complete traversal must be the image size;
    for a message without any member the traversal is empty and cannot get there"""
    run = cr.run
    reqs = []
    for (c, m, v, start, scripts) in legal_jobs:
        reqs.append('cursor (req %s (msg %s) (value %s) (start %s) (calls %s))' % (
            c.sexp, m['name'], wire.mval_sexp(v), start, G.items_sexp(scripts[0])))
    outs = run.model_lines(reqs)
    for (c, m, v, start, scripts), o in zip(legal_jobs, outs):
        head, outs1 = parse_answers(o)
        if not outs1:
            continue
        size = len(head.get('image', '')) // 2
        fin = final_cursor(outs1[0].get('spec', ''))
        if fin is None or fin == str(size):
            continue
        nm = len(G.members(m['level']))
        if nm == 0:
            for (cxx, std) in run.configs:
                chk.report_failure({'kind': 'impl≠spec', 'what': 'a message without members offers no cursor call that '
                                    'moves the cursor to the end of its block', 'schema_xml': open(c.xml).read(),
                                    'message': m['name'], 'image': head.get('image'), 'final_cursor': fin, 'size': size,
                                    'case': {'what': 'decode', 'access': 'cursor', 'root_members': 0, 'status': 'ok',
                                             'cxx': cxx, 'std': std}})
        else:
            chk.report_unproved('specification inconsistency: a complete legal traversal does not end at the image end',
                                {'message': m['name'], 'final': fin, 'size': size, 'script': G.items_sexp(scripts[0])})


def sites_check(chk, run):
    """the assertion / size-check sites of the five cursor classes, read from the current sbepp.hpp, against the
    table obtained by probing the model functions, and against what the property demands"""
    import sys
    sys.path.insert(0, core.VERIF)
    from extract import cursor_sites
    rep = cursor_sites.extract(core.REPO, os.path.join(core.LEAN, 'Sbepp', 'Extracted'))
    chk.cov['cursor_sites_extracted'] = len(rep.get('sites', {}))
    if rep.get('failed'):
        chk.report_unproved('extraction', {'extractor': 'cursor_sites', 'failed': rep['failed']})
        return
    model = json.loads(run.model_lines(['cursor (sites)'])[0])
    need = ('cursor', 'dont_move_cursor_wrapper', 'skip_cursor_wrapper')
    for k, site in sorted(rep['sites'].items()):
        cls, meth = k.split('::')
        required = cls in need and not meth.startswith('get_first_')
        if required and not site['assert']:
            chk.report_failure({'kind': 'impl≠spec', 'what': 'a cursor method that relies on the cursor position has no '
                                '"Wrong cursor value" assertion', 'site': k, 'line_of_class': rep['where'].get(cls),
                                'case': {'what': 'cursor-assert-site', 'site': k}})
        elif site != model.get(k):
            chk.report_unproved('impl≠model: assertion/size-check site of a cursor method',
                                {'site': k, 'impl': site, 'model': model.get(k)})
    for k in model:
        if k not in rep['sites']:
            chk.report_unproved('impl≠model: cursor method of the model not found in sbepp.hpp', {'site': k})


def add_directed(chk, run):
    """compile the directed schemas like WireRun.gen_cases does for generated ones"""
    extra = []
    base = 100000
    for i, sch in enumerate(directed_schemas()):
        c = wire.SchemaCase(chk, base + i, sch, run.workdir)
        c.compile_schema(run.sbeppc)
        extra.append(c)
    outs = run.model_lines(['layout ' + c.sexp for c in extra])
    good = []
    for c, o in zip(extra, outs):
        run.stats['schemas'] += 1
        try:
            lay = json.loads(o)
        except ValueError:
            chk.report_unproved('model-layout', {'answer': o[:300], 'schema_xml': open(c.xml).read()})
            continue
        errs = [m for m in lay.get('messages', []) if 'error' in m]
        if c.rc != 0 or errs or 'error' in lay:
            chk.report_unproved('directed schema rejected', {'sbeppc_rc': c.rc, 'sbeppc_out': c.out[:500], 'model': errs[:1],
                                                             'schema_xml': open(c.xml).read()})
            continue
        c.layout = lay
        good.append(c)
    return good


def run(chk):
    chk.extract()
    proved = chk.prove(MODULE, THEOREMS)
    if chk.tier == 'thorough' and proved:
        chk.leanchecker(MODULE)
    quick = chk.tier == 'quick'
    n = 10 if quick else 50
    # the cursor classes fork on no feature macro besides constexpr-ness: two compilers x old/new standards
    configs = W.configs_for('quick') if quick else [('g++', 'c++11'), ('g++', 'c++20'), ('clang++-14', 'c++14'),
                                                     ('clang++-14', 'c++17')]
    run = W.WireRun(chk, n, configs, values_per_msg=2 if quick else 4, ext=True, seed_salt=4)
    cr = None
    try:
        if run.prepare():
            sites_check(chk, run)
            run.gen_cases()
            directed = add_directed(chk, run)
            run.cases = run.cases + directed
            # whole-message checks: full cursor decode and cursor encode agree with the specification
            run.build_drivers()
            W.decode_check(chk, run, lambda ik, mk: c02.judge(ik, mk, check_trait=False))
            run.ext = False
            W.encode_check(chk, run, modes=('cur',))
            # call-sequence checks through the generated dispatcher
            cr = CursorRun(chk, run)
            cases = cr.prepare()
            cursor_check(chk, run, cr, cases)
    finally:
        run.cleanup()
    W.finish_cov(chk, run, 'one evaluation = one scripted sequence of cursor-based accessor calls (getters and setters '
                 'through c / init / dont_move / init_dont_move / skip, group loops over cursor_range and '
                 'cursor_subrange) executed through the real generated accessors in a checked build and compared '
                 'event by event (returned value or view address, cursor offset after the call, ASSERT) with the '
                 'protocol specification evaluated on the value tree and with the Lean model of the five cursor '
                 'classes; plus whole-message cursor decode/encode as in C02/C01; distinct = distinct (schema, '
                 'message, image or script)')
    if cr is not None:
        chk.cov['run_stats'].update(cr.stats)
        chk.cov['impl_outcomes'] = cr.outcomes
        chk.cov['distinct_nontrivial'] += len(cr.distinct)
    if chk.failed_obligations and not chk.violations:
        chk.report_unproved('theorem', chk.failed_obligations)
    mfail = ((chk.extract_report or {}).get('parts', {}).get('methods_cursor') or {}).get('failed')
    if mfail and not chk.violations:
        chk.report_unproved('extraction', {'extractor': 'methods_cursor', 'failed': mfail})
    gfail = {k: v for k, v in (((chk.extract_report or {}).get('parts', {}).get('methods_group') or {}).get('failed') or {}).items()
             if k.startswith('II:') or k in ('model-II', 'sbepp.hpp', 'flat_group_base', 'nested_group_base', 'entry_base',
                                             'input_iterator', 'cursor_range')}
    if gfail and not chk.violations:
        chk.report_unproved('extraction', {'extractor': 'methods_group', 'failed': gfail})
    chk.assumptions += [
        'the random-access getter passed to get_group_view/get_data_view is modelled by the position functions of '
        'Rt.Walk (C02/C03); its internal size checks are not part of this model',
        'a comparison of nullptr + offset with an address is taken to be false (default-constructed cursors are only '
        'exercised with initializing calls)',
        'messages whose data header composite is not (length, varData) at offset 0, or whose block length does not '
        'fit its header member, are skipped (counted in run_stats)',
        'constant evaluation (C++20 constexpr) of cursor accessors is not exercised',
    ]


def replay(chk, rep):
    """rebuild the case from the replay: schema -> sbeppc -> C04 driver, then run the driver line and the model request"""
    import tempfile
    import subprocess
    from .. import sbeppc
    print(json.dumps({k: rep[k] for k in rep if k not in ('schema_xml', 'model_request', 'driver_line')}, indent=1)[:3000])
    if 'schema_xml' not in rep or 'driver_line' not in rep:
        return 1
    model = chk.model_exe()
    exe, _ = sbeppc.build(chk)
    d = tempfile.mkdtemp(dir=core.BUILD)
    try:
        open(os.path.join(d, 'schema.xml'), 'w').write(rep['schema_xml'])
        rc, out = sbeppc.run(exe, os.path.join(d, 'schema.xml'), os.path.join(d, 'gen'))
        sexp = rep['model_request'].split('(req ', 1)[1].split(' (msg ', 1)[0]
        lay = json.loads(core.sh([model], input='cursor (layout %s)\n' % sexp)[1].splitlines()[0])

        class C:
            pass
        c = C()
        c.dir = d
        c.s = {'package': 'vs'}
        cfg = rep.get('config', {'cxx': 'g++', 'std': 'c++17'})
        checked = not cfg['std'].endswith(' unchecked')
        drv, log = G.build_driver(c, lay, cfg['cxx'], cfg['std'].split()[0], checked)
        if drv is None:
            print(log[-2000:])
            return 1
        print('impl :', core.sh([drv], input=rep['driver_line'] + '\n')[1].strip()[:3000])
        print('model:', core.sh([model], input=rep['model_request'] + '\n')[1].strip()[:3000])
    finally:
        import shutil
        shutil.rmtree(d, ignore_errors=True)
    return 1
