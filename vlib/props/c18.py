"""C18 - traits and tags mirror the schema.

Generated schemas with descriptive attributes -> real sbeppc -> per-schema
generated trait dumper (every `sbepp::*_traits<Tag>` member of every entity,
tag lists walked generically, predicates, traits_tag round trips), compared
with (a) what the XML states / SBE derives, computed by `c18gen.Oracle` from
the schema dict alone, and (b) the Lean model table `Gen.Traits.traitTable`.
dump != oracle  => property violated (report_failure, case = entity kind + trait);
dump == oracle != model => correspondence broken (report_unproved)."""
import concurrent.futures as cf
import json
import os
import random

from .. import core, schema as S, wire, wirecheck as W, c18gen as G

MODULE = 'Sbepp.Properties.C18'
THEOREMS = [
    'Sbepp.Properties.C18.traits_copy_attributes',
    'Sbepp.Properties.C18.ref_attributes',
    'Sbepp.Properties.C18.ref_deprecated_full',
    'Sbepp.Properties.C18.traits_deprecated_own',
    'Sbepp.Properties.C18.entities_complete',
    'Sbepp.Properties.C18.entities_sound',
    'Sbepp.Properties.C18.traits_derived',
    'Sbepp.Properties.C18.traits_derived_presence',
    'Sbepp.Properties.C18.traits_derived_block_length',
    'Sbepp.Properties.C18.traits_derived_composite_size',
    'Sbepp.Properties.C18.traits_derived_element_offset',
    'Sbepp.Properties.C18.traits_derived_field_offset',
    'Sbepp.Properties.C18.traits_derived_default_range',
    'Sbepp.Properties.C18.leading_zeros_keep_value',
    'Sbepp.Properties.C18.explicit_literal_grid',
    'Sbepp.Properties.C18.enum_value_grid',
    'Sbepp.Properties.C18.children_lists_in_schema_order',
    'Sbepp.Properties.C18.tags_distinct',
    'Sbepp.Properties.C18.predicates_classify',
]

CHAR_ENCODINGS = ['ASCII', 'UTF-8', 'ISO-8859-1']
FLOAT_LITERALS = ['0.5', '-2.25', '1e10', '1.5e-3', '3', '-INF', 'INF']


def enrich(rng, g, sch):
    """C18-specific decoration on top of `Gen.decorate`: character encodings, explicit floating-point ranges,
    explicit offsets on public types, constant fields (valueRef), type references in a different case"""
    types = sch['types']
    enums = [t for t in types if t['k'] == 'enum']
    for t in types:
        if t['k'] != 'type':
            continue
        if t['prim'] == 'char' and rng.random() < 0.5:
            t['charEnc'] = rng.choice(CHAR_ENCODINGS)
            g.hit('attr.characterEncoding')
        if t['prim'] in ('float', 'double') and t.get('length', 1) == 1 and t.get('presence') != 'constant':
            if rng.random() < 0.5:
                t['min'] = rng.choice(FLOAT_LITERALS)
                g.hit('type.explicit_float_min')
            if rng.random() < 0.5:
                t['max'] = rng.choice(FLOAT_LITERALS)
                g.hit('type.explicit_float_max')
            if t.get('presence') == 'optional' and rng.random() < 0.5:
                t['null'] = rng.choice(['NaN', '0.5', '-INF'])
                g.hit('type.explicit_float_null')
        if t.get('offset') is None and t.get('presence') != 'constant' and rng.random() < 0.08:
            t['offset'] = rng.choice([0, 3, 11])
            g.hit('type.public_with_offset')

    def levels(lv, depth):
        yield lv
        for x in lv.get('groups', []):
            for y in levels(x, depth + 1):
                yield y
    n = [10000]
    for m in sch['messages']:
        for lv in levels(m, 0):
            if enums and rng.random() < 0.25:
                e = rng.choice(enums)
                n[0] += 1
                f = {'name': 'kf%d' % n[0], 'id': n[0] % 60000, 'type': e['name'], 'presence': 'constant',
                     'valueRef': '%s.%s' % (e['name'], rng.choice(e['values'])['name'])}
                lv['fields'].insert(rng.randint(0, len(lv['fields'])), g.decorate(f))
                g.hit('field.constant_enum')
            char_enums = [e for e in enums if e['enc'] == 'char']
            if char_enums and rng.random() < 0.2:
                e = rng.choice(char_enums)
                n[0] += 1
                f = {'name': 'kp%d' % n[0], 'id': n[0] % 60000, 'type': 'char', 'presence': 'constant',
                     'valueRef': '%s.%s' % (e['name'], rng.choice(e['values'])['name'])}
                lv['fields'].insert(rng.randint(0, len(lv['fields'])), g.decorate(f))
                g.hit('field.constant_primitive')
            for f in lv['fields']:
                if f['type'] not in S.PRIM_SIZE and rng.random() < 0.1:
                    f['type'] = f['type'].upper() if rng.random() < 0.5 else f['type'].lower()
                    g.hit('field.type_name_other_case')
    return sch


SIGNED = {'int8': 8, 'int16': 16, 'int32': 32, 'int64': 64}
# texts with superfluous leading zeros: all digits octal (pasted verbatim they would silently be another number) ...
GRID_OCTAL = ['-010', '-0100', '-0777', '-07', '-00', '010', '0000017', '-000064']
# ... and with a digit 8/9 (pasted verbatim they would not compile)
GRID_NONOCTAL = ['-08', '-019', '-0089', '-0098', '-00128', '09', '0080']


def grid_schema(texts, tag):
    """deterministic boundary schema: for every signed width, every text that fits it as explicit minValue,
    maxValue, nullValue, as value of a constant type and as enum validValue; all of them used by fields
    (constants through their accessors)"""
    hdr = {'k': 'composite', 'name': 'messageHeader', 'elems': [
        {'k': 'type', 'name': n, 'prim': 'uint16'} for n in ('blockLength', 'templateId', 'schemaId', 'version')]}
    types = [hdr]
    fields = []
    n = [0]

    def field(ty, **kw):
        n[0] += 1
        fields.append(dict({'name': 'f%d' % n[0], 'id': n[0], 'type': ty}, **kw))
    for prim, w in SIGNED.items():
        fit = [t for t in texts if -2 ** (w - 1) <= int(t) < 2 ** (w - 1)]
        if prim == 'int64':
            fit = fit + (['-07777777777777777777', '-01234567012345670123', '0007000000000000000000']
                         if tag == 'oct' else ['-009223372036854775808', '-09223372036854775807',
                                               '009223372036854775807', '-0009223372036854775798'])
        seen = set()
        vals = []
        for i, t in enumerate(fit):
            base = '%s_%s_%d' % (tag, prim, i)
            types.append({'k': 'type', 'name': 'Mn_' + base, 'prim': prim, 'min': t})
            types.append({'k': 'type', 'name': 'Mx_' + base, 'prim': prim, 'max': t})
            types.append({'k': 'type', 'name': 'Nu_' + base, 'prim': prim, 'presence': 'optional', 'null': t,
                          'min': t, 'max': t})
            types.append({'k': 'type', 'name': 'K_' + base, 'prim': prim, 'presence': 'constant', 'const': t})
            for pfx in ('Mn_', 'Mx_', 'Nu_', 'K_'):
                field(pfx + base)
            if int(t) not in seen:
                seen.add(int(t))
                vals.append({'name': 'V%d' % i, 'value': t})
        types.append({'k': 'enum', 'name': 'E_%s_%s' % (tag, prim), 'enc': prim, 'values': vals})
        field('E_%s_%s' % (tag, prim))
        for v in vals:
            field('E_%s_%s' % (tag, prim), presence='constant', valueRef='E_%s_%s.%s' % (tag, prim, v['name']))
        if w <= 32:
            field('int64', presence='constant', valueRef='E_%s_%s.%s' % (tag, prim, vals[0]['name']))
    return {'package': 'vs', 'id': 18, 'version': 1, 'byteOrder': 'littleEndian', 'types': types,
            'messages': [{'name': 'Grid', 'id': 1, 'fields': fields, 'groups': [], 'datas': []}]}


def gen_cases(chk, run):
    cases = []
    for j, (texts, tag) in enumerate(((GRID_OCTAL, 'oct'), (GRID_NONOCTAL, 'dec'))):
        cases.append(wire.SchemaCase(chk, run.nschemas + j, grid_schema(texts, tag), run.workdir))
        run.feat['grid.' + tag] = 1
    for i in range(run.nschemas):
        rng = random.Random((chk.seed * 1000003 + i) * 31 + run.salt)
        g = S.Gen(rng, max_depth=run.max_depth, hdr_variants=run.hdr_variants)
        sch = enrich(rng, g, g.schema())
        for k, v in g.feat.items():
            run.feat[k] = run.feat.get(k, 0) + v
        cases.append(wire.SchemaCase(chk, i, sch, run.workdir))
    with cf.ThreadPoolExecutor(core.NPROC) as ex:
        list(ex.map(lambda c: c.compile_schema(run.sbeppc), cases))
    outs = run.model_lines(['traits ' + c.sexp for c in cases])
    good = []
    for c, o in zip(cases, outs):
        run.stats['schemas'] += 1
        c.model_rows = G.parse_model(o)
        if c.rc not in (0, 1):
            run.stats['sbeppc_crashes'] = run.stats.get('sbeppc_crashes', 0) + 1   # C09's matter
            continue
        if (c.rc == 0) != (c.model_rows is not None):
            run.stats['verdict_mismatch'] += 1
            chk.report_unproved('impl≠model: sbeppc and the trait model disagree on accepting a generated schema',
                                {'sbeppc_rc': c.rc, 'sbeppc_out': c.out[:500], 'model': o[:300],
                                 'schema_xml': open(c.xml).read()})
            continue
        if c.rc != 0:
            run.stats['schemas_rejected_by_both'] += 1
            continue
        good.append(c)
    run.cases = good
    return good


def norm(trait, value, prim=None):
    """canonical form for comparison: `type_tags` is documented as unordered; the model leaves decimal
    floating-point literals to the compiler (`lit:<hex>`)"""
    if value is None:
        return None
    if trait == 'type_tags':
        return ','.join(sorted(x for x in value.split(',') if x))
    if value.startswith('lit:') and prim is not None:
        return str(G.literal_bits(prim, bytes.fromhex(value[4:]).decode('utf-8')))
    return value


def compare_case(chk, c, cxx, std, rows, walk, stats):
    """one dump against oracle and model; returns number of trait comparisons"""
    xml = open(c.xml).read()
    oracle = G.Oracle(c.s)
    exp = oracle.expected()
    model = c.model_rows
    n = 0
    failures = []
    unproved = []
    for path in sorted(set(rows) | set(exp) | set(model)):
        kind, e, dont = exp.get(path, (None, None, set()))
        i = rows.get(path)
        m = model.get(path)
        if e is None or i is None:
            failures.append({'entity': path, 'kind': kind or (i or {}).get('kind'), 'trait': '<entity>',
                             'impl': 'present' if i is not None else 'missing',
                             'xml': 'present' if e is not None else 'missing'})
            continue
        if m is None:
            unproved.append({'entity': path, 'trait': '<entity>', 'model': 'missing'})
            m = {}
        prim = i.get('primitive_type')
        for t in sorted(set(i) | set(e) | set(m)):
            n += 1
            iv, ev, mv = norm(t, i.get(t), prim), norm(t, e.get(t), prim), norm(t, m.get(t), prim)
            if t not in dont and iv != ev:
                failures.append({'entity': path, 'kind': kind, 'trait': t, 'impl': iv, 'xml': ev,
                                 'is_ref': bool(path in stats['refs'].get(c.idx, ()))})
            elif t not in G.IMPL_ONLY and iv != mv:
                unproved.append({'entity': path, 'kind': kind, 'trait': t, 'impl': iv, 'model': mv})
    # generic walk driven by the tag lists
    wt, wm = oracle.walk()
    got_t = sorted(x for x in walk.get('walk_types', '').split('|') if x)
    got_m = [x for x in walk.get('walk_messages', '').split('|') if x]
    n += len(got_t) + len(got_m)
    if got_t != sorted(wt):
        failures.append({'entity': 'schema', 'kind': 'schema', 'trait': 'walk(type_tags)',
                         'impl': [x for x in got_t if x not in wt][:3], 'xml': [x for x in wt if x not in got_t][:3]})
    if got_m != wm:
        failures.append({'entity': 'schema', 'kind': 'schema', 'trait': 'walk(message_tags)',
                         'impl': got_m[:3], 'xml': wm[:3]})
    for f in failures:
        what = 'present-but-not-in-xml' if f.get('xml') is None else (
            'missing' if f.get('impl') is None else 'different')
        chk.report_failure({
            'kind': 'impl≠spec', 'config': {'cxx': cxx, 'std': std}, 'schema_xml': xml, 'schema_dict': c.s,
            'entity': f['entity'],
            'trait': f['trait'], 'observed': {'impl': f.get('impl'), 'xml': f.get('xml')},
            'case': {'what': 'trait', 'entity_kind': f.get('kind'), 'trait': f['trait'], 'difference': what,
                     'is_ref': bool(f.get('is_ref')), 'cxx': cxx, 'std': std}})
    for u in unproved[:3]:
        chk.report_unproved('impl≠model: trait dump differs from Gen.Traits.traitTable while agreeing with the XML',
                            dict(u, config={'cxx': cxx, 'std': std}, schema_xml=xml, schema_dict=c.s))
    return n


def run(chk):
    chk.extract()
    proved = chk.prove(MODULE, THEOREMS)
    if chk.tier == 'thorough' and proved:
        chk.leanchecker(MODULE)
    n = 120 if chk.tier == 'thorough' else 20
    configs = W.configs_for(chk.tier)
    run = W.WireRun(chk, n, configs, seed_salt=18)
    stats = {'entities': 0, 'traits_compared': 0, 'dumps': 0, 'refs': {}, 'by_kind': {}, 'constant_values': 0}
    try:
        if run.prepare():
            cases = gen_cases(chk, run)
            for c in cases:
                ents = G.entities(c.s)
                stats['refs'][c.idx] = set('.'.join(p) for p, k, d, ctx in ents if ctx.get('ref'))
                for p, k, d, ctx in ents:
                    key = k + ('(ref)' if ctx.get('ref') else '')
                    stats['by_kind'][key] = stats['by_kind'].get(key, 0) + 1
            jobs = [(c, cxx, std) for c in cases for (cxx, std) in configs]

            def build(job):
                c, cxx, std = job
                exe, log = G.build_dumper(c, cxx, std)
                out = None
                if exe:
                    rc, out = core.sh([exe], timeout=120)
                    if rc != 0:
                        out = None
                        log = 'dumper exit status %s' % rc
                return job, exe, log, out
            nontrivial = set()
            with cf.ThreadPoolExecutor(core.NPROC) as ex:
                results = list(ex.map(build, jobs))
            for (c, cxx, std), exe, log, out in results:
                run.stats['driver_builds'] += 1
                if exe is None or out is None:
                    chk.report_failure({
                        'kind': 'trait dumper does not compile/run: a documented trait member or tag is missing, '
                                'or two entities share a tag type',
                        'config': {'cxx': cxx, 'std': std}, 'schema_xml': open(c.xml).read(),
                        'compiler_output': log[-3000:],
                        'case': {'what': 'dumper-compile', 'cxx': cxx, 'std': std, 'first_error': W.first_error(log)}})
                    continue
                rows, walk = G.parse_dump(out)
                stats['dumps'] += 1
                stats['entities'] += len(rows)
                stats['constant_values'] += sum(1 for kv in rows.values() if 'const_value' in kv)
                k = compare_case(chk, c, cxx, std, rows, walk, stats)
                stats['traits_compared'] += k
                chk.cov['evaluations'] += k
                for path, kv in rows.items():
                    nontrivial.add((c.idx, path, tuple(sorted(kv.items()))))
                if len(chk.cov['samples']) < 3 and rows:
                    p = sorted(rows)[len(rows) // 2]
                    chk.sample({'config': '%s %s' % (cxx, std), 'entity': p, 'dump': rows[p],
                                'model': c.model_rows.get(p)})
            chk.cov['distinct_nontrivial'] += len(nontrivial)
    finally:
        run.cleanup()
    stats.pop('refs')
    W.finish_cov(chk, run, 'one evaluation = one trait (or documented type relation, or one subtree of the generic '
                 'tag-list walk) of one entity of a generated schema, read through sbepp::*_traits<Tag> of the real '
                 'sbeppc output under one compiler configuration and compared with the value the XML states / SBE '
                 'derives (independent Python oracle) and with the Lean model table; distinct = distinct '
                 '(schema, entity, full trait record)')
    chk.cov['trait_stats'] = stats
    if chk.failed_obligations and not chk.violations:
        chk.report_unproved('theorem', chk.failed_obligations)
    chk.assumptions += [
        'decimal floating-point minValue/maxValue/nullValue literals are evaluated by the C++ compiler; the model '
        'passes them through and the check converts them with Python\'s correctly rounded float parser',
        'type_tags is documented as unordered and compared as a set; all other tag lists are compared in order',
        'offset of a constant field / of a ref to a constant type is emitted as 0 by the generator; constants occupy '
        'no space, the value is not judged',
        'message/group size_bytes(...) traits are covered by C05; ids/versions that do not fit their fixed C++ types '
        'and text needing escapes in string literals are C07 matters and are not generated here',
        'refs: the specification is doc/traits.md ("use the traits of the referred type") with the ref\'s own name, '
        'offset, sinceVersion and deprecated (a ref without the attribute has no deprecated(): the generator declares '
        'the inherited member deleted, which the detection idiom of the dumper reads as absent under every '
        'configured compiler and standard)',
    ]


def replay(chk, rep):
    """re-run one recorded case against the current tree: schema (dict + XML) -> sbeppc -> dumper under the
    recorded configuration; prints implementation, model and XML/spec values of the recorded trait"""
    import shutil
    import tempfile
    from .. import sbeppc
    det = rep.get('detail') if isinstance(rep.get('detail'), dict) else {}
    sch = rep.get('schema_dict') or det.get('schema_dict')
    if not sch:
        print(json.dumps({k: v for k, v in rep.items() if k != 'schema_xml'}, indent=1)[:3000])
        print('no schema recorded (theorem-level failure): rebuild with `lake build %s`' % MODULE)
        return 1
    cfg = rep.get('config') or det.get('config') or {'cxx': 'g++', 'std': 'c++17'}
    ent = rep.get('entity') or det.get('entity')
    trait = rep.get('trait') or det.get('trait')
    exe, log = sbeppc.build(chk)
    model = chk.model_exe()
    d = tempfile.mkdtemp(prefix='c18replay', dir=core.BUILD)
    try:
        c = wire.SchemaCase(chk, 0, sch, d)
        rc = c.compile_schema(exe)
        print('sbeppc rc=%s %s' % (rc, c.out[:300]))
        if rc != 0:
            return 1
        dexe, log = G.build_dumper(c, cfg['cxx'], cfg['std'])
        if dexe is None:
            print('dumper does not compile:\n' + log[-2000:])
            return 1
        rc, out = core.sh([dexe], timeout=120)
        rows, walk = G.parse_dump(out)
        exp = G.Oracle(sch).expected()
        mrows = {}
        if model:
            rc, mo = core.sh([model], input='traits ' + c.sexp + '\n', timeout=300)
            mrows = G.parse_model(mo.strip()) or {}
        if trait and trait.startswith('walk'):
            wt, wm = G.Oracle(sch).walk()
            key = 'walk_types' if 'type_tags' in trait else 'walk_messages'
            got = [x for x in walk.get(key, '').split('|') if x]
            want = wt if key == 'walk_types' else wm
            ok = sorted(got) == sorted(want) if key == 'walk_types' else got == want
            print('%s impl=%s\n spec=%s' % (key, got[:3], want[:3]))
            return 0 if ok else 1
        i = rows.get(ent, {})
        prim = i.get('primitive_type')
        iv = norm(trait, i.get(trait), prim)
        mv = norm(trait, mrows.get(ent, {}).get(trait), prim)
        ev = norm(trait, exp.get(ent, (None, {}, set()))[1].get(trait), prim)
        print('entity=%s trait=%s\n impl =%s\n model=%s\n spec =%s' % (ent, trait, iv, mv, ev))
        return 0 if iv == ev and (iv == mv or trait in G.IMPL_ONLY) else 1
    finally:
        shutil.rmtree(d, ignore_errors=True)
