"""C03 - decoding honours wire blockLength (schema extension)."""
from . import c02

MODULE = 'Sbepp.Properties.C03'
THEOREMS = [
    'Sbepp.Properties.C03.decode_image_ext',
    'Sbepp.Properties.C03.size_bytes_ext',
    'Sbepp.Properties.C03.first_dynamic_member_at_wire_block_end',
    'Sbepp.Properties.C03.entry_stride',
    'Sbepp.Properties.C03.entry_chain',
]


def run(chk):
    c02.run_decode(chk, MODULE, THEOREMS, ext=True, salt=3)


replay = c02.replay
