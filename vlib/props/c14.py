"""C14 - fixed-length arrays: assignment, padding and string length are exact."""
import itertools
import random
import re
from concurrent.futures import ThreadPoolExecutor

MODULE = 'Sbepp.Properties.C14'
THEOREMS = [
    # model = specification: bytes, returned iterator, frame; assertion iff precondition violated
    'Sbepp.Properties.C14.run_agrees_spec',
    'Sbepp.Properties.C14.assign_string_raw_spec',
    'Sbepp.Properties.C14.assign_string_range_spec',
    'Sbepp.Properties.C14.assign_range_spec',
    'Sbepp.Properties.C14.assign_iter_spec',
    'Sbepp.Properties.C14.assign_ilist_spec',
    'Sbepp.Properties.C14.assign_count_spec',
    'Sbepp.Properties.C14.fill_spec',
    'Sbepp.Properties.C14.assign_frame',
    'Sbepp.Properties.C14.no_assert_in_contract',
    'Sbepp.Properties.C14.assert_outside_contract',
    'Sbepp.Properties.C14.assign_range_overflow',
    'Sbepp.Properties.C14.assign_iter_overflow',
    'Sbepp.Properties.C14.assign_string_raw_rejects',
    'Sbepp.Properties.C14.assign_ilist_rejects',
    'Sbepp.Properties.C14.assign_count_rejects',
    'Sbepp.Properties.C14.view_too_small_rejects',
    'Sbepp.Properties.C14.strlen_spec',
    'Sbepp.Properties.C14.strlen_r_spec',
    # constant-evaluation branch of strlen()
    'Sbepp.Properties.C14.strlen_ce_spec',
    'Sbepp.Properties.C14.strlen_variants_agree',
    # the executable specification means what the property says
    'Sbepp.Spec.StaticArray.strlen_isStrlen',
    'Sbepp.Spec.StaticArray.isStrlen_unique',
    'Sbepp.Spec.StaticArray.strlenR_isStrlenR',
    'Sbepp.Spec.StaticArray.isStrlenR_unique',
    'Sbepp.Spec.StaticArray.assignString_isAssignString',
    'Sbepp.Spec.StaticArray.apply_length',
    'Sbepp.Spec.StaticArray.apply_reject_iff',
    # tie: every member function regenerated from sbepp.hpp (extract/methods_staticarray.py) = the hand model
    'Sbepp.Lemmas.StaticArrayTie.sizeM_tie',
    'Sbepp.Lemmas.StaticArrayTie.dataM_tie',
    'Sbepp.Lemmas.StaticArrayTie.beginM_tie',
    'Sbepp.Lemmas.StaticArrayTie.endM_tie',
    'Sbepp.Lemmas.StaticArrayTie.rbeginM_tie',
    'Sbepp.Lemmas.StaticArrayTie.rendM_tie',
    'Sbepp.Lemmas.StaticArrayTie.stringLengthM_tie',
    'Sbepp.Lemmas.StaticArrayTie.stringLengthCEM_tie',
    'Sbepp.Lemmas.StaticArrayTie.strlen_tie',
    'Sbepp.Lemmas.StaticArrayTie.strlenCE_tie',
    'Sbepp.Lemmas.StaticArrayTie.strlenR_tie',
    'Sbepp.Lemmas.StaticArrayTie.pad_tie',
    'Sbepp.Lemmas.StaticArrayTie.assignStringRaw_tie',
    'Sbepp.Lemmas.StaticArrayTie.assignStringRawCE_tie',
    'Sbepp.Lemmas.StaticArrayTie.assignRange_tie',
    'Sbepp.Lemmas.StaticArrayTie.assignRangeRanges_tie',
    'Sbepp.Lemmas.StaticArrayTie.assignStringRange_tie',
    'Sbepp.Lemmas.StaticArrayTie.assignStringRangeRanges_tie',
    'Sbepp.Lemmas.StaticArrayTie.fill_tie',
    'Sbepp.Lemmas.StaticArrayTie.assignCount_tie',
    'Sbepp.Lemmas.StaticArrayTie.assignIter_tie',
    'Sbepp.Lemmas.StaticArrayTie.assignIlist_tie',
    'Sbepp.Lemmas.StaticArrayTie.runX_tie',
    'Sbepp.Lemmas.StaticArrayTie.fits_needed',
    # the main statements, about the regenerated definitions
    'Sbepp.Properties.C14.run_agrees_spec_extracted',
    'Sbepp.Properties.C14.no_assert_in_contract_extracted',
    'Sbepp.Properties.C14.assert_outside_contract_extracted',
    'Sbepp.Properties.C14.view_too_small_rejects_extracted',
    'Sbepp.Properties.C14.strlen_variants_agree_extracted',
]
EXTRACT_PART = 'methods_staticarray'

ALPHABET = ('00', '61', '62')            # NUL, 'a', 'b'
PATTERN = '78797a777675747372'           # "xyzwvutsr": input letters differ from the array's
MODES = ('none', 'single', 'all')
RANGE_SRC = ('vector', 'string', 'list')
ITER_SRC = ('ptr', 'vector', 'list', 'input')
CE_MAX_N = 6                             # tables compiled into the harness
CE_ASSIGN_MAX_N = 4


def hx(bs):
    return ''.join(bs) if bs else '-'


def inputs(length, with_nul=True):
    """input strings of one length: distinct letters; one NUL at each position"""
    base = [PATTERN[2 * i:2 * i + 2] for i in range(length)]
    out = [base]
    if with_nul:
        for p in range(length):
            out.append(base[:p] + ['00'] + base[p + 1:])
    return out


def contents(n):
    return [list(c) for c in itertools.product(ALPHABET, repeat=n)]


def family_lines(n, init, byte, nul_inputs=True):
    """every overload family x mode x input length 0..N+1 on one array content"""
    head = 'sarr N=%d init=%s byte=%s' % (n, hx(init), byte)
    out = []
    for length in range(n + 2):
        for inp in inputs(length, nul_inputs):
            i = hx(inp)
            for m in MODES:
                out.append('%s op=assign_string_raw mode=%s in=%s' % (head, m, i))
                for s in RANGE_SRC:
                    out.append('%s op=assign_string_range src=%s mode=%s in=%s' % (head, s, m, i))
            out.append('%s op=assign_string_raw mode=all dflt=1 in=%s' % (head, i))
            out.append('%s op=assign_string_range src=vector mode=all dflt=1 in=%s' % (head, i))
            for s in RANGE_SRC:
                out.append('%s op=assign_range src=%s in=%s' % (head, s, i))
            for s in ITER_SRC:
                out.append('%s op=assign_iter src=%s in=%s' % (head, s, i))
            out.append('%s op=assign_ilist in=%s' % (head, i))
    for count in range(n + 2):
        for v in ('78', '00'):
            out.append('%s op=assign_count count=%d value=%s' % (head, count, v))
    for v in ('78', '00'):
        out.append('%s op=fill value=%s' % (head, v))
    out.append('%s op=strlen' % head)
    out.append('%s op=strlen_r' % head)
    return out


def contract_edge_lines(n, init):
    """outside the property's quantifier, inside the model's: null pointer,
    invalid enum value, a view shorter than N"""
    head = 'sarr N=%d init=%s byte=c' % (n, hx(init))
    out = []
    for m in MODES + ('invalid',):
        out.append('%s op=assign_string_raw mode=%s in=null' % (head, m))
    for length in sorted({0, n}):
        i = hx(inputs(length, False)[0])
        out.append('%s op=assign_string_raw mode=invalid in=%s' % (head, i))
        out.append('%s op=assign_string_range src=list mode=invalid in=%s' % (head, i))
    if n >= 1:
        h2 = head + ' avail=%d' % (n - 1)
        i = hx(inputs(1, False)[0])
        out += ['%s op=assign_string_raw mode=all in=%s' % (h2, i),
                '%s op=assign_string_range src=vector mode=single in=%s' % (h2, i),
                '%s op=assign_range src=list in=%s' % (h2, i),
                '%s op=assign_iter src=input in=%s' % (h2, i),
                '%s op=assign_ilist in=%s' % (h2, i),
                '%s op=assign_count count=1 value=78' % h2,
                '%s op=fill value=78' % h2,
                '%s op=strlen' % h2, '%s op=strlen_r' % h2]
    return out


def ce_lines(n, init):
    """constant evaluation (C++20 builds only); fixed layout 7e | array | 7e 00"""
    head = 'sarr N=%d init=%s byte=c post=7e00' % (n, hx(init))
    out = ['%s op=strlen_ce' % head, '%s op=strlen_r ce=1' % head]
    if n <= CE_ASSIGN_MAX_N:
        for length in range(n + 1):
            i = hx(inputs(length, False)[0])
            for m in MODES:
                out.append('%s op=assign_string_raw mode=%s in=%s ce=1' % (head, m, i))
    return out


def gen_lines(chk, rng):
    thorough = chk.tier == 'thorough'
    max_n = 6 if thorough else 4
    common, ce = [], []
    for n in range(max_n + 1):
        cs = contents(n)
        for init in cs:
            common += family_lines(n, init, 'c', nul_inputs=(thorough or n <= 4))
            if n <= (5 if thorough else 3):
                common += family_lines(n, init, 'u', nul_inputs=(n <= (4 if thorough else 2)))
            if n <= CE_MAX_N:
                ce += ce_lines(n, init)
        for init in (cs[0], cs[-1], cs[len(cs) // 2]):
            common += contract_edge_lines(n, init)
    scope = {'exhaustive_N': [0, max_n], 'alphabet': list(ALPHABET)}
    if thorough:
        # beyond the exhaustive scope: the two largest instantiations, seeded contents
        for n in (7, 8):
            for _ in range(150):
                init = [rng.choice(ALPHABET) for _ in range(n)]
                common += family_lines(n, init, rng.choice('cu'), nul_inputs=False)
        scope['sampled_N'] = [7, 8]
    return common, ce, scope


def kv(line):
    return dict(x.split('=', 1) for x in line.split() if '=' in x)


def case_of(req, impl, spec, cxx, std):
    init = req.get('init', '-')
    arr = [] if init == '-' else re.findall('..', init)
    inp = req.get('in', '-')
    case = {
        'op': req.get('op'), 'N': int(req.get('N', -1)), 'mode': req.get('mode'),
        'src': req.get('src'), 'byte': req.get('byte', 'c'),
        'in_len': (None if 'in' not in req else 'null' if inp == 'null' else 0 if inp == '-' else len(inp) // 2),
        'constant_evaluation': req.get('op') == 'strlen_ce' or req.get('ce') == '1',
        'nul_in_array': '00' in arr, 'avail': req.get('avail'),
        'impl': impl, 'spec': spec, 'cxx': cxx, 'std': std,
    }
    return case


def harness_name(cxx, std):
    return 'c14_sarr_' + re.sub(r'[^a-z0-9]', '', cxx + std)


def correspond(chk, configs):
    rng = random.Random(chk.seed * 7919 + 14)
    common, ce, scope = gen_lines(chk, rng)
    all_lines = common + ce
    model = chk.model_exe()
    if model is None:
        chk.report_unproved('model-driver-build', 'sbepp_model does not build')
        return
    rc, mout = chk.run_lines(model, all_lines)
    if rc != 0 or len(mout) != len(all_lines):
        chk.report_unproved('model-driver-run', 'rc=%s lines=%d/%d' % (rc, len(mout), len(all_lines)))
        return
    if any(m.startswith('bad-op') for m in mout):
        bad = next(l for l, m in zip(all_lines, mout) if m.startswith('bad-op'))
        chk.report_unproved('model-driver-run', 'driver rejected request: ' + bad)
        return

    def build_and_run(cfg):
        cxx, std = cfg
        exe, log = chk.build_cxx(harness_name(cxx, std), ['c14_sarr.cpp'], cxx=cxx, std=std)
        if exe is None:
            return cfg, None, log, None
        has_ce = std in ('c++20', 'c++2b', 'c++23')
        lines = all_lines if has_ce else common
        rc, out = chk.run_lines(exe, lines)
        return cfg, lines, (rc, out), has_ce

    with ThreadPoolExecutor(max_workers=min(8, len(configs))) as pool:
        results = list(pool.map(build_and_run, configs))

    distinct = set()
    evals = 0
    outcomes = {'ok': 0, 'assert': 0, 'ce': 0}
    broken_corr = None
    ce_builds = 0
    for (cxx, std), lines, res, has_ce in results:
        if lines is None:
            chk.report_unproved('harness-build', '%s -std=%s: %s' % (cxx, std, res[-1500:]))
            continue
        rc, iout = res
        if rc != 0 or len(iout) != len(lines):
            chk.report_unproved('harness-run', '%s %s rc=%s lines=%d/%d' % (cxx, std, rc, len(iout), len(lines)))
            continue
        ce_builds += 1 if has_ce else 0
        for line, m, i in zip(lines, mout, iout):
            mk, ik = kv(m), kv(i)
            impl, spec = ik.get('impl'), mk.get('spec')
            evals += 1
            if impl in (None, 'NA') or i.startswith('bad-op'):
                broken_corr = broken_corr or {'line': line, 'impl': i, 'model': m, 'config': [cxx, std],
                                              'why': 'harness could not run the request'}
                continue
            distinct.add(line)
            if impl == 'ASSERT':
                outcomes['assert'] += 1
            else:
                outcomes['ok'] += 1
            if 'ce=1' in line or 'op=strlen_ce' in line:
                outcomes['ce'] += 1
            if impl != spec:
                req = kv(line)
                chk.report_failure({
                    'kind': 'impl≠spec', 'harness': 'c14_sarr', 'config': {'cxx': cxx, 'std': std},
                    'lines': [line], 'observed': {'impl': i, 'model_and_spec': m},
                    'case': case_of(req, impl, spec, cxx, std)})
            elif (impl, ik.get('ibuf')) != (mk.get('model'), mk.get('mbuf')):
                broken_corr = broken_corr or {'line': line, 'impl': i, 'model': m, 'config': [cxx, std]}
    if ce and not ce_builds:
        chk.report_unproved('configuration', 'no C++20 configuration ran the constant-evaluation requests')
    if broken_corr and not chk.violations:
        chk.report_unproved('impl≠model (implementation agrees with the specification)', broken_corr)
    chk.cov['evaluations'] = evals
    chk.cov['distinct_nontrivial'] = len(distinct)
    chk.cov['traces_validated_against_impl'] = evals
    chk.cov['rule'] = ('request = (N, array content, byte type, overload family incl. source container, eos mode, '
                       'input bytes | count/value, view size, constant-evaluation flag); distinct = distinct request '
                       'lines that the implementation executed (answer other than NA), counted once over all '
                       'compiler configurations; each executes one member function of static_array_ref on a '
                       'guarded buffer and is compared on all bytes, the returned iterator/size and the '
                       'assertion flag')
    chk.cov['exhaustive'] = True
    chk.cov['scope'] = dict(scope, **{
        'input_lengths': '0..N+1', 'input_shapes': 'distinct letters; one NUL at every position (char: N<=4 quick, all N thorough)',
        'modes': list(MODES) + ['default argument'], 'range_sources': list(RANGE_SRC),
        'iterator_sources': list(ITER_SRC), 'byte_types': ['char', 'unsigned char (N<=3 quick, N<=5 thorough)'],
        'constant_evaluation': 'strlen/strlen_r N<=%d, assign_string(const char*) N<=%d, C++20 builds' % (
            min(CE_MAX_N, scope['exhaustive_N'][1]), CE_ASSIGN_MAX_N)})
    chk.cov['outcome_histogram'] = outcomes
    chk.cov['requests'] = {'common': len(common), 'constant_evaluation': len(ce)}
    chk.cov['configurations'] = ['%s -std=%s' % c for c in configs]
    pairs = list(zip(all_lines, mout))
    for l, m in pairs[:2] + pairs[len(common) // 2:len(common) // 2 + 2] + pairs[-2:]:
        chk.sample({'request': l, 'model': m})


def configs_for(tier):
    if tier == 'thorough':
        return [(c, s) for c in ('g++', 'clang++-14') for s in ('c++11', 'c++14', 'c++17', 'c++20')]
    # one build with <ranges> and constant evaluation, one without
    return [('g++', 'c++20'), ('clang++-14', 'c++11')]


def run(chk):
    chk.extract()
    proved = chk.prove(MODULE, THEOREMS)
    if chk.tier == 'thorough' and proved:
        chk.leanchecker(MODULE)
    correspond(chk, configs_for(chk.tier))
    if chk.failed_obligations and not chk.violations:
        chk.report_unproved('theorem', chk.failed_obligations)
    ex_failed = (chk.extract_report or {}).get('parts', {}).get(EXTRACT_PART, {'failed': {'part': 'not run'}}).get('failed', {})
    if ex_failed and not chk.violations:
        chk.report_unproved('extraction', {'part': EXTRACT_PART, 'failed': ex_failed})
    chk.assumptions += [
        'Rt.StaticArray is a hand transliteration of static_array_ref; every member function is regenerated from '
        'sbepp.hpp by extract/methods_staticarray.py and proved equal to it (Lemmas/StaticArrayTie.lean) for views '
        'and argument lengths that fit std::size_t; the std:: algorithms, byte_range and the C++ typing facts listed '
        'in the header of Extracted/StaticArray.lean are inputs of that translation',
        'a null begin pointer of the view is not modelled; Value = char only (strlen() does not compile for other '
        'element types)',
        'constant evaluation is exercised through tables the compiler computes in C++20 builds; in constant '
        'evaluation an assertion failure or an out-of-object read is a compile error, so only requests inside the '
        'precondition and the layout 7e|array|7e 00 are tabled',
    ]


def replay(chk, rep):
    model = chk.model_exe()
    cfg = rep.get('config', {'cxx': 'g++', 'std': 'c++20'})
    exe, log = chk.build_cxx(harness_name(cfg['cxx'], cfg['std']), ['c14_sarr.cpp'], cxx=cfg['cxx'], std=cfg['std'])
    if exe is None or model is None:
        print('build failed:', log[-1500:] if log else 'model driver')
        return 1
    lines = rep.get('lines', [])
    _, mout = chk.run_lines(model, lines)
    _, iout = chk.run_lines(exe, lines)
    bad = 0
    for l, m, i in zip(lines, mout, iout):
        print('request:', l)
        print('  impl :', i)
        print('  model:', m)
        if kv(i).get('impl') != kv(m).get('spec'):
            bad += 1
    return 1 if bad else 0
