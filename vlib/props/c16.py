"""C16 - optional/required scalars: null, range, ordering and SBE defaults."""
import hashlib
import os
import random
import re
import struct
from concurrent.futures import ThreadPoolExecutor

from .. import core
from .. import sbeppc

MODULE = 'Sbepp.Properties.C16'
P = 'Sbepp.Properties.C16.'
THEOREMS = [P + t for t in (
    # has_value / construction (full strength, NaN nulls included)
    'has_value_spec', 'to_bool_is_has_value', 'default_is_null', 'required_default_is_zero',
    # comparison rules, both implementations, all six relations
    'spaceship_well_formed', 'cmp_rules', 'spaceship_agrees_with_operators',
    # value_or / in_range / required
    'value_or_spec', 'in_range_spec', 'required_cmp_rules', 'required_spaceship_agrees',
    # default tables (whole extracted tables)
    'tables_extracted', 'tables_shape', 'builtin_types_ok', 'parsed_form_agrees',
    'defaults_match_builtins', 'builtins_match_sbe_table', 'generated_match_sbe_table',
    'sbe_null_is_nan_iff', 'sbe_defaults_consistent',
)] + [
    # the bridge between the model's keys and the specification's exact values
    'Sbepp.Lemmas.Optional.denote_rel', 'Sbepp.Lemmas.Optional.float_rel',
    # the class-level cores of has_value / the operators / operator<=>
    'Sbepp.Lemmas.Optional.hasC_eq', 'Sbepp.Lemmas.Optional.ops_core', 'Sbepp.Lemmas.Optional.ship_core',
] + [
    # translator tie: every member of required_base / optional_base regenerated from sbepp.hpp on this run
    # (extract/methods_optional.py -> Sbepp.Extracted.OptionalMethods) = the hand model, per member
    'Sbepp.Lemmas.OptionalTie.Required.%s_tie' % m for m in (
        'ctorDefault', 'ctorValue', 'deref', 'derefRef', 'value', 'inRange', 'opCmp3', 'opEqDefaulted',
        'opEq', 'opNe', 'opLt', 'opLe', 'opGt', 'opGe', 'rel')
] + [
    'Sbepp.Lemmas.OptionalTie.Optional.%s_tie' % m for m in (
        'ctorDefault', 'ctorNullopt', 'ctorValue', 'deref', 'derefRef', 'value', 'inRange', 'hasValue', 'toBool',
        'valueOr', 'opEq', 'opCmp3Ret', 'opCmp3', 'opNe', 'opLt', 'opLe', 'opGt', 'opGe', 'rel')
] + [P + t for t in (
    # the property theorems restated for the regenerated definitions
    'has_value_spec_extracted', 'default_is_null_extracted', 'value_roundtrip_extracted',
    'required_default_is_zero_extracted', 'cmp_rules_extracted', 'cmp_rules_operators_extracted',
    'spaceship_extracted', 'spaceship_agrees_with_operators_extracted', 'value_or_spec_extracted',
    'in_range_spec_extracted', 'required_cmp_rules_extracted', 'required_spaceship_agrees_extracted',
)]
EXTRACT_PART = 'methods_optional'

FIELDS = ['eq', 'ne', 'lt', 'le', 'gt', 'ge', 'has_value_a', 'has_value_b', 'bool_a', 'in_range_a',
          'value_or', 'default_has_value', 'nullopt_bool', 'default_value']

# protocol name -> (SBE name, bits, kind)
PRIMS = {
    'char': ('char', 8, 's'), 'i8': ('int8', 8, 's'), 'i16': ('int16', 16, 's'), 'i32': ('int32', 32, 's'),
    'i64': ('int64', 64, 's'), 'u8': ('uint8', 8, 'u'), 'u16': ('uint16', 16, 'u'), 'u32': ('uint32', 32, 'u'),
    'u64': ('uint64', 64, 'u'), 'f32': ('float', 32, 'f'), 'f64': ('double', 64, 'f'),
}
CXX_TYPE = {'char': 'char', 'int8': '::std::int8_t', 'int16': '::std::int16_t', 'int32': '::std::int32_t',
            'int64': '::std::int64_t', 'uint8': '::std::uint8_t', 'uint16': '::std::uint16_t',
            'uint32': '::std::uint32_t', 'uint64': '::std::uint64_t', 'float': 'float', 'double': 'double'}
FMT = {32: (8, 23), 64: (11, 52)}


def hx(p, v):
    bits = PRIMS[p][1]
    return '%0*x' % (bits // 4, v & ((1 << bits) - 1))


def is_nan(p, v):
    name, bits, kind = PRIMS[p]
    if kind != 'f':
        return False
    eb, mb = FMT[bits]
    return (v >> mb) & ((1 << eb) - 1) == (1 << eb) - 1 and v & ((1 << mb) - 1) != 0


def sbe_default(p):
    """(min, max, null) bit patterns of the SBE 1.0 defaults - written here
    independently of the Lean table; the two are compared through `opttab`."""
    name, w, kind = PRIMS[p]
    if p == 'char':
        return 0x20, 0x7e, 0
    if kind == 's':
        return (1 << (w - 1)) + 1, (1 << (w - 1)) - 1, 1 << (w - 1)
    if kind == 'u':
        return 0, (1 << w) - 2, (1 << w) - 1
    if w == 32:
        return 0x00800000, 0x7f7fffff, 0x7fc00000
    return 0x0010000000000000, 0x7fefffffffffffff, 0x7ff8000000000000


def fbits(p, x):
    return struct.unpack('<I', struct.pack('<f', x))[0] if PRIMS[p][1] == 32 else \
        struct.unpack('<Q', struct.pack('<d', x))[0]


def boundary(p, rng, nrand):
    name, w, kind = PRIMS[p]
    m = (1 << w) - 1
    if kind == 'f':
        eb, mb = FMT[w]
        sign = 1 << (w - 1)
        inf = ((1 << eb) - 1) << mb
        quiet = 1 << (mb - 1)
        vals = {0, sign, 1, sign | 1, (1 << mb) - 1, 1 << mb, sign | (1 << mb),
                fbits(p, 1.0), fbits(p, -1.0), fbits(p, 1.0) + 1, fbits(p, 2.0), fbits(p, 0.5),
                inf - 1, sign | (inf - 1), inf, sign | inf,
                inf | quiet, sign | inf | quiet, inf | quiet | 1, inf | 1, inf | (quiet >> 1), sign | inf | 1, m >> 1, m}
        for _ in range(nrand):
            vals.add(rng.getrandbits(w))
        for _ in range(nrand // 4):
            vals.add(inf | rng.getrandbits(mb) | 1 | (sign if rng.random() < .5 else 0))
    else:
        half = 1 << (w - 1)
        vals = {0, 1, 2, 0x20, 0x7e, 0x7f, half - 2, half - 1, half, half + 1, half + 2, m - 2, m - 1, m}
        for _ in range(nrand):
            vals.add(rng.getrandbits(w))
    return {v & m for v in vals}


def triples(p, rng, nrand):
    """(min, max, null) triples: the SBE default first."""
    name, w, kind = PRIMS[p]
    m = (1 << w) - 1
    d = sbe_default(p)
    out = [d]
    if kind == 'f':
        eb, mb = FMT[w]
        sign = 1 << (w - 1)
        inf = ((1 << eb) - 1) << mb
        one, mone = fbits(p, 1.0), fbits(p, -1.0)
        out += [
            (d[0], d[1], sign | inf | (1 << (mb - 1)) | 5),   # negative quiet NaN with payload as null
            (d[0], d[1], inf | 1),                             # signalling NaN as null
            (sign | inf, inf, 0),                              # null = +0.0, range = everything
            (mone, one, sign),                                 # null = -0.0
            (inf | (1 << (mb - 1)), one, mone),                # min = NaN (range empty), null = -1.0
            (one, mone, inf),                                  # empty range, null = +inf
            (0, d[1], d[1]),                                   # null = FLT_MAX
        ]
    else:
        half = 1 << (w - 1)
        out += [(1, m if kind == 'u' else half - 1, 0),        # null = 0
                (half, half - 1, half - 1) if kind == 's' else (0, m, half),
                (0x7e, 0x20, 0x41)]                            # empty range
    for _ in range(nrand):
        out.append((rng.getrandbits(w), rng.getrandbits(w), rng.getrandbits(w)))
    return out


WITNESSES = [
    # witnesses of the defects fixed by /repo a1acb43 (NaN null) and b6c076b (operator<=> on float
    # optionals); they were kernel-checked refutations of the full statements before the fixes
    'opt kind=opt p=f32 impl=ops min=00800000 max=7f7fffff null=7fc00000 a=7fc00000 b=7fc00000',
    'opt kind=opt p=f32 impl=ops min=00800000 max=7f7fffff null=7fc00000 a=7fc00000 b=3f800000',
    'opt kind=opt p=f32 impl=spaceship min=00800000 max=7f7fffff null=00000000 a=3f800000 b=40000000',
    'opt kind=optbi p=f64 impl=ops min=0010000000000000 max=7fefffffffffffff null=7ff8000000000000 '
    'a=7ff8000000000000 b=7ff8000000000000',
]


def gen_lines(chk, rng):
    thorough = chk.tier == 'thorough'
    lines = list(WITNESSES)
    for p in PRIMS:
        tr = triples(p, rng, 6 if thorough else 1)
        base = boundary(p, rng, 24 if thorough else 4)
        for ti, (mn, mx, nl) in enumerate(tr):
            vals = sorted(base | {mn, mx, nl})
            if not thorough and ti >= 1 and len(vals) > 16:
                # quick tier: full grid for the default triple, a sample of it for the others
                keep = {mn, mx, nl, 0}
                vals = sorted(keep | set(rng.sample(vals, 14)))
            for impl in ('ops', 'spaceship'):
                pre = 'p=%s impl=%s min=%s max=%s null=%s' % (p, impl, hx(p, mn), hx(p, mx), hx(p, nl))
                for a in vals:
                    for b in vals:
                        lines.append('opt kind=opt %s a=%s b=%s' % (pre, hx(p, a), hx(p, b)))
                        if ti == 0:
                            # the real built-in types (their own min/max/null)
                            lines.append('opt kind=optbi %s a=%s b=%s' % (pre, hx(p, a), hx(p, b)))
                            lines.append('opt kind=reqbi %s a=%s b=%s' % (pre, hx(p, a), hx(p, b)))
                        if ti <= 1:
                            lines.append('opt kind=req %s a=%s b=%s' % (pre, hx(p, a), hx(p, b)))
    return lines


def tab_lines():
    return ['opttab p=%s k=%s' % (p, k) for p in PRIMS for k in ('min', 'max', 'null')]


def kv(line):
    return dict(x.split('=', 1) for x in line.split() if '=' in x)


def same_value(p, a, b):
    """same denoted value: NaNs alike, +0 = -0, otherwise same bits"""
    if PRIMS[p][2] != 'f':
        return a == b
    if is_nan(p, a) or is_nan(p, b):
        return is_nan(p, a) and is_nan(p, b)
    sign = 1 << (PRIMS[p][1] - 1)
    if a & ~sign == 0 and b & ~sign == 0:
        return True
    return a == b


# ------------------------------------------------------------------ builds

def std_has_threeway(std):
    return std in ('c++20', 'c++2a', 'c++2b', 'c++23')


def build_harness(chk, cxx, std):
    """Returns (exe, info). In a three-way configuration the harness is first
    tried as is; if ordering a float optional does not compile it is rebuilt
    with -DC16_FLOAT_ORD_NC and that fact is recorded."""
    name = 'c16_opt_%s_%s' % (re.sub(r'\W', '', cxx), re.sub(r'\W', '', std))
    exe, log = chk.build_cxx(name, ['c16_opt.cpp'], cxx=cxx, std=std)
    info = {'cxx': cxx, 'std': std, 'float_ord_compiles': True}
    if exe is None and 'partial_ordering' in log and 'strong_ordering' in log:
        info['float_ord_compiles'] = False
        info['float_ord_error'] = [l for l in log.splitlines() if 'error' in l][:2]
        exe, log = chk.build_cxx(name, ['c16_opt.cpp'], cxx=cxx, std=std, flags=['-DC16_FLOAT_ORD_NC'])
    info['log'] = log[-1500:] if exe is None else ''
    return exe, info


def configs_for(tier):
    if tier == 'thorough':
        return [(c, s) for c in ('g++', 'clang++-14') for s in ('c++11', 'c++14', 'c++17', 'c++20', 'c++2b')]
    return [('g++', 'c++17'), ('g++', 'c++20'), ('clang++-14', 'c++11'), ('clang++-14', 'c++20')]


# ------------------------------------------------------------------ correspondence (Layer R)

def correspond(chk, configs):
    rng = random.Random(chk.seed * 7919 + 16)
    lines = gen_lines(chk, rng)
    tabs = tab_lines()
    model = chk.model_exe()
    if model is None:
        chk.report_unproved('model-driver-build', 'sbepp_model does not build')
        return
    rc, mout = chk.run_lines(model, lines + tabs)
    if rc != 0 or len(mout) != len(lines) + len(tabs) or any(o.startswith('bad-op') for o in mout):
        chk.report_unproved('model-driver-run', 'rc=%s lines=%d/%d bad=%s' % (
            rc, len(mout), len(lines) + len(tabs), [o for o in mout if o.startswith('bad-op')][:1]))
        return
    manswer = dict(zip(lines + tabs, mout))
    with ThreadPoolExecutor(max_workers=min(len(configs), max(2, core.NPROC // 2))) as ex:
        built = list(ex.map(lambda c: build_harness(chk, *c), configs))
    evals = 0
    nontrivial = set()
    classes = {}
    broken_corr = None
    cfg_used = []
    for (cxx, std), (exe, info) in zip(configs, built):
        if exe is None:
            chk.report_unproved('harness-build', '%s -std=%s: %s' % (cxx, std, info['log']))
            continue
        cfg_used.append('%s -std=%s%s' % (cxx, std, '' if info['float_ord_compiles'] else ' (float optional ordering does not compile)'))
        rc, cfgout = chk.run_lines(exe, ['optcfg'])
        cfg = dict(x.split(':') for x in kv(cfgout[0]).get('impl', '').split(',')) if rc == 0 and cfgout else {}
        impl_name = 'spaceship' if cfg.get('threeway') == '1' else 'ops'
        expected = {'char_signed': '1', 'float_iec559': '1', 'double_iec559': '1', 'little_endian': '1',
                    'threeway': '1' if std_has_threeway(std) else '0'}
        if any(cfg.get(k) != v for k, v in expected.items()):
            chk.report_unproved('platform-assumption', {'config': [cxx, std], 'observed': cfg, 'expected': expected})
            continue
        mine = [l for l in lines if ('impl=' + impl_name) in l.split()]
        rc, iout = chk.run_lines(exe, mine + tabs)
        if rc != 0 or len(iout) != len(mine) + len(tabs):
            chk.report_unproved('harness-run', '%s %s rc=%s lines=%d/%d' % (cxx, std, rc, len(iout), len(mine) + len(tabs)))
            continue
        # default tables: real built-in types vs model (extracted tables) vs SBE table
        for line, i in zip(tabs, iout[len(mine):]):
            req, m, ik = kv(line), kv(manswer[line]), kv(i)
            p, k = req['p'], req['k']
            evals += 1
            nontrivial.add((line, 'tab'))
            spec = int(m['spec'], 16)
            mine_spec = sbe_default(p)[('min', 'max', 'null').index(k)]
            if spec != mine_spec:
                chk.report_unproved('spec-table-disagreement', {'line': line, 'lean': m['spec'], 'python': hx(p, mine_spec)})
            vals = [ik.get('impl'), ik.get('traits')] + ([ik.get('req')] if k != 'null' else [])
            bad = [v for v in vals if v is None or not re.fullmatch(r'[0-9a-f]+', v) or not same_value(p, int(v, 16), spec)]
            if bad:
                chk.report_failure({
                    'kind': 'impl≠spec', 'harness': 'c16_opt', 'config': {'cxx': cxx, 'std': std}, 'lines': [line],
                    'observed': {'impl': i, 'model_and_spec': manswer[line]},
                    'case': {'table': 'builtin', 'p': p, 'k': k, 'cxx': cxx, 'std': std}})
            elif m.get('builtin') != ik.get('impl'):
                broken_corr = broken_corr or {'line': line, 'impl': i, 'model': manswer[line], 'config': [cxx, std]}
            if m.get('same') != '1' and (cxx, std) == configs[0]:
                # the generator's table text evaluates to something else than the SBE default
                chk.report_failure({
                    'kind': 'impl≠spec', 'what': 'generator default table', 'lines': [line],
                    'observed': {'model_and_spec': manswer[line]},
                    'case': {'table': 'generator', 'p': p, 'k': k, 'gen': m.get('gen')}})
        for line, i in zip(mine, iout[:len(mine)]):
            req = kv(line)
            m = kv(manswer[line])
            evals += 1
            nontrivial.add(line)
            impl = kv(i).get('impl', i)
            if impl == m.get('spec'):
                if m.get('model') != impl:
                    broken_corr = broken_corr or {'line': line, 'impl': i, 'model': manswer[line], 'config': [cxx, std]}
                continue
            fi, fs, fm = impl.split(','), m['spec'].split(','), m['model'].split(',')
            if len(fi) != len(FIELDS):
                # UB / FAULT / ASSERT / garbage: no result at all
                fi = [impl] * len(FIELDS)
            p = req['p']
            for k, name in enumerate(FIELDS):
                if fi[k] == fs[k]:
                    if fm[k] != fi[k]:
                        broken_corr = broken_corr or {'line': line, 'field': name, 'impl': i,
                                                      'model': manswer[line], 'config': [cxx, std]}
                    continue
                case = {'p': p, 'kind': req['kind'], 'impl': impl_name, 'op': name,
                        'null_is_nan': is_nan(p, int(req['null'], 16)),
                        'compiles': fi[k] != 'NC', 'cxx': cxx, 'std': std}
                key = (p, req['kind'], impl_name, name, case['null_is_nan'], case['compiles'])
                ck = '%s/%s/%s/%s/null_is_nan=%s/compiles=%s' % key
                classes[ck] = classes.get(ck, 0) + 1
                if (key, cxx, std) in nontrivial:
                    continue
                nontrivial.add((key, cxx, std))
                chk.report_failure({
                    'kind': 'impl≠spec', 'harness': 'c16_opt',
                    'config': {'cxx': cxx, 'std': std, 'float_ord_compiles': info['float_ord_compiles']},
                    'lines': [line], 'field': name,
                    'observed': {'impl': i, 'model_and_spec': manswer[line],
                                 'impl_field': fi[k], 'spec_field': fs[k], 'model_field': fm[k],
                                 'model_predicts_impl': fm[k] == fi[k]},
                    'case': case})
    if broken_corr and not chk.violations:
        chk.report_unproved('impl≠model (implementation agrees with the specification)', broken_corr)
    chk.cov['evaluations'] += evals
    chk.cov['distinct_nontrivial'] += len([x for x in nontrivial if isinstance(x, str)]) + len(tabs)
    chk.cov['traces_validated_against_impl'] = evals
    chk.cov['failure_classes'] = classes
    chk.cov['configurations'] = cfg_used
    chk.cov['rule'] = ('requests = (kind, primitive, implementation, min/max/null triple, a, b): each yields 14 '
                       'compared fields (six relations, has_value x2, bool, in_range, value_or, default/nullopt '
                       'construction); distinct = distinct request lines + 33 table entries; all non-trivial. '
                       'Layer G: one generated schema, 3 attributes x (22 default + explicit) types')
    chk.cov['exhaustive'] = False
    for l in WITNESSES[:2] + lines[-2:]:
        chk.sample({'request': l, 'model': manswer[l]})


# ------------------------------------------------------------------ Layer G: real sbeppc output

def explicit_cases(p):
    """(schema literal, expected bit pattern) for explicit minValue/maxValue/nullValue"""
    name, w, kind = PRIMS[p]
    if kind == 's' and p != 'char':
        lo, hi = -(1 << (w - 1)), (1 << (w - 1)) - 1
        vs = [lo, lo + 1, -1, 0, 1, hi - 1, hi]
        return [(str(v), v & ((1 << w) - 1)) for v in vs]
    if kind == 'u':
        hi = (1 << w) - 1
        vs = [0, 1, (1 << (w - 1)) - 1, 1 << (w - 1), hi - 1, hi]
        return [(str(v), v) for v in vs]
    if kind == 'f':
        eb, mb = FMT[w]
        inf = ((1 << eb) - 1) << mb
        return [('NaN', inf | (1 << (mb - 1))), ('INF', inf), ('+INF', inf), ('-INF', inf | (1 << (w - 1)))]
    return []


def make_schema(rng):
    """one optional and one required <type> per primitive without explicit
    min/max/null, plus types with explicit boundary literals"""
    types = []
    expect = {}     # type name -> {'p', 'presence', 'min','max','null' (expected bits, None = SBE default)}
    for p, (name, w, kind) in PRIMS.items():
        for presence in ('required', 'optional'):
            tn = '%s_%s' % (presence[:3], name)
            types.append('<type name="%s" primitiveType="%s" presence="%s"/>' % (tn, name, presence))
            d = sbe_default(p)
            expect[tn] = {'p': p, 'presence': presence, 'explicit': False, 'min': d[0], 'max': d[1], 'null': d[2]}
        cases = explicit_cases(p)
        for i in range(len(cases)):
            tn = 'x%d_%s' % (i, name)
            a, b, c = cases[i], cases[(i + 1) % len(cases)], cases[(i + 2) % len(cases)]
            types.append('<type name="%s" primitiveType="%s" presence="optional" minValue="%s" maxValue="%s" nullValue="%s"/>'
                         % (tn, name, a[0], b[0], c[0]))
            expect[tn] = {'p': p, 'presence': 'optional', 'explicit': True, 'min': a[1], 'max': b[1], 'null': c[1],
                          'literals': {'min': a[0], 'max': b[0], 'null': c[0]}}
    fields = '\n'.join('    <field name="f_%s" id="%d" type="%s"/>' % (tn, i + 1, tn) for i, tn in enumerate(expect))
    xml = '''<?xml version="1.0" encoding="UTF-8"?>
<sbe:messageSchema xmlns:sbe="http://fixprotocol.io/2016/sbe" package="c16gen" id="1" version="0" byteOrder="littleEndian">
  <types>
    <composite name="messageHeader">
      <type name="blockLength" primitiveType="uint16"/>
      <type name="templateId" primitiveType="uint16"/>
      <type name="schemaId" primitiveType="uint16"/>
      <type name="version" primitiveType="uint16"/>
    </composite>
    %s
  </types>
  <sbe:message name="m" id="1">
%s
  </sbe:message>
</sbe:messageSchema>
''' % ('\n    '.join(types), fields)
    return xml, expect


BODY = re.compile(r'static\s+constexpr\s+value_type\s+(min|max|null)_value\(\)\s*noexcept\s*\{\s*return\s*\{(.*?)\};\s*\}', re.S)


def parse_generated(path, tn):
    txt = open(path, encoding='utf-8').read()
    m = re.search(r'class\s+%s\s*:\s*public\s+::sbepp::detail::(optional|required)_base<\s*([^,]+?)\s*,\s*%s\s*>\s*\{' % (tn, tn), txt)
    if not m:
        return None
    end = txt.find('\n};', m.end())
    body = txt[m.end():end]
    return {'base': m.group(1), 'cxx_type': m.group(2).strip(), 'attrs': {k: ' '.join(v.split()) for k, v in BODY.findall(body)}}


def layer_g(chk):
    rng = random.Random(chk.seed * 7919 + 1600)
    exe, log = sbeppc.build(chk)
    if exe is None:
        chk.report_unproved('sbeppc-build', log[-1500:])
        return
    xml, expect = make_schema(rng)
    h = hashlib.sha256(xml.encode()).hexdigest()[:16]
    work = os.path.join(core.BUILD, 'c16gen', '%s-%s' % (os.path.basename(exe), h))
    os.makedirs(work, exist_ok=True)
    schema = os.path.join(work, 'schema.xml')
    open(schema, 'w').write(xml)
    out = os.path.join(work, 'out')
    rc, msg = sbeppc.run(exe, schema, out)
    replay_base = {'kind': 'impl≠spec', 'layer': 'G', 'schema_xml': xml}
    if rc != 0:
        chk.report_failure(dict(replay_base, observed={'sbeppc_rc': rc, 'output': msg[-800:]},
                                case={'layer': 'G', 'what': 'sbeppc rejects the schema', 'rc': rc}))
        return
    # (a) text of every min/max/null body -> literal evaluator -> expected value
    reqs, meta = [], []
    for tn, e in expect.items():
        g = parse_generated(os.path.join(out, 'c16gen', 'types', tn + '.hpp'), tn)
        sbe_name = PRIMS[e['p']][0]
        want_base = 'optional' if e['presence'] == 'optional' else 'required'
        if g is None or g['base'] != want_base or g['cxx_type'] != CXX_TYPE[sbe_name]:
            chk.report_failure(dict(replay_base, observed={'type': tn, 'parsed': g},
                                    case={'layer': 'G', 'p': e['p'], 'type': tn, 'what': 'class shape'}))
            continue
        ks = ('min', 'max', 'null') if want_base == 'optional' else ('min', 'max')
        if sorted(g['attrs']) != sorted(ks):
            chk.report_failure(dict(replay_base, observed={'type': tn, 'parsed': g},
                                    case={'layer': 'G', 'p': e['p'], 'type': tn, 'what': 'attribute functions'}))
            continue
        for k in ks:
            reqs.append('optlit p=%s text=%s' % (e['p'], g['attrs'][k].encode().hex()))
            meta.append((tn, k, g['attrs'][k]))
    model = chk.model_exe()
    rc, mout = chk.run_lines(model, reqs) if model else (1, [])
    if rc != 0 or len(mout) != len(reqs):
        chk.report_unproved('model-driver-run (optlit)', 'rc=%s %d/%d' % (rc, len(mout), len(reqs)))
        return
    text_vals = {}
    for (tn, k, text), ans in zip(meta, mout):
        e = expect[tn]
        val = kv(ans).get('val')
        text_vals[(tn, k)] = val
        chk.cov['evaluations'] += 1
        ok = val not in (None, 'ILL') and same_value(e['p'], int(val, 16), e[k])
        if not ok:
            chk.report_failure(dict(replay_base, lines=['optlit p=%s text=%s' % (e['p'], text.encode().hex())],
                                    observed={'type': tn, 'attr': k, 'generated_text': text, 'evaluates_to': val,
                                              'expected': hx(e['p'], e[k]), 'literals': e.get('literals')},
                                    case={'layer': 'G', 'p': e['p'], 'k': k, 'explicit': e['explicit'],
                                          'text': text, 'what': 'generated literal'}))
    # (b) the generated header must compile as C++11; (c) and expose those values when executed
    top = os.path.join(work, 'syntax.cpp')
    open(top, 'w').write('#include <c16gen/c16gen.hpp>\nint main() { return 0; }\n')
    inc = ['-I' + out, '-I' + os.path.join(core.REPO, 'sbepp/src')]
    compilers = ['g++', 'clang++-14'] if chk.tier == 'thorough' else ['g++']
    for cxx in compilers:
        for std in (['c++11', 'c++17', 'c++20'] if chk.tier == 'thorough' else ['c++11']):
            rc, log = core.sh([cxx, '-std=' + std, '-fsyntax-only'] + inc + [top], timeout=600)
            chk.cov['evaluations'] += 1
            if rc != 0:
                errs = [l for l in log.splitlines() if 'error' in l][:4]
                tn = next((t for t in expect if any(('/%s.hpp' % t) in l for l in log.splitlines())), None)
                chk.report_failure(dict(replay_base, observed={'compiler': cxx, 'std': std, 'errors': errs},
                                        case={'layer': 'G', 'what': 'generated header does not compile', 'cxx': cxx,
                                              'std': std, 'type': tn, 'p': expect[tn]['p'] if tn else None}))
    drv = ['#include <c16gen/c16gen.hpp>', '#include <cstdio>', '#include <cstring>', '#include <cstdint>',
           'template<typename T> static void put(const char* n, const char* k, T v)',
           '{ unsigned char r[sizeof(T)]; std::memcpy(r, &v, sizeof(T)); std::printf("%s %s ", n, k);',
           '  for(std::size_t i = sizeof(T); i-- > 0;) std::printf("%02x", r[i]); std::printf("\\n"); }',
           'int main() {']
    for tn, e in expect.items():
        for k in (('min', 'max', 'null') if e['presence'] == 'optional' else ('min', 'max')):
            drv.append('  put("%s", "%s", c16gen::types::%s::%s_value());' % (tn, k, tn, k))
            drv.append('  put("%s", "t%s", sbepp::type_traits<c16gen::schema::types::%s>::%s_value());' % (tn, k, tn, k))
    drv.append('  return 0; }')
    dpath = os.path.join(work, 'driver.cpp')
    open(dpath, 'w').write('\n'.join(drv) + '\n')
    hdrs = []
    for d, _, fs in os.walk(out):
        hdrs += [os.path.join(d, f) for f in sorted(fs)]
    dexe, dlog = chk.build_cxx('c16_gen_driver', [dpath], flags=['-I' + out], deps=sorted(hdrs), cxx='g++', std='c++17')
    if dexe is None:
        chk.report_failure(dict(replay_base, observed={'errors': [l for l in dlog.splitlines() if 'error' in l][:4]},
                                case={'layer': 'G', 'what': 'driver over the generated header does not compile'}))
        return
    rc, dout = core.sh([dexe], timeout=60)
    for l in dout.splitlines():
        tn, k, val = l.split()
        e = expect[tn]
        k0 = k.lstrip('t') if k.startswith('t') and k[1:] in ('min', 'max', 'null') else k
        chk.cov['evaluations'] += 1
        if not same_value(e['p'], int(val, 16), e[k0]):
            chk.report_failure(dict(replay_base, observed={'type': tn, 'attr': k, 'value': val, 'expected': hx(e['p'], e[k0])},
                                    case={'layer': 'G', 'p': e['p'], 'k': k0, 'explicit': e['explicit'],
                                          'what': 'generated type exposes a different value'}))
        elif k == k0 and text_vals.get((tn, k0)) not in (None, 'ILL') and int(text_vals[(tn, k0)], 16) != int(val, 16) \
                and not is_nan(e['p'], int(val, 16)):
            chk.report_unproved('literal evaluator ≠ compiler', {'type': tn, 'attr': k, 'compiler': val,
                                                                 'evalLit': text_vals[(tn, k0)]})
    chk.cov['distinct_nontrivial'] += len(meta)
    chk.cov['programs'] = 1
    chk.cov['generated_types'] = len(expect)


# ------------------------------------------------------------------ entry points

def extract(chk):
    chk.extract()
    # tables extractor (kept separate from extract/run_all.py until it is registered there)
    import sys
    sys.path.insert(0, core.VERIF)
    from extract import tables
    with core.Lock('lake'):
        r = tables.extract(core.REPO, os.path.join(core.LEAN, 'Sbepp', 'Extracted'))
    rep = chk.extract_report
    rep.setdefault('parts', {})['tables'] = r
    for k, v in r.get('failed', {}).items():
        rep.setdefault('failed', {})['tables.%s' % k] = v
    if r.get('failed'):
        chk.log('table extraction failures:', r['failed'])
    return r


def run(chk):
    extract(chk)
    proved = chk.prove(MODULE, THEOREMS)
    if chk.tier == 'thorough' and proved:
        chk.leanchecker(MODULE)
    # few, distinct failure kinds first: only the first five replays are written out
    layer_g(chk)
    correspond(chk, configs_for(chk.tier))
    if chk.failed_obligations and not chk.violations:
        chk.report_unproved('theorem', chk.failed_obligations)
    ex_failed = (chk.extract_report or {}).get('parts', {}).get(EXTRACT_PART, {'failed': {'part': 'not run'}}).get('failed', {})
    if ex_failed and not chk.violations:
        chk.report_unproved('extraction', {'part': EXTRACT_PART, 'failed': ex_failed})
    chk.assumptions += [
        'Rt.Scalar (Rt/Optional.lean) is a hand transliteration of required_base / optional_base; every constructor, '
        'member function and friend operator (both comparison configurations) and the operator selection `rel` are '
        'regenerated from sbepp.hpp by extract/methods_optional.py and proved equal to it without hypotheses '
        '(Lemmas/OptionalTie.lean); the built-in operators on value_type (uRel/uCmp3 on Prim.load), the C++20 '
        'rewriting rules for != and the orderings, and the typing facts listed in the header of '
        'Extracted/OptionalMethods.lean are inputs of that translation',
        'plain char is signed, float/double are IEEE-754 binary32/binary64, little-endian host: checked on every '
        'run by the harness (optcfg)',
        'the hardware float comparisons agree with Ieee.classify keys: validated on the boundary/random grid; the '
        'key order itself is proved to be the order of the exact values (float_rel)',
        'explicit floating-point literals other than NaN/INF/-INF are copied verbatim into the header and are not '
        'evaluated by the model (decimal -> binary rounding is not modelled)',
        'constant evaluation (constexpr) of the operators is not exercised separately',
    ]


def replay(chk, rep):
    import sys
    extract(chk)
    model = chk.model_exe()
    lines = rep.get('lines', [])
    if rep.get('layer') == 'G':
        print('Layer G case; schema:\n' + rep.get('schema_xml', '')[:400] + ' ...')
        print('observed at record time:', rep.get('observed'))
        before = len(chk.violations)
        layer_g(chk)
        return 1 if len(chk.violations) > before else 0
    cfg = rep.get('config', {'cxx': 'g++', 'std': 'c++17'})
    exe, info = build_harness(chk, cfg['cxx'], cfg['std'])
    if exe is None:
        print('harness does not build:', info['log'])
        return 1
    _, mout = chk.run_lines(model, lines)
    _, iout = chk.run_lines(exe, lines)
    bad = 0
    for l, m, i in zip(lines, mout, iout):
        print('request:', l)
        print('  fields:', ','.join(FIELDS) if l.startswith('opt ') else '-')
        print('  impl :', i, '' if info['float_ord_compiles'] else '(NC = does not compile)')
        print('  model:', m)
        mk, ik = kv(m), kv(i)
        if l.startswith('opttab'):
            p = kv(l)['p']
            if not same_value(p, int(ik.get('impl', '0'), 16), int(mk['spec'], 16)):
                bad += 1
        elif 'spec' not in mk:
            print('  (the model driver does not answer this request)')
            bad += 1
        elif ik.get('impl') != mk.get('spec'):
            bad += 1
    return 1 if bad else 0
