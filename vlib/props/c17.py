"""C17 - header fillers write exactly the schema's identifying values."""
from .. import wirecheck as W
from . import c01

MODULE = 'Sbepp.Properties.C17'
THEOREMS = [
    'Sbepp.Properties.C17.fill_values',
    'Sbepp.Properties.C17.fill_frame',
    'Sbepp.Properties.C17.fill_determined',
    'Sbepp.Properties.C17.fill_idempotent',
    'Sbepp.Properties.C17.message_filler_is_fields',
    'Sbepp.Properties.C17.group_filler_is_fields',
    'Sbepp.Properties.C17.block_length_value',
    'Sbepp.Properties.C17.sorted_members_disjoint',
]


def run(chk):
    chk.extract()
    proved = chk.prove(MODULE, THEOREMS)
    if chk.tier == 'thorough' and proved:
        chk.leanchecker(MODULE)
    n = 120 if chk.tier == 'thorough' else 40
    # shallow messages, header-layout variation is what matters here
    run = W.WireRun(chk, n, W.configs_for(chk.tier), values_per_msg=2, ext=False, seed_salt=17, max_depth=2)
    try:
        if run.prepare():
            run.gen_cases()
            run.build_drivers()
            W.encode_check(chk, run, modes=('ra',))
    finally:
        run.cleanup()
    W.finish_cov(chk, run, 'one evaluation = fill_message_header + every fill_group_header of one message of a '
                 'generated schema (header composites with permuted members, custom offsets, extra members, ref-typed '
                 'members, every unsigned type, optional numGroups/numVarDataFields) executed by the real generated '
                 'code on a random pre-filled buffer; all bytes (header members, header padding, everything behind '
                 'the header) compared with the model; the returned view must be the header')
    if chk.failed_obligations and not chk.violations:
        chk.report_unproved('theorem', chk.failed_obligations)
    chk.assumptions += ['values that do not fit the header member type make the generated header ill-formed '
                        '(narrowing) and are a C07 matter; such messages are skipped here']


replay = c01.replay
