"""C15 - set choices are independent bits for every encoding width."""
import random

MODULE = 'Sbepp.Properties.C15'
THEOREMS = [
    'Sbepp.Properties.C15.get_bit_spec',
    'Sbepp.Properties.C15.set_bit_spec',
    'Sbepp.Properties.C15.set_then_get',
    'Sbepp.Properties.C15.set_bit_eq_spec',
    'Sbepp.Properties.C15.set_sequence',
    'Sbepp.Properties.C15.set_same_noop',
    'Sbepp.Properties.C15.set_commute',
    'Sbepp.Spec.setBit_spec',
]
WIDTH = {'u8': 8, 'u16': 16, 'u32': 32, 'u64': 64}


def gen_lines(chk, rng):
    lines = []
    thorough = chk.tier == 'thorough'
    # exhaustive checksums for 8 bit (and 16 bit in the thorough tier)
    for t in ['u8'] + (['u16'] if thorough else []):
        for n in range(WIDTH[t]):
            lines.append('bits op=getsum T=%s n=%d lo=0 hi=%d' % (t, n, 1 << WIDTH[t]))
            for b in (0, 1):
                lines.append('bits op=setsum T=%s n=%d b=%d lo=0 hi=%d' % (t, n, b, 1 << WIDTH[t]))
    # every index x walking-bit / complement / boundary / random patterns
    for t, w in WIDTH.items():
        pats = {0, (1 << w) - 1}
        for i in range(w):
            pats.add(1 << i)
            pats.add(((1 << w) - 1) ^ (1 << i))
        pats.add(int('55' * (w // 8), 16))
        pats.add(int('aa' * (w // 8), 16))
        nrand = 64 if not thorough else 1024
        for _ in range(nrand):
            pats.add(rng.getrandbits(w))
        pats = sorted(pats)
        if t in ('u8',):
            pats = pats[:40]
        for n in range(w):
            sub = pats if (thorough or w >= 32) else rng.sample(pats, min(len(pats), 48))
            if not thorough and len(sub) > 80:
                sub = rng.sample(sub, 80) + [0, (1 << w) - 1, 1 << n, ((1 << w) - 1) ^ (1 << n)]
            for v in sub:
                lines.append('bits op=get T=%s v=0x%x n=%d' % (t, v, n))
                lines.append('bits op=set T=%s v=0x%x n=%d b=0' % (t, v, n))
                lines.append('bits op=set T=%s v=0x%x n=%d b=1' % (t, v, n))
    # whole histories of setter calls on one set object (theorem set_sequence): repeated writes to one choice,
    # neighbours, the top bits, set-then-clear
    nseq = 400 if thorough else 60
    for t, w in WIDTH.items():
        for _ in range(nseq):
            v = rng.choice([0, (1 << w) - 1, rng.getrandbits(w), rng.getrandbits(w)])
            k = rng.randint(2, 24)
            hot = [rng.randrange(w) for _ in range(rng.randint(1, 4))] + [w - 1, 0]
            ops = []
            for _ in range(k):
                n = rng.choice(hot) if rng.random() < 0.6 else rng.randrange(w)
                ops.append('%d:%d' % (n, rng.getrandbits(1)))
            lines.append('bits op=seq T=%s v=0x%x n=0 ops=%s' % (t, v, ','.join(ops)))
    return lines


def kv(line):
    return dict(x.split('=', 1) for x in line.split() if '=' in x)


def correspond(chk, configs):
    rng = random.Random(chk.seed * 7919 + 15)
    lines = gen_lines(chk, rng)
    model = chk.model_exe()
    if model is None:
        chk.report_unproved('model-driver-build', 'sbepp_model does not build')
        return
    rc, mout = chk.run_lines(model, lines)
    if rc != 0 or len(mout) != len(lines):
        chk.report_unproved('model-driver-run', 'rc=%s lines=%d/%d' % (rc, len(mout), len(lines)))
        return
    nontrivial = set()
    evals = 0
    broken_corr = None
    for cxx, std in configs:
        exe, log = chk.build_cxx('c15_bits', ['c15_bits.cpp'], cxx=cxx, std=std)
        if exe is None:
            chk.report_unproved('harness-build', '%s -std=%s: %s' % (cxx, std, log[-1500:]))
            continue
        rc, iout = chk.run_lines(exe, lines)
        if rc != 0 or len(iout) != len(lines):
            chk.report_unproved('harness-run', '%s %s rc=%s lines=%d/%d' % (cxx, std, rc, len(iout), len(lines)))
            continue
        for line, m, i in zip(lines, mout, iout):
            mk, ik, req = kv(m), kv(i), kv(line)
            evals += 1
            impl = ik.get('impl')
            if req['op'] in ('getsum', 'setsum'):
                impl_ok = impl == mk.get('spec') and ik.get('implub') == '0'
            else:
                impl_ok = impl == mk.get('spec')
            if req['op'] == 'seq':
                nontrivial.add((req['T'], 'seq', req['v'], req['ops']))
            elif req['op'] in ('get', 'set'):
                nontrivial.add((req['T'], req['op'], req['v'], req['n'], req.get('b')))
            else:
                nontrivial.add((req['T'], req['op'], req['n'], req.get('b')))
            if not impl_ok:
                case = dict(req)
                case.update({'width': WIDTH[req['T']], 'n': int(req['n']), 'cxx': cxx, 'std': std})
                chk.report_failure({
                    'kind': 'impl≠spec', 'harness': 'c15_bits', 'config': {'cxx': cxx, 'std': std},
                    'lines': [line], 'observed': {'impl': i, 'model_and_spec': m}, 'case': case})
            elif mk.get('model') != mk.get('spec') or (req['op'].endswith('sum') and mk.get('modelub') != '0'):
                broken_corr = broken_corr or {'line': line, 'impl': i, 'model': m, 'config': [cxx, std]}
    if broken_corr and not chk.violations:
        chk.report_unproved('impl≠model (implementation agrees with the specification)', broken_corr)
    # the same requests through the choice accessors the real sbeppc generates (index passed as a literal by the
    # generated code; declaration order shuffled; equality and raw access cross-checked inside the driver)
    from .. import c15gen
    glines, gouts = c15gen.run(chk, configs)
    if glines:
        rc, gm = chk.run_lines(model, glines)
        for (cxx, std), io in gouts.items():
            if len(io) != len(glines):
                chk.report_unproved('generated-driver-run', '%s %s answers=%d/%d' % (cxx, std, len(io), len(glines)))
                continue
            for line, m, i in zip(glines, gm, io):
                evals += 1
                req = kv(line)
                nontrivial.add(('gen', req['T'], req['op'], req['v'], req['n'], req.get('b')))
                if kv(i).get('impl') != kv(m).get('spec'):
                    case = dict(req)
                    case.update({'width': WIDTH[req['T']], 'n': int(req['n']), 'cxx': cxx, 'std': std, 'via': 'generated'})
                    chk.report_failure({'kind': 'impl≠spec', 'harness': 'generated choice accessors (vlib/c15gen.py)',
                                        'config': {'cxx': cxx, 'std': std}, 'lines': [line],
                                        'observed': {'impl': i, 'model_and_spec': m}, 'case': case})
        chk.cov['generated_accessor_requests'] = len(glines) * max(1, len(gouts))
    chk.cov['evaluations'] = evals
    chk.cov['distinct_nontrivial'] = len(nontrivial)
    chk.cov['traces_validated_against_impl'] = evals
    chk.cov['rule'] = ('requests = (type, op, value, index[, bool]); exhaustive checksum requests count once per '
                       '(type, index, bool) and cover all 2^w values; distinct = distinct request tuples; all are '
                       'non-trivial (each exercises one shift/mask evaluation)')
    chk.cov['exhaustive'] = False
    chk.cov['configurations'] = ['%s -std=%s' % c for c in configs]
    for l, m in list(zip(lines, mout))[:3] + list(zip(lines, mout))[-3:]:
        chk.sample({'request': l, 'model': m})


def configs_for(tier):
    if tier == 'thorough':
        return [(c, s) for c in ('g++', 'clang++-14') for s in ('c++11', 'c++14', 'c++17', 'c++20')]
    return [('g++', 'c++17'), ('clang++-14', 'c++11')]


def run(chk):
    chk.extract()
    proved = chk.prove(MODULE, THEOREMS)
    if chk.tier == 'thorough' and proved:
        chk.leanchecker(MODULE)
    correspond(chk, configs_for(chk.tier))
    if chk.failed_obligations and not chk.violations:
        # the property is no longer shown to hold and the search above found no
        # failing input
        chk.report_unproved('theorem', chk.failed_obligations)
    chk.assumptions += [
        'constant evaluation is not exercised separately: the kernels are constexpr functions and the same '
        'expression is evaluated; compilers reject UB in constant evaluation, which the model proves absent',
    ]


def replay(chk, rep):
    model = chk.model_exe()
    cfg = rep.get('config', {'cxx': 'g++', 'std': 'c++17'})
    exe, log = chk.build_cxx('c15_bits', ['c15_bits.cpp'], cxx=cfg['cxx'], std=cfg['std'])
    lines = rep.get('lines', [])
    _, mout = chk.run_lines(model, lines)
    _, iout = chk.run_lines(exe, lines)
    bad = 0
    for l, m, i in zip(lines, mout, iout):
        print('request:', l)
        print('  impl :', i)
        print('  model:', m)
        if kv(i).get('impl') != kv(m).get('spec'):
            bad += 1
    return 1 if bad else 0
