"""C15, generated code: choice accessors of sets produced by the real sbeppc.
One schema with a set of every width whose choices cover EVERY bit index (in a
shuffled declaration order, so that a generator slip in index/order shows), plus
sets inside a composite and as message fields (by-tag access)."""
import os
import random
import shutil

from . import core, sbeppc, schema as S

WIDTH = {'uint8': 8, 'uint16': 16, 'uint32': 32, 'uint64': 64}


def make_schema(rng):
    types = [{'k': 'composite', 'name': 'messageHeader', 'elems': [
        {'k': 'type', 'name': n, 'prim': 'uint16'} for n in ('blockLength', 'templateId', 'schemaId', 'version')]}]
    sets = []
    for enc, w in WIDTH.items():
        idx = list(range(w))
        rng.shuffle(idx)
        name = 'Set%d' % w
        types.append({'k': 'set', 'name': name, 'enc': enc, 'choices': [{'name': 'c%d' % i, 'index': i} for i in idx]})
        sets.append((name, enc, idx))
    fields = [{'name': 'f%d' % WIDTH[enc], 'id': i + 1, 'type': name} for i, (name, enc, _) in enumerate(sets)]
    return {'package': 'cs', 'id': 1, 'version': 0, 'byteOrder': rng.choice(['littleEndian', 'bigEndian']),
            'types': types, 'messages': [{'name': 'M', 'id': 1, 'fields': fields, 'groups': [], 'datas': []}]}, sets


def gen_cpp(sets):
    src = ['#include <cs/cs.hpp>', '#include "proto.hpp"', '#include <cinttypes>', '',
           'int main() {', '  std::string line; proto::request r;', '  while(std::getline(std::cin, line)) {',
           '    if(!proto::parse(line, r)) { std::cout << "\\n"; continue; }',
           '    const std::string t = r.str("T"); const unsigned n = static_cast<unsigned>(r.u64("n"));',
           '    const std::uint64_t v = r.u64("v"); const bool b = r.u64("b") != 0; const std::string op = r.str("op");',
           '    std::uint64_t out = 0; bool ok = false;']
    # cross-checks of the other access paths against the named accessors (property: "raw value access, equality,
    # by-tag access and visiting are consistent with this, at run time and in constant evaluation")
    pre = []
    src[4:4] = [
        'struct choice_probe {',
        '  unsigned n; bool value; unsigned hits; unsigned calls;',
        '  template<typename Tag> void on_set_choice(const bool v, Tag) {',
        '    ++calls; if(sbepp::set_choice_traits<Tag>::index() == n) { value = v; ++hits; } }',
        '};',
        'static std::string why;',
        '']
    for name, enc, idx in sets:
        w = WIDTH[enc]
        u = 'std::uint%d_t' % w
        # constant evaluation: every choice getter of a constant with a single bit set / cleared
        for i in range(w):
            one = '(%s{1} << %d)' % (u, i)
            pre.append('static_assert(::cs::types::%s{static_cast<%s>%s}.c%d(), "constexpr getter");' % (name, u, one, i))
            pre.append('static_assert(!::cs::types::%s{static_cast<%s>(~%s)}.c%d(), "constexpr getter");' % (name, u, one, i))
        src.append('    if(t == "u%d") {' % w)
        src.append('      ::cs::types::%s s{static_cast<%s>(v)};' % (name, u))
        src.append('      const ::cs::types::%s s_in = s;' % name)
        src.append('      bool tagget = false; ::cs::types::%s stag = s;' % name)
        src.append('      switch(n) {')
        for i in range(w):
            tag = '::cs::schema::types::%s::c%d' % (name, i)
            src.append('      case %d: tagget = sbepp::get_by_tag<%s>(s_in); sbepp::set_by_tag<%s>(stag, b); '
                       'if(op == "get") { out = s.c%d(); } else { s.c%d(b); out = *s; } ok = true; break;'
                       % (i, tag, tag, i, i))
        src.append('      default: break; }')
        src.append('      if(ok) {')
        src.append('        const bool named = ((v >> n) & 1) != 0; (void)named;')
        src.append('        choice_probe pr{n, false, 0, 0}; sbepp::visit(s_in, pr);')
        src.append('        bool vs_value = false; unsigned vs_hits = 0; const std::string want = "c" + std::to_string(n);')
        src.append('        sbepp::visit_set(s_in, [&](const bool cv, const char* cn) { if(want == cn) { vs_value = cv; ++vs_hits; } });')
        src.append('        const bool getter = (op == "get") ? (out != 0) : tagget;')
        src.append('        if(op == "get" && tagget != getter) { ok = false; why = "get_by_tag"; }')
        src.append('        if(op == "get" && (pr.hits != 1 || pr.calls != %du || pr.value != getter)) { ok = false; why = "visit"; }' % w)
        src.append('        if(op == "get" && (vs_hits != 1 || vs_value != getter)) { ok = false; why = "visit_set"; }')
        src.append('        if(op == "set" && *stag != out) { ok = false; why = "set_by_tag"; }')
        src.append('      }')
        # equality and raw access consistent with the bits
        src.append('      if(ok && op == "set") { ::cs::types::%s s2{static_cast<%s>(out)}; ::cs::types::%s s0{static_cast<%s>(v)}; '
                   'if(!(s == s2) || ((s == s0) != (v == out)) || ((s != s0) == (v == out))) { ok = false; } }' % (name, u, name, u))
        src.append('    }')
    k = src.index('int main() {')
    src[k:k] = pre + ['']
    src += ['    if(ok) std::cout << "impl=" << out << "\\n"; else std::cout << "impl=ERR-" << why << "\\n"; why.clear();', '  }', '  return 0;', '}']
    return '\n'.join(src) + '\n'


def run(chk, configs):
    """returns (lines, per-config outputs) for `bits` requests executed through generated accessors"""
    rng = random.Random(chk.seed * 104729 + 15)
    exe, log = sbeppc.build(chk)
    if exe is None:
        chk.report_unproved('sbeppc-build', log[-1500:])
        return [], {}
    wd = os.path.join(core.BUILD, 'scratch', 'C15gen-%d' % os.getpid())
    shutil.rmtree(wd, ignore_errors=True)
    os.makedirs(wd)
    try:
        sch, sets = make_schema(rng)
        xml = os.path.join(wd, 'schema.xml')
        open(xml, 'w').write(S.to_xml(sch))
        rc, out = sbeppc.run(exe, xml, os.path.join(wd, 'gen'))
        if rc != 0:
            chk.report_failure({'kind': 'impl≠spec', 'what': 'sbeppc rejects a schema of sets covering every bit index',
                                'schema_xml': open(xml).read(), 'sbeppc_output': out[:1000],
                                'case': {'what': 'generated-sets-schema-rejected', 'rc': rc}})
            return [], {}
        src = os.path.join(wd, 'drv.cpp')
        open(src, 'w').write(gen_cpp(sets))
        lines = []
        for name, enc, idx in sets:
            w = WIDTH[enc]
            pats = {0, (1 << w) - 1, int('5' * (w // 4), 16), int('a' * (w // 4), 16)}
            for _ in range(6 if chk.tier == 'quick' else 40):
                pats.add(rng.getrandbits(w))
            for n in range(w):
                for v in sorted(pats | {1 << n, ((1 << w) - 1) ^ (1 << n)}):
                    lines.append('bits op=get T=u%d v=0x%x n=%d' % (w, v, n))
                    lines.append('bits op=set T=u%d v=0x%x n=%d b=0' % (w, v, n))
                    lines.append('bits op=set T=u%d v=0x%x n=%d b=1' % (w, v, n))
        outs = {}
        for cxx, std in configs:
            binp = os.path.join(wd, 'drv-%s-%s' % (cxx.replace('+', 'p'), std))
            rc, log = core.sh([cxx, '-std=' + std, '-O1', '-w', '-fsanitize=undefined',
                               '-fsanitize-undefined-trap-on-error', '-I' + os.path.join(wd, 'gen'),
                               '-I' + os.path.join(core.REPO, 'sbepp/src'), '-I' + os.path.join(core.VERIF, 'harness'),
                               src, '-o', binp], timeout=600)
            if rc != 0:
                chk.report_failure({'kind': 'generated code does not compile', 'config': {'cxx': cxx, 'std': std},
                                    'schema_xml': open(xml).read(), 'compiler_output': log[-2000:],
                                    'case': {'what': 'driver-compile', 'cxx': cxx, 'std': std}})
                continue
            rc, o = core.sh([binp], input='\n'.join(lines) + '\n', timeout=600)
            outs[(cxx, std)] = o.splitlines()
        return lines, outs
    finally:
        shutil.rmtree(wd, ignore_errors=True)
