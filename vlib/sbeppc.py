"""Build and run the real sbeppc from /repo's current working tree."""
import glob
import os
import re
import shutil
import subprocess

from . import core

CONDA = '/root/miniconda'


def _sources():
    d = os.path.join(core.REPO, 'sbeppc/src/sbepp/sbeppc')
    return sorted(glob.glob(os.path.join(d, '*.hpp')) + glob.glob(os.path.join(d, '*.cpp')) +
                  glob.glob(os.path.join(d, '*.in'))) + [os.path.join(core.REPO, 'sbepp/src/sbepp/sbepp.hpp')]


def version():
    try:
        txt = open(os.path.join(core.REPO, 'CMakeLists.txt')).read()
        m = re.search(r'project\s*\([^)]*VERSION\s+([0-9.]+)', txt, re.S)
        if m:
            return m.group(1)
    except OSError:
        pass
    return '0.0.0'


def build(chk=None, hardened=False):
    """Returns (path, log). hardened: ASan+UBSan, libstdc++ assertions, asserts on."""
    flags = ['-std=c++17', '-I' + os.path.join(core.REPO, 'sbeppc/src'), '-I' + os.path.join(core.REPO, 'sbepp/src'),
             '-I' + CONDA + '/include']
    if hardened:
        flags += ['-O1', '-g', '-fsanitize=address,undefined', '-fno-sanitize-recover=all',
                  '-D_GLIBCXX_ASSERTIONS', '-UNDEBUG']
    else:
        flags += ['-O1', '-DNDEBUG']
    libs = ['-L' + CONDA + '/lib', '-Wl,-rpath,' + CONDA + '/lib', '-lfmt', '-lpugixml']
    key = core.file_hash(_sources(), extra=' '.join(flags + libs))
    out = os.path.join(core.BUILD, 'bin', 'sbeppc-%s-%s' % ('hard' if hardened else 'plain', key))
    if os.path.exists(out):
        return out, ''
    os.makedirs(os.path.dirname(out), exist_ok=True)
    with core.Lock('sbeppc-' + ('hard' if hardened else 'plain')):
        if os.path.exists(out):
            return out, ''
        tmpd = out + '.d%d' % os.getpid()
        os.makedirs(tmpd, exist_ok=True)
        try:
            src = open(os.path.join(core.REPO, 'sbeppc/src/sbepp/sbeppc/build_info.cpp.in')).read()
            open(os.path.join(tmpd, 'build_info.cpp'), 'w').write(src.replace('@sbepp_VERSION@', version()))
            rc, log = core.sh(['g++'] + flags + [os.path.join(core.REPO, 'sbeppc/src/sbepp/sbeppc/main.cpp'),
                                                  os.path.join(tmpd, 'build_info.cpp'), '-o', out + '.tmp'] + libs,
                              timeout=1800)
            if rc != 0:
                return None, log
            os.replace(out + '.tmp', out)
        finally:
            shutil.rmtree(tmpd, ignore_errors=True)
    return out, ''


def run(exe, schema_path, outdir, extra_args=(), timeout=60, env=None):
    """Run sbeppc; returns (returncode, combined output). Negative rc = signal."""
    e = dict(os.environ)
    e.setdefault('ASAN_OPTIONS', 'detect_leaks=0:abort_on_error=0:exitcode=99')
    e.setdefault('UBSAN_OPTIONS', 'print_stacktrace=0:halt_on_error=1:exitcode=98')
    if env:
        e.update(env)
    try:
        p = subprocess.run([exe, '--output-dir', outdir] + list(extra_args) + [schema_path],
                           stdout=subprocess.PIPE, stderr=subprocess.STDOUT, text=True, timeout=timeout, env=e,
                           errors='replace')
        return p.returncode, p.stdout
    except subprocess.TimeoutExpired as ex:
        return -999, 'TIMEOUT ' + str(ex)
