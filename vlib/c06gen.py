"""C06: per-schema generated C++ driver calling sbepp::size_bytes_checked on
guard-page buffers of exactly n bytes (generic part: harness/c06_driver.hpp)."""
import os

from . import core

VARIANTS = {
    # what a release build does: SBEPP_SIZE_CHECK / SBEPP_ASSERT compiled out
    'rel': ['-DSBEPP_DISABLE_ASSERTS'],
    # checked build: every SBEPP_SIZE_CHECK failure -> handler -> `ASSERT`
    'chk': ['-DSBEPP_ENABLE_ASSERTS_WITH_HANDLER'],
}


def gen_driver(pkg, layout):
    src = ['#include <%s/%s.hpp>' % (pkg, pkg), '#include "c06_driver.hpp"', '',
           'using fn_t = std::function<sbepp::size_bytes_checked_result(char*, std::size_t)>;', '']
    rows = []
    for m in layout['messages']:
        if 'error' in m:
            continue
        n = m['name']
        cls = '::%s::messages::%s' % (pkg, n)
        src.append('static sbepp::size_bytes_checked_result run_%s(char* p, std::size_t n) {' % n)
        src.append('  auto m = sbepp::make_view<%s>(p, n);' % cls)
        src.append('  return sbepp::size_bytes_checked(m, n);')
        src.append('}')
        groups = []
        for g in m['level']['groups']:
            gn = g['name']
            src.append('static sbepp::size_bytes_checked_result run_%s_%s(char* p, std::size_t n) {' % (n, gn))
            src.append('  using G = decltype(std::declval<%s<char>>().%s());' % (cls, gn))
            src.append('  G g{p, n};')
            src.append('  return sbepp::size_bytes_checked(g, n);')
            src.append('}')
            groups.append('{"%s", fn_t{run_%s_%s}}' % (gn, n, gn))
        rows.append('  {"%s", c06::entry{fn_t{run_%s}, {%s}}},' % (n, n, ', '.join(groups)))
    src.append('int main() { return c06::main_loop({')
    src += rows
    src.append('}); }')
    return '\n'.join(src) + '\n'


def build(case, cxx, std, variant, opt=None):
    """case: wire.SchemaCase with .layout; returns (exe|None, log)"""
    if opt is None:
        opt = '-O0'   # halves the compile time; the reads and callbacks are all performed at -O0
    src = os.path.join(case.dir, 'c06_driver.cpp')
    if not os.path.exists(src):
        tmp = src + '.%d.%s%s%s' % (os.getpid(), cxx, std, variant)
        open(tmp, 'w').write(gen_driver(case.s['package'], case.layout))
        os.replace(tmp, src)
    exe = os.path.join(case.dir, 'c06-%s-%s-%s' % (cxx.replace('+', 'p'), std, variant))
    cmd = [cxx, '-std=' + std, opt, '-g0', '-w', '-fsanitize=undefined', '-fsanitize-undefined-trap-on-error',
           '-finstrument-functions', '-rdynamic'] + VARIANTS[variant] + [
        '-I' + os.path.join(case.dir, 'gen'), '-I' + os.path.join(core.REPO, 'sbepp/src'),
        '-I' + os.path.join(core.VERIF, 'harness'), src, '-o', exe, '-ldl']
    if cxx.startswith('clang'):
        cmd.insert(1, '-fno-crash-diagnostics')
    rc, log = 1, ''
    for _ in range(3):
        rc, log = core.sh(cmd, timeout=900)
        if rc == 0 or not compiler_crashed(log):
            break
    return (exe if rc == 0 else None), log


def compiler_crashed(log):
    return ('frontend command failed due to signal' in log or 'internal compiler error' in log
            or 'PLEASE submit a bug report' in log or 'Killed signal' in log)
