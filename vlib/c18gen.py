"""C18: per-schema generated C++ trait dumper and the independent oracle.

`entities(schema)` enumerates every schema entity that has a traits
specialisation, keyed by its tag path (`schema`, `types.T`, `types.C.m`,
`types.E.V`, `messages.M.g.f` ...), straight from the schema dict (the same
dict the XML is rendered from).  `gen_dumper` turns that list into a
translation unit which registers a printable identity for every tag type and
prints every trait of every entity through `sbepp::*_traits<Tag>`
(harness/c18_dump.hpp).  `expected(schema)` is the oracle: what the XML states
(attribute traits) and what SBE derives from it (presence, offsets, block
lengths, sizes, default ranges), computed here from the dict only - neither
from the Lean model nor from sbeppc."""
import os
import struct

from . import core, schema as S


# ------------------------------------------------------------------ entity enumeration

def find_type(types, name):
    for t in types:
        if t['name'].lower() == name.lower():
            return t
    return None


def ref_kind(types, e):
    t = find_type(types, e['type'])
    return t['k'] if t else 'none'


def entities(s):
    """[(path tuple, kind, dict, ctx)] in schema order; ctx: dict with the parent / preceding siblings"""
    out = [(('schema',), 'schema', s, {})]
    types = s['types']

    def enc(pfx, e, before):
        path = pfx + (e['name'],)
        k = e['k']
        ctx = {'before': before}
        if k == 'ref':
            out.append((path, ref_kind(types, e), e, dict(ctx, ref=True)))
            return
        out.append((path, k, e, ctx))
        if k == 'enum':
            for v in e['values']:
                out.append((path + (v['name'],), 'enum_value', v, {'enum': e}))
        elif k == 'set':
            for c in e['choices']:
                out.append((path + (c['name'],), 'set_choice', c, {'set': e}))
        elif k == 'composite':
            for i, x in enumerate(e['elems']):
                enc(path, x, e['elems'][:i])

    for t in types:
        enc(('types',), t, None)

    def level(pfx, lv):
        fs = lv.get('fields', [])
        for i, f in enumerate(fs):
            out.append((pfx + (f['name'],), 'field', f, {'before': fs[:i]}))
        for g in lv.get('groups', []):
            out.append((pfx + (g['name'],), 'group', g, {}))
            level(pfx + (g['name'],), g)
        for d in lv.get('datas', []):
            out.append((pfx + (d['name'],), 'data', d, {}))

    for m in s['messages']:
        out.append((('messages', m['name']), 'message', m, {}))
        level(('messages', m['name']), m)
    return out


def cpp_tag(pkg, path):
    if path == ('schema',):
        return '::%s::schema' % pkg
    return '::%s::schema::%s' % (pkg, '::'.join(path))


def const_fields(s):
    """constant fields whose value is a scalar (numeric constant type, char constant of length 1, enum or
    primitive field with valueRef): [(path, view C++ type, accessor name, expected value text)]"""
    pkg = s['package']
    types = s['types']
    out = []

    def enum_num(e, vname):
        prim = e['enc'] if e['enc'] in S.PRIM_SIZE else find_type(types, e['enc'])['prim']
        v = [x for x in e['values'] if x['name'] == vname][0]['value']
        return str(ord(str(v))) if prim == 'char' else str(int(str(v)))

    def ref_value(vr):
        en, vn = vr.split('.', 1)
        return enum_num(find_type(types, en), vn)

    def level(path, view, lv):
        for f in lv.get('fields', []):
            exp = None
            if f['type'] in S.PRIM_SIZE:
                if f.get('presence') == 'constant' and f.get('valueRef') and f['type'] not in ('float', 'double'):
                    exp = ref_value(f['valueRef'])
            else:
                t = find_type(types, f['type'])
                if t['k'] == 'type' and t.get('presence') == 'constant' and t['prim'] not in ('float', 'double'):
                    if t.get('valueRef'):
                        exp = ref_value(t['valueRef']) if type_length(t) == 1 else None
                    elif t['prim'] == 'char':
                        exp = str(ord(str(t['const']))) if type_length(t) == 1 else None
                    else:
                        exp = str(int(str(t['const'])))
                elif t['k'] == 'enum' and f.get('presence') == 'constant' and f.get('valueRef'):
                    exp = ref_value(f['valueRef'])
            if exp is not None:
                out.append(('.'.join(path + (f['name'],)), view, f['name'], exp))
        for g in lv.get('groups', []):
            gp = path + (g['name'],)
            level(gp, '::sbepp::group_traits<%s>::entry_type<char>' % cpp_tag(pkg, gp), g)

    for m in s['messages']:
        mp = ('messages', m['name'])
        level(mp, '::sbepp::message_traits<%s>::value_type<char>' % cpp_tag(pkg, mp), m)
    return out


def gen_dumper(s):
    pkg = s['package']
    ents = entities(s)
    src = ['#include <%s/%s.hpp>' % (pkg, pkg), '#include "c18_dump.hpp"', '', 'namespace c18', '{']
    for path, kind, d, ctx in ents:
        src.append('template<> struct tag_id<%s> { static const char* get() { return "%s"; } };' % (
            cpp_tag(pkg, path), '.'.join(path)))
    src += ['} // namespace c18', '', 'int main()', '{', '    std::ostream& o = std::cout;']
    for path, kind, d, ctx in ents:
        src.append('    c18::dump_%s<%s>(o, "%s");' % (kind, cpp_tag(pkg, path), '.'.join(path)))
    for path, view, name, exp in const_fields(s):
        src.append('    c18::put_const(o, "%s", %s::%s());' % (path, view, name))
    src += ['    c18::dump_walk<%s>(o);' % cpp_tag(pkg, ('schema',)), '    return 0;', '}', '']
    return '\n'.join(src)


def build_dumper(case, cxx, std):
    """compile the dumper of a `wire.SchemaCase` (sbeppc output in case.dir/gen)"""
    src = os.path.join(case.dir, 'c18_dump.cpp')
    if not os.path.exists(src):
        tmp = src + '.%d.%s%s' % (os.getpid(), cxx, std)
        open(tmp, 'w').write(gen_dumper(case.s))
        os.replace(tmp, src)
    exe = os.path.join(case.dir, 'c18-%s-%s' % (cxx.replace('+', 'p'), std))
    cmd = [cxx, '-std=' + std, '-O0', '-g0', '-w', '-I' + os.path.join(case.dir, 'gen'),
           '-I' + os.path.join(core.REPO, 'sbepp/src'), '-I' + os.path.join(core.VERIF, 'harness'), src, '-o', exe]
    rc, log = core.sh(cmd, timeout=600)
    return (exe if rc == 0 else None), log


# ------------------------------------------------------------------ parsing of dumps / model answers

def parse_record(rec):
    parts = rec.strip().split(' ')
    return parts[0], dict(p.split('=', 1) for p in parts[1:] if '=' in p)


def parse_dump(text):
    """dumper stdout -> ({path: {trait: value}}, {walk_types:..., walk_messages:...})"""
    rows, walk, consts = {}, {}, {}
    for line in text.splitlines():
        if not line.strip():
            continue
        if line.startswith('#walk '):
            walk = dict(p.split('=', 1) for p in line[6:].split(' ') if '=' in p)
            continue
        if line.startswith('#const '):
            _, path, val = line.strip().split(' ', 2)
            consts[path] = val
            continue
        path, kv = parse_record(line)
        rows[path] = kv
    for path, val in consts.items():
        rows.setdefault(path, {})['const_value'] = val
    return rows, walk


def parse_model(answer):
    """`ok rec;rec;...` -> {path: {trait: value}} (None if the model rejected the schema)"""
    if not answer.startswith('ok '):
        return None
    rows = {}
    for rec in answer[3:].split(';'):
        if rec.strip():
            path, kv = parse_record(rec)
            rows[path] = kv
    return rows


# ------------------------------------------------------------------ the oracle

def tx(v):
    return 'x' + str(v if v is not None else '').encode('utf-8').hex()


INT_BITS = {'char': 8, 'int8': 8, 'uint8': 8, 'int16': 16, 'uint16': 16, 'int32': 32, 'uint32': 32,
            'int64': 64, 'uint64': 64}


def sbe_default(prim, which):
    """SBE 1.0 default minValue / maxValue / nullValue as object representation"""
    if prim == 'char':
        return {'min': 0x20, 'max': 0x7e, 'null': 0}[which]
    if prim in ('float', 'double'):
        fmt, ifmt = ('<f', '<I') if prim == 'float' else ('<d', '<Q')
        mn, mx = (1.1754943508222875e-38, 3.4028234663852886e+38) if prim == 'float' else \
            (2.2250738585072014e-308, 1.7976931348623157e+308)
        if which == 'null':
            return {'float': 0x7fc00000, 'double': 0x7ff8000000000000}[prim]
        return struct.unpack(ifmt, struct.pack(fmt, mn if which == 'min' else mx))[0]
    w = INT_BITS[prim]
    if prim.startswith('u'):
        return {'min': 0, 'max': 2 ** w - 2, 'null': 2 ** w - 1}[which]
    v = {'min': -2 ** (w - 1) + 1, 'max': 2 ** (w - 1) - 1, 'null': -2 ** (w - 1)}[which]
    return v % 2 ** w


def literal_bits(prim, text):
    """object representation of an explicit minValue/maxValue/nullValue"""
    if prim in ('float', 'double'):
        fmt, ifmt = ('<f', '<I') if prim == 'float' else ('<d', '<Q')
        v = {'NaN': float('nan'), 'INF': float('inf'), '+INF': float('inf'), '-INF': float('-inf')}.get(text)
        if v is None:
            v = float(text)
        if text == 'NaN':
            return {'float': 0x7fc00000, 'double': 0x7ff8000000000000}[prim]
        return struct.unpack(ifmt, struct.pack(fmt, v))[0]
    return int(text) % 2 ** INT_BITS[prim]


def type_length(t):
    """`length` of a <type>: the attribute; absent: 1, except a constant char type, whose length is that of its
    value (SBE: "length of a constant char array defaults to the length of the constant")"""
    if t.get('length') is not None:
        return t['length']
    if t.get('presence') == 'constant' and t['prim'] == 'char' and t.get('const') is not None:
        return len(str(t['const']).encode('utf-8'))
    return 1


class Oracle:
    def __init__(self, s):
        self.s = s
        self.types = s['types']

    def prim_of_encoding(self, enc):
        if enc in S.PRIM_SIZE:
            return enc
        return find_type(self.types, enc)['prim']

    def is_const(self, e):
        if e['k'] == 'type':
            return e.get('presence') == 'constant'
        if e['k'] == 'ref':
            t = find_type(self.types, e['type'])
            return t['k'] == 'type' and t.get('presence') == 'constant'
        return False

    def size(self, e):
        k = e['k']
        if k == 'type':
            return S.PRIM_SIZE[e['prim']] * e.get('length', 1)
        if k in ('enum', 'set'):
            return S.PRIM_SIZE[self.prim_of_encoding(e['enc'])]
        if k == 'ref':
            return self.size(find_type(self.types, e['type']))
        return self.layout(e['elems'])[1]

    def layout(self, elems):
        """SBE composite layout: offsets of the non-constant elements (None for constants), total size"""
        offs, cur = [], 0
        for e in elems:
            if self.is_const(e):
                offs.append(None)
                continue
            if e.get('offset') is not None:
                cur = e['offset']
            offs.append(cur)
            cur += self.size(e)
        return offs, cur

    def actual_presence(self, f):
        if f['type'] in S.PRIM_SIZE:
            return f.get('presence', 'required')
        t = find_type(self.types, f['type'])
        if t['k'] == 'type':
            return t.get('presence', 'required')
        if t['k'] == 'composite':
            return f.get('presence', 'required')
        if t['k'] == 'enum':
            p = f.get('presence', 'required')
            return 'required' if p == 'optional' else p
        return 'required'

    def field_size(self, f):
        if f['type'] in S.PRIM_SIZE:
            return S.PRIM_SIZE[f['type']]
        return self.size(find_type(self.types, f['type']))

    def level_layout(self, fields):
        offs, cur = [], 0
        for f in fields:
            if self.actual_presence(f) == 'constant':
                offs.append(None)
                continue
            if f.get('offset') is not None:
                cur = f['offset']
            offs.append(cur)
            cur += self.field_size(f)
        return offs, cur

    # -- expected traits of one non-ref encoding (what the XML element states / SBE derives)
    def enc_traits(self, path, e, in_comp):
        k = e['k']
        self_tag = '.'.join(path)
        r = {'name': tx(e['name']), 'description': tx(e.get('desc')), 'since_version': str(e.get('since', 0) or 0)}
        if e.get('deprecated') is not None:
            r['deprecated'] = str(e['deprecated'])
        off = e.get('offset') if e.get('offset') is not None else in_comp
        if off is not None:
            r['offset'] = str(off)
        if k == 'type':
            pres = e.get('presence', 'required')
            length = type_length(e)
            r.update({'presence': pres, 'primitive_type': e['prim'], 'length': str(length),
                      'semantic_type': tx(e.get('semanticType')), 'character_encoding': tx(e.get('charEnc'))})
            if length == 1 and pres != 'constant':
                for which in ('min', 'max') + (('null',) if pres == 'optional' else ()):
                    r[which + '_value'] = str(literal_bits(e['prim'], str(e[which])) if e.get(which) is not None
                                              else sbe_default(e['prim'], which))
            if not (pres == 'constant' and length == 1):
                r['traits_tag'] = self_tag
        elif k == 'enum':
            r.update({'encoding_type': self.prim_of_encoding(e['enc']), 'traits_tag': self_tag,
                      'value_tags': ','.join(self_tag + '.' + v['name'] for v in e['values'])})
        elif k == 'set':
            r.update({'encoding_type': self.prim_of_encoding(e['enc']), 'traits_tag': self_tag,
                      'choice_tags': ','.join(self_tag + '.' + c['name'] for c in e['choices'])})
        elif k == 'composite':
            r.update({'semantic_type': tx(e.get('semanticType')), 'size_bytes': str(self.size(e)),
                      'traits_tag': self_tag,
                      'element_tags': ','.join(self_tag + '.' + x['name'] for x in e['elems'])})
        return r

    def header_member(self, header, member):
        c = find_type(self.types, header)
        for e in c['elems']:
            if e['name'] == member:
                if e['k'] == 'ref':
                    t = find_type(self.types, e['type'])
                    return 'types.' + t['name'], t['prim']
                return 'types.%s.%s' % (c['name'], e['name']), e['prim']
        raise KeyError(member)

    def level_traits(self, path, lv):
        p = '.'.join(path)
        _, computed = self.level_layout(lv.get('fields', []))
        return {'block_length': str(lv['blockLength'] if lv.get('blockLength') is not None else computed),
                'field_tags': ','.join(p + '.' + f['name'] for f in lv.get('fields', [])),
                'group_tags': ','.join(p + '.' + g['name'] for g in lv.get('groups', [])),
                'data_tags': ','.join(p + '.' + d['name'] for d in lv.get('datas', [])),
                'traits_tag': p}

    def expected(self):
        """{path: (kind, {trait: value}, dont_care set)}"""
        s = self.s
        out = {}
        consts = {p: exp for p, view, name, exp in const_fields(s)}
        for path, kind, d, ctx in entities(s):
            key = '.'.join(path)
            dont = set()
            if kind == 'schema':
                hdr = find_type(self.types, s.get('headerType', 'messageHeader'))
                r = {'package': tx(s['package']), 'id': str(s['id']), 'version': str(s['version']),
                     'semantic_version': tx(s.get('semanticVersion')),
                     'byte_order': 'big' if s.get('byteOrder') == 'bigEndian' else 'little',
                     'description': tx(s.get('desc')), 'header_type_tag': 'types.' + hdr['name'],
                     'type_tags': ','.join(sorted('types.' + t['name'] for t in self.types)),
                     'message_tags': ','.join('messages.' + m['name'] for m in s['messages']),
                     'header_type_ok': '1', 'id_type_ok': '1', 'version_type_ok': '1'}
            elif kind in ('enum_value', 'set_choice'):
                r = {'name': tx(d['name']), 'description': tx(d.get('desc')),
                     'since_version': str(d.get('since', 0) or 0)}
                if d.get('deprecated') is not None:
                    r['deprecated'] = str(d['deprecated'])
                if kind == 'enum_value':
                    prim = self.prim_of_encoding(ctx['enum']['enc'])
                    r['value'] = str(ord(str(d['value'])) if prim == 'char' else int(d['value']))
                else:
                    r.update({'index': str(d['index']), 'index_type_ok': '1'})
            elif kind in ('type', 'enum', 'set', 'composite'):
                in_comp = None
                if ctx.get('before') is not None:
                    parent_elems = ctx['before'] + [d]
                    in_comp = self.layout(parent_elems)[0][-1]
                if ctx.get('ref'):
                    # "there is no ref_traits: use the traits of the referred type" - the ref's own
                    # name / offset / sinceVersion / deprecated, everything else from the referred type
                    target = find_type(self.types, d['type'])
                    r = self.enc_traits(('types', target['name']), target, None)
                    r.pop('offset', None)
                    r.pop('deprecated', None)
                    r['name'] = tx(d['name'])
                    r['since_version'] = str(d.get('since', 0) or 0)
                    if d.get('deprecated') is not None:
                        r['deprecated'] = str(d['deprecated'])
                    if in_comp is not None:
                        r['offset'] = str(in_comp)
                    else:
                        dont.add('offset')      # constant member: occupies no space, offset is meaningless
                else:
                    r = self.enc_traits(path, d, in_comp)
                if kind == 'enum':
                    r['underlying_ok'] = '1'
            elif kind == 'message':
                r = {'name': tx(d['name']), 'description': tx(d.get('desc')), 'id': str(d['id']),
                     'semantic_type': tx(d.get('semanticType')), 'since_version': str(d.get('since', 0) or 0),
                     'schema_tag': 'schema', 'id_type_ok': '1'}
                if d.get('deprecated') is not None:
                    r['deprecated'] = str(d['deprecated'])
                r.update(self.level_traits(path, d))
            elif kind == 'group':
                dim = find_type(self.types, d['dim'])
                r = {'name': tx(d['name']), 'description': tx(d.get('desc')), 'id': str(d['id']),
                     'semantic_type': tx(d.get('semanticType')), 'since_version': str(d.get('since', 0) or 0),
                     'dimension_type_tag': 'types.' + dim['name'], 'dimension_type_ok': '1', 'id_type_ok': '1',
                     'entry_traits_tag': key}
                if d.get('deprecated') is not None:
                    r['deprecated'] = str(d['deprecated'])
                r.update(self.level_traits(path, d))
            elif kind == 'field':
                pres = self.actual_presence(d)
                r = {'name': tx(d['name']), 'id': str(d['id']), 'description': tx(d.get('desc')),
                     'since_version': str(d.get('since', 0) or 0), 'presence': pres, 'id_type_ok': '1'}
                if d.get('deprecated') is not None:
                    r['deprecated'] = str(d['deprecated'])
                if pres == 'constant':
                    dont.add('offset')
                    t = find_type(self.types, d['type']) if d['type'] not in S.PRIM_SIZE else None
                    if t is not None and t['k'] == 'enum':
                        r['traits_tag'] = 'types.' + t['name']
                    elif t is not None and t['k'] == 'type' and type_length(t) != 1:
                        r['traits_tag'] = 'types.' + t['name']
                else:
                    r['offset'] = str(self.level_layout(ctx['before'] + [d])[0][-1])
                    if d['type'] in S.PRIM_SIZE:
                        tag = 'builtin.' + d['type'] + ('_opt' if pres == 'optional' else '')
                    else:
                        tag = 'types.' + find_type(self.types, d['type'])['name']
                    r['value_type_tag'] = tag
                    r['traits_tag'] = tag
            elif kind == 'data':
                tag, prim = self.header_member(d['type'], 'length')
                r = {'name': tx(d['name']), 'id': str(d['id']), 'description': tx(d.get('desc')),
                     'since_version': str(d.get('since', 0) or 0), 'length_type_tag': tag, 'length_type': prim,
                     'size_bytes_0': str(S.PRIM_SIZE[prim]), 'size_bytes_5': str(S.PRIM_SIZE[prim] + 5),
                     'length_type_ok': '1', 'id_type_ok': '1'}
                if d.get('deprecated') is not None:
                    r['deprecated'] = str(d['deprecated'])
            else:
                r = {}
            if key in consts:
                r['const_value'] = consts[key]
            r['kind'] = kind
            r['predicates'] = ''.join('1' if k == kind else '0' for k in PREDICATES)
            out[key] = (kind, r, dont)
        return out

    # -- expected generic walk (what a traversal of the tag lists must visit)
    def walk(self):
        types = self.types

        def enc(path, e):
            k = e['k']
            if k == 'ref':
                t = find_type(types, e['type'])
                sub = enc(('types', t['name']), t)
                return ['.'.join(path) + ':' + t['k']] + sub[1:]
            me = ['.'.join(path) + ':' + k]
            if k == 'enum':
                me += ['.'.join(path + (v['name'],)) + ':enum_value' for v in e['values']]
            elif k == 'set':
                me += ['.'.join(path + (c['name'],)) + ':set_choice' for c in e['choices']]
            elif k == 'composite':
                for x in e['elems']:
                    me += enc(path + (x['name'],), x)
            return me

        def level(path, lv, kind):
            me = ['.'.join(path) + ':' + kind]
            me += ['.'.join(path + (f['name'],)) + ':field' for f in lv.get('fields', [])]
            for g in lv.get('groups', []):
                me += level(path + (g['name'],), g, 'group')
            me += ['.'.join(path + (d['name'],)) + ':data' for d in lv.get('datas', [])]
            return me

        return ([','.join(enc(('types', t['name']), t)) for t in types],
                [','.join(level(('messages', m['name']), m, 'message')) for m in self.s['messages']])


PREDICATES = ['type', 'enum', 'enum_value', 'set', 'set_choice', 'composite', 'field', 'group', 'data', 'message',
              'schema']

# traits only the dumper prints (type relations checked inside the C++), never part of the model table
IMPL_ONLY = {'header_type_ok', 'id_type_ok', 'version_type_ok', 'underlying_ok', 'index_type_ok', 'dimension_type_ok',
             'length_type_ok', 'size_bytes_5', 'const_value'}
