"""C02, byte-order kernels: theorem obligations + three-way comparison of every
`byteswap` branch of sbepp.hpp (compiled-in branch, portable branch, the
`__builtin_bswap32` 16-bit variant) with the extracted Lean kernels and the
byte-reversal specification."""
import os
import random
import re

from . import core
from extract import cxx

MODULE = 'Sbepp.Properties.C02Bswap'
THEOREMS = [
    'Sbepp.Properties.C02Bswap.byteswap_portable_u64_spec',
    'Sbepp.Properties.C02Bswap.byteswap_portable_u32_spec',
    'Sbepp.Properties.C02Bswap.byteswap_portable_u16_spec',
    'Sbepp.Properties.C02Bswap.byteswap_u16_via_bswap32_spec',
    'Sbepp.Properties.C02Bswap.swapped_load_is_big_endian',
    'Sbepp.Properties.C02Bswap.swapped_store_is_big_endian',
    'Sbepp.Properties.C02Bswap.bswap_involutive',
]
HPP = 'sbepp/src/sbepp/sbepp.hpp'


def variants_header(repo):
    """Copy the non-selected branches verbatim out of sbepp.hpp."""
    src = cxx.strip_comments(open(os.path.join(repo, HPP), encoding='utf-8').read())
    out = ['// GENERATED from %s by vlib/c02bswap.py - do not edit' % HPP, '#pragma once', '#include <cstdint>', '']
    out.append('namespace var_portable\n{')
    for w in (64, 32, 16):
        sig = r'constexpr\s+std::uint%d_t\s+byteswap\(\s*std::uint%d_t\s+v\s*\)\s*noexcept\s*\{' % (w, w)
        body, _ = cxx.find_function(src, sig)
        out.append('constexpr std::uint%d_t byteswap(std::uint%d_t v) noexcept\n{%s}\n' % (w, w, body))
    out.append('}\nnamespace var_via32\n{')
    sig = r'inline\s+std::uint16_t\s+byteswap\(\s*std::uint16_t\s+v\s*\)\s*noexcept\s*\{'
    nth = 0
    while True:
        body, _ = cxx.find_function(src, sig, nth=nth)
        if '__builtin_bswap32' in body:
            break
        nth += 1
    out.append('inline std::uint16_t byteswap(std::uint16_t v) noexcept\n{%s}\n}' % body)
    return '\n'.join(out) + '\n'


def gen_lines(chk, rng):
    thorough = chk.tier == 'thorough'
    lines = []
    for w in (16, 32, 64):
        vals = {0, (1 << w) - 1, 1, 1 << (w - 1), int('0102030405060708'[:w // 4], 16),
                int('80' + '00' * (w // 8 - 1), 16), int('00' * (w // 8 - 1) + '80', 16)}
        for i in range(w):
            vals.add(1 << i)
            vals.add(((1 << w) - 1) ^ (1 << i))
        for k in range(w // 8):
            vals.add(0xff << (8 * k))
            vals.add(0x80 << (8 * k))
        if w == 16:
            vals |= set(range(1 << 16)) if thorough else set(rng.sample(range(1 << 16), 3000))
        else:
            for _ in range(20000 if thorough else 1500):
                vals.add(rng.getrandbits(w))
        for var in ('builtin', 'portable') + (('via32',) if w == 16 else ()):
            for v in sorted(vals):
                lines.append('bswap variant=%s w=%d v=0x%x' % (var, w, v))
    return lines


def kv(line):
    return dict(x.split('=', 1) for x in line.split() if '=' in x)


def correspond(chk, configs):
    """Returns the number of evaluations."""
    rng = random.Random(chk.seed * 7919 + 202)
    lines = gen_lines(chk, rng)
    model = chk.model_exe()
    if model is None:
        chk.report_unproved('model-driver-build', 'sbepp_model does not build')
        return 0
    rc, mout = chk.run_lines(model, lines)
    if rc != 0 or len(mout) != len(lines):
        chk.report_unproved('model-driver-run', 'bswap rc=%s lines=%d/%d' % (rc, len(mout), len(lines)))
        return 0
    gdir = os.path.join(core.BUILD, 'gen', 'c02bswap')
    os.makedirs(gdir, exist_ok=True)
    try:
        text = variants_header(core.REPO)
    except (cxx.ExtractError, ValueError) as ex:
        chk.report_unproved('byteswap-variants-extraction', str(ex))
        return 0
    hdr = os.path.join(gdir, 'c02_bswap_variants.hpp')
    if not os.path.exists(hdr) or open(hdr).read() != text:
        tmp = hdr + '.tmp%d' % os.getpid()
        open(tmp, 'w').write(text)
        os.replace(tmp, hdr)
    evals = 0
    broken = None
    for cxx_, std in configs:
        exe, log = chk.build_cxx('c02_bswap', ['c02_bswap.cpp'], flags=['-I' + gdir], cxx=cxx_, std=std, deps=[hdr])
        if exe is None:
            chk.report_unproved('harness-build', 'c02_bswap %s -std=%s: %s' % (cxx_, std, log[-1500:]))
            continue
        rc, iout = chk.run_lines(exe, lines)
        if rc != 0 or len(iout) != len(lines):
            chk.report_unproved('harness-run', 'c02_bswap %s %s rc=%s lines=%d/%d' % (cxx_, std, rc, len(iout), len(lines)))
            continue
        for line, m, i in zip(lines, mout, iout):
            evals += 1
            mk, ik, req = kv(m), kv(i), kv(line)
            if ik.get('impl') != mk.get('spec'):
                case = {'what': 'byteswap', 'variant': req['variant'], 'w': int(req['w']), 'cxx': cxx_, 'std': std}
                chk.report_failure({'kind': 'impl≠spec', 'harness': 'c02_bswap', 'config': {'cxx': cxx_, 'std': std},
                                    'lines': [line], 'observed': {'impl': i, 'model_and_spec': m}, 'case': case})
            elif mk.get('model') != mk.get('spec'):
                broken = broken or {'line': line, 'impl': i, 'model': m}
    if broken and not chk.violations:
        chk.report_unproved('impl≠model (implementation agrees with the specification)', broken)
    chk.cov['byteswap_requests'] = evals
    return evals
