"""Sources of run-to-run variation in sbeppc's output (property C20,
`output_function_of_schema`).

Scans `sbeppc/src/sbepp/sbeppc` for

  * time / randomness / process identity / environment / pointer formatting
    (`nondetSources`: must be empty), and
  * every range-`for` whose range is an unordered (hash) container
    (`hashIterations`), with the key type of the container as declared in the
    sources; and every declaration of a hash container whose key is a pointer
    (`pointerKeyedContainers`; `context_manager`'s maps are such) -- none of
    those may be iterated.

Writes `Sbepp/Extracted/NondetSources.lean`.  Python stdlib only.
"""
import hashlib
import os
import re

from .kernels import write_if_changed
from .unchecked_sites import SRC_DIR, blank, functions, lean_str, norm

NONDET = [
    ('time', re.compile(r'\b(?:std::)?(?:time|clock|gettimeofday|clock_gettime|localtime|gmtime|strftime)\s*\(')),
    ('chrono', re.compile(r'\bchrono::')),
    ('random', re.compile(r'\b(?:std::)?(?:rand|srand|random|drand48)\s*\(|\brandom_device\b|\bmt19937|\bdefault_random_engine')),
    ('process', re.compile(r'\b(?:getpid|getppid|gettid|getuid|gethostname|this_thread::get_id)\s*\(')),
    ('environment', re.compile(r'\b(?:std::)?(?:getenv|secure_getenv)\s*\(')),
    ('build-time', re.compile(r'\b__(?:DATE|TIME|TIMESTAMP)__\b')),
    ('pointer-format', re.compile(r'\bfmt::ptr\s*\(|static_cast<\s*(?:const\s+)?void\s*\*\s*>|reinterpret_cast<\s*(?:std::)?u?intptr_t')),
    ('temp-name', re.compile(r'\b(?:tmpnam|tempnam|mkstemp|mkdtemp|tmpfile)\s*\(')),
]

DECL = re.compile(r'std::unordered_(map|set)\s*<')
FOR = re.compile(r'\bfor\s*\(')


def template_args(code, i):
    """code[i] == '<': return (args list split at top-level commas, index after '>')"""
    depth, j, args, cur = 0, i, [], ''
    while j < len(code):
        c = code[j]
        if c == '<':
            depth += 1
            if depth > 1:
                cur += c
        elif c == '>':
            depth -= 1
            if depth == 0:
                args.append(cur.strip())
                return args, j + 1
            cur += c
        elif c == ',' and depth == 1:
            args.append(cur.strip())
            cur = ''
        else:
            cur += c
        j += 1
    raise ValueError('unbalanced <')


def declarations(codes):
    """name -> set of key types, for every declared unordered container
    (members, locals, parameters, `using` aliases)."""
    decls = {}
    where = []
    for f, code in codes.items():
        for m in DECL.finditer(code):
            try:
                args, end = template_args(code, m.end() - 1)
            except ValueError:
                continue
            key = norm(args[0]) if args else '?'
            rest = code[end:end + 120]
            nm = re.match(r'\s*(?:&|\*|const)?\s*&?\s*(\w+)\s*(?:[;,)={]|\{)', rest)
            alias = re.search(r'using\s+(\w+)\s*=\s*$', code[max(0, m.start() - 60):m.start()])
            name = alias.group(1) if alias else (nm.group(1) if nm else None)
            line = code.count('\n', 0, m.start()) + 1
            if name:
                decls.setdefault(name, set()).add(key)
            where.append((f, name or '?', key, line))
    return decls, where


def extract(repo, outdir):
    report = {'source': SRC_DIR, 'failed': {}}
    try:
        d = os.path.join(repo, SRC_DIR)
        files = sorted(f for f in os.listdir(d) if f.endswith(('.hpp', '.cpp')))
        raws = {f: open(os.path.join(d, f), encoding='utf-8').read() for f in files}
        codes = {f: blank(raws[f]) for f in files}
        decls, where = declarations(codes)
        nondet, iters = [], []
        for f in files:
            code, raw_lines = codes[f], raws[f].split('\n')
            for kind, rx in NONDET:
                for m in rx.finditer(code):
                    line = code.count('\n', 0, m.start()) + 1
                    nondet.append((f, kind, line, norm(raw_lines[line - 1])[:110]))
            fns = functions(code)

            def fn_at(pos):
                for name, s, e, _ in fns:
                    if s <= pos <= e:
                        return name
                return '?'
            for m in FOR.finditer(code):
                # header up to the matching ')'
                depth, j = 0, m.end() - 1
                while j < len(code):
                    if code[j] == '(':
                        depth += 1
                    elif code[j] == ')':
                        depth -= 1
                        if depth == 0:
                            break
                    j += 1
                hdr = code[m.end():j]
                if ';' in hdr:
                    continue
                # split at the top-level ':' that is not '::'
                k, depth2, colon = 0, 0, -1
                while k < len(hdr):
                    c = hdr[k]
                    if c in '([{<':
                        depth2 += 1
                    elif c in ')]}>':
                        depth2 -= 1
                    elif c == ':' and depth2 == 0:
                        if hdr[k:k + 2] == '::':
                            k += 2
                            continue
                        colon = k
                        break
                    k += 1
                if colon < 0:
                    continue
                rng = norm(hdr[colon + 1:])
                ident = re.findall(r'(\w+)\s*(?:\(\s*\))?\s*$', rng)
                last = ident[-1] if ident else ''
                keys = decls.get(last)
                if keys:
                    line = code.count('\n', 0, m.start()) + 1
                    iters.append((f, fn_at(m.start()), rng, ' | '.join(sorted(keys)), line))
        ptr = [(f, n, k, ln) for f, n, k, ln in where if '*' in k]
        report.update({'nondet_sources': len(nondet), 'hash_iterations': len(iters), 'hash_containers': len(where),
                       'pointer_keyed_containers': len(ptr),
                       'sha256': hashlib.sha256(repr((nondet, iters, ptr)).encode()).hexdigest()})
        if len(where) < 5:
            report['failed']['container_scan'] = 'only %d unordered containers recognised' % len(where)
    except (OSError, ValueError, IndexError, KeyError) as ex:
        report['failed']['nondet_sources'] = repr(ex)
        nondet, iters, ptr = [('?', 'extraction-failed', 0, repr(ex)[:80])], [], []
    L = ['-- GENERATED by /verif/extract/nondet_sources.py from %s on every check run. Do not edit.' % SRC_DIR,
         'namespace Sbepp.Extracted', '',
         '/-- (file, kind, line, text): time, randomness, process identity, environment, pointer formatting -/',
         'def nondetSources : List (String × String × Nat × String) := [',
         ',\n'.join('  (%s, %s, %d, %s)' % (lean_str(a), lean_str(b), c, lean_str(d)) for a, b, c, d in nondet), ']', '',
         '/-- (file, function, range expression, key type of the hash container, line) -/',
         'def hashIterations : List (String × String × String × String × Nat) := [',
         ',\n'.join('  (%s, %s, %s, %s, %d)' % (lean_str(a), lean_str(b), lean_str(c), lean_str(d), e)
                    for a, b, c, d, e in iters), ']', '',
         '/-- (file, declared name, key type, line): hash containers keyed by addresses -/',
         'def pointerKeyedContainers : List (String × String × String × Nat) := [',
         ',\n'.join('  (%s, %s, %s, %d)' % (lean_str(a), lean_str(b), lean_str(c), d) for a, b, c, d in ptr), ']', '',
         'end Sbepp.Extracted', '']
    write_if_changed(os.path.join(outdir, 'NondetSources.lean'), '\n'.join(L))
    report['iterations'] = [list(x) for x in iters]
    report['pointer_keyed'] = [list(x) for x in ptr]
    return report


if __name__ == '__main__':
    import json
    import sys
    json.dump(extract(sys.argv[1] if len(sys.argv) > 1 else '/repo', sys.argv[2] if len(sys.argv) > 2 else '.'),
              sys.stdout, indent=1)
