"""Extractor for C04: which of the cursor classes' accessor methods assert the
cursor position ("Wrong cursor value") and what their SBEPP_SIZE_CHECK is based
on, read from /repo's sbepp.hpp.  Same interface as the other extractors
(`extract(repo, outdir) -> report`); the table goes into the report (and
`cursor_sites.json`), the Lean side prints the same table by probing the model
functions (`cursor (sites)`), vlib/props/c04.py compares the two."""
import json
import os
import re

from . import cxx

CLASSES = ['cursor', 'init_cursor_wrapper', 'init_dont_move_cursor_wrapper', 'dont_move_cursor_wrapper',
           'skip_cursor_wrapper']
METHODS = ['get_value', 'set_value', 'get_last_value', 'set_last_value', 'get_static_field_view',
           'get_last_static_field_view', 'get_first_group_view', 'get_first_data_view', 'get_group_view',
           'get_data_view']
FIELD_METHODS = METHODS[:6]


def class_body(src, name):
    m = re.search(r'\bclass\s+%s\s*\{' % re.escape(name), src)
    if not m:
        return None, None
    i = m.end() - 1
    j = cxx.match_brace(src, i)
    return src[i:j + 1], src.count('\n', 0, m.start()) + 1


def method_body(body, name):
    """body of the first definition `... name(...) ... noexcept {`"""
    for m in re.finditer(r'\b%s\s*\(' % re.escape(name), body):
        # skip calls: a definition is preceded by a return type / template header, not by `.`/`>`/`return`
        pre = body[max(0, m.start() - 40):m.start()]
        if re.search(r'(return|\.|->|template)\s*$', pre) or re.search(r'template\s+$', pre):
            continue
        j = cxx.match_brace(body, m.end() - 1, '(', ')')
        k = body.find('{', j)
        semi = body.find(';', j)
        if k < 0 or (0 <= semi < k):
            continue
        e = cxx.match_brace(body, k)
        return body[k:e + 1]
    return None


def classify(cls_bodies, cls, meth, depth=0):
    b = method_body(cls_bodies[cls], meth)
    if b is None:
        return None
    asserts = 'Wrong cursor value' in b
    sc = re.search(r'SBEPP_SIZE_CHECK\(\s*(.*?)\)\s*;', b, re.S)
    kind = 'none'
    if sc:
        args = [a.strip() for a in split_args(sc.group(1))]
        base = 'ptr' if re.sub(r'\s', '', args[0]) in ('ptr', 'cursor->pointer()') else 'view'
        kind = base + ('0' if args[-1] == '0' else '')
    if not asserts and not sc and depth < 2:
        # forwarding: `return get_value<...>(view, ...)`, `cursor->template get_first_group_view<...>(view)`
        fw = re.search(r'return\s+(cursor->template\s+)?(\w+)\s*<', b)
        if fw and fw.group(2) in METHODS:
            tgt_cls = 'cursor' if fw.group(1) else cls
            r = classify(cls_bodies, tgt_cls, fw.group(2), depth + 1)
            if r is not None:
                return r
    return {'assert': asserts, 'sizecheck': kind if meth in FIELD_METHODS else 'n/a'}


def split_args(s):
    out, depth, cur = [], 0, ''
    for ch in s:
        if ch in '({[':
            depth += 1
        elif ch in ')}]':
            depth -= 1
        if ch == ',' and depth == 0:
            out.append(cur)
            cur = ''
        else:
            cur += ch
    out.append(cur)
    return out


def extract(repo, outdir):
    report = {'failed': {}, 'sites': {}, 'where': {}}
    path = os.path.join(repo, 'sbepp/src/sbepp/sbepp.hpp')
    try:
        src = cxx.strip_comments(open(path, encoding='utf-8').read())
    except OSError as e:
        report['failed']['sbepp.hpp'] = str(e)
        return report
    bodies = {}
    for c in CLASSES:
        b, line = class_body(src, c)
        if b is None:
            report['failed'][c] = 'class not found'
            continue
        bodies[c] = b
        report['where'][c] = line
    for c in bodies:
        for m in METHODS:
            try:
                r = classify(bodies, c, m)
            except Exception as e:  # noqa: BLE001 - reported by name
                report['failed']['%s::%s' % (c, m)] = repr(e)
                continue
            if r is None:
                if c == 'skip_cursor_wrapper' and m in ('set_value', 'set_last_value'):
                    continue   # skip has no setters
                report['failed']['%s::%s' % (c, m)] = 'method not found'
            else:
                report['sites']['%s::%s' % (c, m)] = r
    if outdir:
        try:
            with open(os.path.join(outdir, 'cursor_sites.json'), 'w') as f:
                json.dump(report, f, indent=1, sort_keys=True)
        except OSError:
            pass
    return report
