"""Method-level translator for the group containers and their iterators of sbepp.hpp:
`detail::flat_group_base`, `detail::nested_group_base`, `detail::forward_iterator`,
`detail::input_iterator`, `detail::cursor_range`, constructor / `operator*` of
`detail::random_access_iterator`, and the constructors / accessors of `detail::entry_base` that
the iterators use.

Pipeline (nothing is keyed to today's text of a member function):

  class text --(#if SBEPP_SIZE_CHECKS_ENABLED: checked and unchecked variant)--> tokens
    --> declaration scanner (using-aliases, data members, constructors with their member
        initialisers, member functions, operators, friends)
    --> statement / expression parser (AST)
    --> C++ typing (aliases and template arguments are resolved from the class text: which
        template argument of `random_access_iterator<...>` is the index type, what `size_type`
        is, ...) and rendering, statement by statement, into one of two target languages:

  * model I  (`Rt/Iter.lean`, C12; DSL `Rt/GroupDsl.lean`, namespace `Sbepp.Rt.GroupDsl`): the
    container members (`operator()(get_header_tag)`, `operator()(size_bytes_tag)`, `sbe_size`,
    `size`, `resize`, `empty`, `begin`, `end`, `operator[]`, `front`, `back`, `clear`) of both
    group classes, `forward_iterator` (constructor, `*`, `++`, `==`, `!=`), constructor and `*` of
    `random_access_iterator`.  Integer and pointer expressions become deep-embedded `CExpr`
    terms for the C++ evaluator of `Base/CExpr.lean` (typing, promotion, conversion and UB stay
    there, exactly as for the extracted kernels); the method level is rendered as `do` blocks:
    calls of other member functions, `SBEPP_ASSERT` / `SBEPP_SIZE_CHECK` (the macro's `#define`
    is translated too), construction of iterators (parameter-passing conversions in the order
    and with the types the constructor declares), the header setter, the range-`for` loop.
    The remaining operators of `random_access_iterator` (`++ -- += + - []`, comparisons) are
    the kernel wrappers of `Rt/Iter.lean` (`Rt.inc`, `Rt.dec`, `Rt.plus`, ...), extracted by
    kernels.py / kernels_group.py.

  * model II (`Rt/Cursor.lean`, C04; DSL `Sbepp.Rt.Cursor.GroupDsl` in the same file): the
    cursor-range members (`cursor_range`, `cursor_subrange` x2, `cursor_begin`, `cursor_end`,
    `operator()(visit_children_tag, v, c)`) with the header accessors they call, class
    `cursor_range`, `input_iterator`, `entry_base(Byte*, Byte*, BlockLengthType)`,
    `entry_base(cursor&, Byte*, BlockLengthType)` and the two `entry_base` accessors.  Values
    are `Nat` / `Option Nat`, the monad is `Out`.

Output: lean/Sbepp/Extracted/GroupMethods.lean + a report (dict).  Ties:
`lean/Sbepp/Lemmas/GroupTie.lean`.

C++ typing facts the translator assumes (also written into the generated file):
  * `Byte*` is `.ptr` (model I: signed 64-bit offset, `nullptr` = 0) / `Option Nat` (model II);
    `std::size_t` is `.u64`; `size_type` = `NT`, the block length type = `BT`,
    `difference_type` = `diffTy NT`; an integer literal is `int`;
  * an argument passed to a parameter is converted to the parameter's declared type (`.decl`
    statement for constructor parameters, `CVal.conv` at the entry of a member function); a
    `return e` converts to the declared return type unless `e` already has exactly that type;
  * a `Dimension` header object is only ever constructed over the view's own `[addr, end)`
    (anything else is rejected); its accessors are generated code and are modelled by what they
    read: `sbepp::size_bytes(h)` = `hdr`, `h.numInGroup().value()` = `num`,
    `h.blockLength().value()` = `bl` (model II: `rd` at the field's offset); the `numInGroup(v)`
    setter writes `sizeof(size_type)` bytes in the header's byte order at the field's offset;
  * `SBEPP_ASSERT` / `SBEPP_SIZE_CHECK` are enabled together with `SBEPP_SIZE_CHECKS_ENABLED`
    (`chk` / `endp.isSome`); in unchecked builds the argument is not evaluated;
  * the `end` data member of the iterators exists only with size checks enabled; it is read
    only inside `SBEPP_SIZE_CHECK` or under `#if SBEPP_SIZE_CHECKS_ENABLED`, the model keeps it
    always;
  * `sbepp::size_bytes(entry)` of a group entry is the oracle `esize` applied to the entry's
    address (model I: an entry view is its address); loops carry `fuel` like `Rt.fwdWalk`;
  * model II: `size_type` arithmetic is `Nat` (`a - b` truncated: exact under the preceding
    `SBEPP_ASSERT(pos < size())`), the explicit conversions `static_cast<size_type>(a - b)` /
    `static_cast<IndexType>(a + b)` / `index++` wrap at `2 ^ (8 * sizeof(size_type))`; the
    cursor and the end pointer a range / iterator refers to are the ambient `c` / `endp` (a
    range over another cursor or end pointer is rejected).
"""
import hashlib
import os
import re

from . import cxx
from .cxx import ExtractError
from .kernels import write_if_changed

HPP = 'sbepp/src/sbepp/sbepp.hpp'
LEAN_NS = 'Sbepp.Extracted.Group'

CLASSES = ['entry_base', 'forward_iterator', 'random_access_iterator', 'input_iterator', 'cursor_range',
           'flat_group_base', 'nested_group_base']

ERRS = (ExtractError, ValueError, AssertionError, IndexError, KeyError, RecursionError, AttributeError, TypeError)

# ------------------------------------------------------------------ preprocessor


def pp_variants(text):
    """`#if SBEPP_SIZE_CHECKS_ENABLED A [#else B] #endif` -> (text with A, text with B).
    Line structure is kept (dropped lines become empty).  Any other directive is refused."""
    chk, unc = [], []
    stack = []          # True while in the #else part
    for ln in text.split('\n'):
        s = ln.strip()
        if s.startswith('#'):
            d = s[1:].strip()
            if re.match(r'if\s+SBEPP_SIZE_CHECKS_ENABLED\s*$', d):
                stack.append(False)
            elif re.match(r'else\b', d):
                if not stack:
                    raise ExtractError('#else without #if')
                stack[-1] = True
            elif re.match(r'endif\b', d):
                if not stack:
                    raise ExtractError('#endif without #if')
                stack.pop()
            else:
                raise ExtractError('preprocessor directive `%s` inside a translated class' % s)
            chk.append('')
            unc.append('')
            continue
        chk.append(ln if all(not e for e in stack) else '')
        unc.append(ln if all(stack) else '')
    if stack:
        raise ExtractError('unterminated #if')
    return '\n'.join(chk), '\n'.join(unc)


# ------------------------------------------------------------------ tokens

TOK = re.compile(r'''
    (?P<ws>\s+)
  | (?P<num>0[xX][0-9a-fA-F']+[uUlL]*|\d[\d']*[uUlL]*)
  | (?P<str>"(?:[^"\\]|\\.)*")
  | (?P<chr>'(?:[^'\\]|\\.)+')
  | (?P<id>[A-Za-z_][A-Za-z_0-9]*)
  | (?P<op><<=|>>=|<=>|->|\+\+|--|<<|>>|<=|>=|==|!=|&&|\|\||\+=|-=|\*=|/=|%=|&=|\|=|\^=|::|[-+*/%<>=!~&|^?:;,.(){}\[\]])
''', re.X)


def tokenize(text, base_line=1):
    """-> list of (kind, text, line)"""
    toks = []
    i = 0
    line = base_line
    while i < len(text):
        m = TOK.match(text, i)
        if not m:
            raise ExtractError('cannot tokenize at: %r' % text[i:i + 30])
        k = m.lastgroup
        if k != 'ws':
            toks.append((k, m.group(k), line))
        line += text.count('\n', i, m.end())
        i = m.end()
    return toks


def int_value(tok):
    m = re.fullmatch(r"(0[xX][0-9a-fA-F']+|\d[\d']*)([uUlL]*)", tok)
    digits = m.group(1).replace("'", '')
    if len(digits) > 1 and digits[0] == '0' and digits[1] not in 'xX':
        return int(digits, 8), m.group(2).lower()
    return int(digits, 0), m.group(2).lower()


def match_tok(toks, i, open_c, close_c):
    depth = 0
    while i < len(toks):
        if toks[i][0] == 'op':
            v = toks[i][1]
            if v == open_c:
                depth += 1
            elif v == close_c:
                depth -= 1
                if depth == 0:
                    return i
        i += 1
    raise ExtractError('unbalanced %s%s' % (open_c, close_c))


def match_angle(toks, i):
    """toks[i] is `<`; index of the matching `>` (parentheses are skipped as units)"""
    depth = 0
    while i < len(toks):
        k, v = toks[i][0], toks[i][1]
        if k == 'op':
            if v == '<':
                depth += 1
            elif v == '>':
                depth -= 1
                if depth == 0:
                    return i
            elif v == '>>':
                depth -= 2
                if depth <= 0:
                    return i
            elif v == '(':
                i = match_tok(toks, i, '(', ')')
            elif v in (';', '{', '}'):
                break
        i += 1
    raise ExtractError('unbalanced <>')


def split_top(toks, sep=','):
    """split a token list at top-level separators (nesting: () {} [] <>)"""
    out, cur, depth = [], [], 0
    for t in toks:
        if t[0] == 'op':
            if t[1] in '({[<':
                depth += 1
            elif t[1] in ')}]>':
                depth -= 1
            elif t[1] == '>>':
                depth -= 2
        if t[0] == 'op' and t[1] == sep and depth == 0:
            out.append(cur)
            cur = []
        else:
            cur.append(t)
    if cur or out:
        out.append(cur)
    return out


def join_toks(toks):
    """source text of a token list, blanks only where two words meet and after `,` / `;`"""
    out = []
    prev = None
    for t in toks:
        if prev is not None:
            word = lambda x: x[0] in ('id', 'num', 'str', 'chr')
            if (word(prev) and word(t)) or prev[1] in (',', ';') or (prev[1] == '{' and t[1] != '}') \
                    or (t[1] == '}' and prev[1] != '{') or (t[1] == '{' and word(prev) and prev[1] in ('noexcept', 'const')):
                out.append(' ')
        out.append(t[1])
        prev = t
    return ''.join(out)


def spell(toks):
    """type spelling of a token list: no blanks, no cv-qualifiers / `typename` / namespace prefixes"""
    out = []
    skip_ns = False
    for idx, t in enumerate(toks):
        if t[0] == 'id' and t[1] in ('const', 'typename', 'volatile'):
            continue
        if t[0] == 'id' and t[1] in ('sbepp', 'detail') and idx + 1 < len(toks) and toks[idx + 1][1] == '::':
            skip_ns = True
            continue
        if skip_ns and t[1] == '::':
            skip_ns = False
            continue
        skip_ns = False
        out.append(t[1])
    s = ''.join(out)
    while s.startswith('::'):
        s = s[2:]
    return s


# ------------------------------------------------------------------ declaration scanner

SPECIFIERS = {'SBEPP_CPP14_CONSTEXPR', 'SBEPP_CPP17_CONSTEXPR', 'SBEPP_CPP20_CONSTEXPR', 'SBEPP_CPP17_INLINE_VAR',
              'SBEPP_CPP17_NODISCARD', 'constexpr', 'inline', 'static', 'explicit', 'friend', 'virtual'}

OPERATOR_NAMES = {'()': 'call', '[]': 'subscript', '*': 'deref', '++': 'inc', '--': 'dec', '==': 'eq', '!=': 'ne',
                  '<': 'lt', '<=': 'le', '>': 'gt', '>=': 'ge', '+': 'plus', '-': 'minus', '+=': 'add_assign',
                  '-=': 'sub_assign', '->': 'arrow', '=': 'assign'}


class Method:
    def __init__(self):
        self.name = None          # C++ name (`operator()`, `size`, class name for a constructor)
        self.key = None           # translation name (see `method_key`)
        self.line = None
        self.tparams = []         # template parameter names
        self.ret = ''             # return type spelling ('' for constructors)
        self.params = []          # [(type spelling, name|None)]
        self.inits = []           # constructor: [(member/base spelling, [arg token lists], line)]
        self.body = None          # token list
        self.text = None          # normalised source text
        self.is_ctor = False
        self.is_friend = False
        self.is_static = False
        self.defaulted = False


class ClassInfo:
    def __init__(self, name):
        self.name = name
        self.tparams = []
        self.aliases = {}         # name -> ([template parameter names], spelling)
        self.members = []         # [(type spelling, name)]
        self.methods = []


def scan_class(name, toks):
    """toks: tokens of a class body -> ClassInfo (tparams are filled by the caller)"""
    ci = ClassInfo(name)
    i = 0
    n = len(toks)
    while i < n:
        k, v, _ = toks[i]
        if k == 'id' and v in ('public', 'private', 'protected') and i + 1 < n and toks[i + 1][1] == ':':
            i += 2
            continue
        start = i
        j = i
        body_rng = None
        seen_paren = False
        while j < n:
            kk, vv, _ = toks[j]
            if kk == 'op' and vv == '(':
                j = match_tok(toks, j, '(', ')') + 1
                seen_paren = True
                continue
            if kk == 'op' and vv == '[':
                j = match_tok(toks, j, '[', ']') + 1
                continue
            if kk == 'op' and vv == '<' and j > start and toks[j - 1][1] == 'template':
                j = match_angle(toks, j) + 1
                continue
            if kk == 'op' and vv == '{':
                e = match_tok(toks, j, '{', '}')
                prev = toks[j - 1] if j > start else ('', '', 0)
                is_init = (prev[0] == 'id' and prev[1] not in ('noexcept', 'const', 'override', 'final')) \
                    or (prev[0] == 'op' and prev[1] in ('=', '>'))
                if is_init:
                    j = e + 1
                    continue
                body_rng = (j + 1, e)
                j = e + 1
                break
            if kk == 'op' and vv == ';':
                j += 1
                break
            j += 1
        decl = toks[start:j]
        i = j
        if not decl:
            continue
        if body_rng is None:
            first = decl[0][1]
            if first == 'using' or (first == 'template' and any(t[1] == 'using' for t in decl)):
                a = alias_of(decl)
                if a:
                    ci.aliases[a[0]] = (a[1], a[2])
                continue
            if seen_paren and any(t[1] == 'default' for t in decl):
                continue                       # `X() = default;`
            m = member_of(decl)
            if m:
                ci.members.append(m)
            continue
        hdr = toks[start:body_rng[0] - 1]
        meth = parse_header(hdr, name)
        if meth is None:
            continue
        meth.body = toks[body_rng[0]:body_rng[1]]
        meth.text = join_toks(toks[start:body_rng[1] + 1])
        ci.methods.append(meth)
    return ci


def alias_of(decl):
    """`using X = T;` / `template<typename A> using X = T;` -> (name, [template params], spelling)"""
    ts = [t for t in decl if not (t[0] == 'op' and t[1] == ';')]
    tps = []
    i = 0
    if ts and ts[0][1] == 'template':
        e = match_angle(ts, 1)
        for part in split_top(ts[2:e]):
            ids = [t[1] for t in part if t[0] == 'id' and t[1] not in ('typename', 'class')]
            if ids:
                tps.append(ids[0])
        i = e + 1
    if i >= len(ts) or ts[i][1] != 'using':
        return None
    if i + 2 >= len(ts) or ts[i + 2][1] != '=':
        return None                          # using-declaration (`using base::operator();`)
    return ts[i + 1][1], tps, spell(ts[i + 3:])


def member_of(decl):
    """`Byte* ptr{};` -> (type spelling, name)"""
    ts = [t for t in decl if not (t[0] == 'op' and t[1] == ';')]
    if not ts or ts[0][1] in ('using', 'template', 'friend', 'static_assert', 'typedef'):
        return None
    if any(t[0] == 'op' and t[1] == '(' for t in ts):
        return None
    for idx, t in enumerate(ts):
        if t[0] == 'op' and t[1] in ('{', '='):
            ts = ts[:idx]
            break
    if len(ts) < 2 or ts[-1][0] != 'id':
        return None
    return spell(ts[:-1]), ts[-1][1]


def parse_params(toks):
    out = []
    for part in split_top(toks):
        ts = list(part)
        for idx, t in enumerate(ts):          # default argument
            if t[0] == 'op' and t[1] == '=':
                ts = ts[:idx]
                break
        ts = [t for t in ts if not (t[0] == 'id' and t[1] == 'const')]
        if not ts:
            continue
        name = None
        if len(ts) >= 2 and ts[-1][0] == 'id' and ts[-2][1] != '::':
            name = ts[-1][1]
            ts = ts[:-1]
        out.append((spell(ts), name))
    return out


def parse_header(hdr, clsname):
    """tokens of a function definition before its body -> Method (without body) or None"""
    m = Method()
    i = 0
    if hdr and hdr[0][1] == 'template':
        if len(hdr) < 2 or hdr[1][1] != '<':
            return None
        e = match_angle(hdr, 1)
        for part in split_top(hdr[2:e]):
            ids = [t[1] for t in part if t[0] == 'id']
            # `typename X`, `typename X = default`, `typename = default`
            if len(ids) >= 2 and ids[0] in ('typename', 'class') and part[1][0] == 'id':
                m.tparams.append(part[1][1])
        i = e + 1
    # locate the declarator: `operator <op> (` or `name (`
    j = i
    opname = None
    while j < len(hdr):
        k, v, _ = hdr[j]
        if k == 'id' and v == 'operator':
            # operator name: `()` `[]` or one operator token
            if j + 2 < len(hdr) and hdr[j + 1][1] == '(' and hdr[j + 2][1] == ')':
                opname, j = '()', j + 3
            elif j + 2 < len(hdr) and hdr[j + 1][1] == '[' and hdr[j + 2][1] == ']':
                opname, j = '[]', j + 3
            else:
                opname, j = hdr[j + 1][1], j + 2
            break
        if k == 'op' and v == '<':
            j = match_angle(hdr, j) + 1
            continue
        if k == 'op' and v == '(':
            break
        j += 1
    if j >= len(hdr) or hdr[j][1] != '(':
        return None
    close = match_tok(hdr, j, '(', ')')
    if opname is not None:
        pre = [t for t in hdr[i:j] if t[1] != 'operator'][:-(1 if opname not in ('()', '[]') else 2)]
        m.name = 'operator' + opname
        m.line = hdr[j][2]
    else:
        pre = hdr[i:j]
        if not pre or pre[-1][0] != 'id':
            return None
        m.name = pre[-1][1]
        m.line = pre[-1][2]
        pre = pre[:-1]
    m.is_friend = any(t[1] == 'friend' for t in pre)
    m.is_static = any(t[1] == 'static' for t in pre)
    m.ret = spell([t for t in pre if t[1] not in SPECIFIERS])
    m.params = parse_params(hdr[j + 1:close])
    m.is_ctor = opname is None and m.name == clsname and m.ret == ''
    rest = hdr[close + 1:]
    # constructor initialisers: `: a{x}, base<T>{y, z}`
    for idx, t in enumerate(rest):
        if t[0] == 'op' and t[1] == ':':
            for part in split_top(rest[idx + 1:]):
                b = None
                for q, tt in enumerate(part):
                    if tt[0] == 'op' and tt[1] in ('{', '('):
                        if tt[1] == '(' or not any(x[1] == '<' for x in part[:q]) or part[q - 1][1] == '>':
                            b = q
                            break
                if b is None:
                    raise ExtractError('%s: member initialiser not understood: %s' % (m.name, join_toks(part)))
                closer = '}' if part[b][1] == '{' else ')'
                e2 = match_tok(part, b, part[b][1], closer)
                m.inits.append((spell(part[:b]), split_top(part[b + 1:e2]), part[0][2]))
            break
        if t[0] == 'op' and t[1] == '=':
            m.defaulted = True
    return m


def method_key(m):
    """translation name of a member function (overloads are told apart by their parameter lists)"""
    if m.is_ctor:
        return 'ctor'
    if m.name == 'operator()':
        if m.params and m.params[0][0].endswith('_tag'):
            return m.params[0][0][:-len('_tag')]
        return 'call'
    if m.name.startswith('operator'):
        base = OPERATOR_NAMES.get(m.name[len('operator'):])
        if base is None:
            return None
        if base in ('inc', 'dec') and m.params:
            return 'post_' + base            # `operator++(int)`
        if base == 'minus' and m.params and not m.is_friend:
            return 'minus'
        return base
    return m.name


# ------------------------------------------------------------------ statement / expression parser

BIN = {
    '||': 1, '&&': 2, '|': 3, '^': 4, '&': 5, '==': 6, '!=': 6,
    '<': 7, '<=': 7, '>': 7, '>=': 7, '<<': 8, '>>': 8, '+': 9, '-': 9, '*': 10, '/': 10, '%': 10,
}
ASSIGN_OPS = {'=', '+=', '-=', '*=', '/=', '%=', '&=', '|=', '^=', '<<=', '>>='}


class Parser:
    """tokens -> AST (tuples).
    Expressions:
      ('num', n, suffix) ('str', s) ('bool', b) ('nullptr',) ('this',)
      ('name', 'a::b', targs|None)            targs: list of type spellings
      ('call', fn, [args]) ('member', obj, name, arrow, targs|None) ('index', obj, i)
      ('un', op, e) ('post', op, e) ('bin', op, l, r) ('assign', op, l, r) ('cond', c, a, b)
      ('cast', type, e) ('voidcast', e) ('brace', type|None, [args])
    Statements:
      ('assert', e) ('sizecheck', [e, e, e, e]) ('decl', type, name, init-expr) ('expr', e)
      ('if', c, [then], [else]|None) ('return', e|None) ('block', [stmts])
      ('rangefor', name, range-expr, [body])"""

    def __init__(self, toks):
        self.t = toks
        self.i = 0

    def peek(self, k=0):
        return self.t[self.i + k] if self.i + k < len(self.t) else ('eof', '', 0)

    def next(self):
        tok = self.peek()
        self.i += 1
        return tok

    def at(self, val, k=0):
        p = self.peek(k)
        return p[1] == val and p[0] in ('op', 'id')

    def expect(self, val):
        tok = self.next()
        if tok[1] != val or tok[0] not in ('op', 'id'):
            raise ExtractError('expected %r, got %r near: %s' % (
                val, tok[1], ' '.join(x[1] for x in self.t[max(0, self.i - 8):self.i + 4])))

    def qualified(self):
        parts = []
        if self.at('::'):
            self.next()
        while True:
            k, v, _ = self.peek()
            if k != 'id':
                raise ExtractError('identifier expected, got %r' % v)
            self.next()
            parts.append(v)
            if self.at('::') and self.peek(1)[0] == 'id':
                self.next()
                continue
            return '::'.join(parts)

    def looks_like_targs(self):
        if not self.at('<'):
            return False
        depth = 0
        j = self.i
        while j < len(self.t):
            k, v, _ = self.t[j]
            if k == 'op' and v == '<':
                depth += 1
            elif k == 'op' and v == '>':
                depth -= 1
                if depth == 0:
                    nxt = self.t[j + 1] if j + 1 < len(self.t) else ('eof', '', 0)
                    return nxt[1] in ('(', '{') and nxt[0] == 'op'
            elif k == 'id' or (k == 'op' and v in (',', '::', '*', '&')) or k == 'num':
                pass
            else:
                return False
            j += 1
        return False

    def targs(self):
        self.expect('<')
        out, cur, depth = [], [], 1
        while True:
            tok = self.next()
            k, v = tok[0], tok[1]
            if k == 'eof':
                raise ExtractError('unterminated template argument list')
            if k == 'op' and v == '<':
                depth += 1
            elif k == 'op' and v == '>':
                depth -= 1
                if depth == 0:
                    break
            if k == 'op' and v == ',' and depth == 1:
                out.append(spell(cur))
                cur = []
            else:
                cur.append(tok)
        if cur:
            out.append(spell(cur))
        return out

    # ---- statements
    def statements(self, until=None):
        out = []
        while self.peek()[0] != 'eof' and not (until and self.at(until)):
            s = self.statement()
            if s is not None:
                out.append(s)
        return out

    def block_or_stmt(self):
        if self.at('{'):
            self.next()
            b = self.statements('}')
            self.expect('}')
            return b
        s = self.statement()
        return [s] if s is not None else []

    def statement(self):
        k, v, _ = self.peek()
        if k == 'op' and v == ';':
            self.next()
            return None
        if k == 'op' and v == '{':
            self.next()
            b = self.statements('}')
            self.expect('}')
            return ('block', b)
        if k == 'id' and v == 'SBEPP_ASSERT':
            self.next()
            self.expect('(')
            e = self.expr()
            self.expect(')')
            self.expect(';')
            return ('assert', e)
        if k == 'id' and v == 'SBEPP_SIZE_CHECK':
            self.next()
            self.expect('(')
            args = self.args(')')
            self.expect(';')
            if len(args) != 4:
                raise ExtractError('SBEPP_SIZE_CHECK with %d arguments' % len(args))
            return ('sizecheck', args)
        if k == 'id' and v == 'return':
            self.next()
            if self.at(';'):
                self.next()
                return ('return', None)
            if self.at('{'):
                self.next()
                e = ('brace', None, self.args('}'))
            else:
                e = self.expr()
            self.expect(';')
            return ('return', e)
        if k == 'id' and v == 'if':
            self.next()
            self.expect('(')
            c = self.expr()
            self.expect(')')
            th = self.block_or_stmt()
            el = None
            if self.at('else'):
                self.next()
                el = self.block_or_stmt()
            return ('if', c, th, el)
        if k == 'id' and v == 'for':
            return self.for_stmt()
        if k == 'id' and v in ('while', 'do', 'switch', 'goto', 'try', 'throw'):
            raise ExtractError('`%s` statements are not translated' % v)
        if k == 'id' and v in ('using', 'typedef', 'static_assert'):
            raise ExtractError('`%s` inside a function body is not translated' % v)
        d = self.try_decl()
        if d is not None:
            return d
        e = self.expr()
        self.expect(';')
        return ('expr', e)

    def for_stmt(self):
        """`for([const] auto[&] x : range) body` only"""
        self.expect('for')
        self.expect('(')
        save = self.i
        while self.at('const'):
            self.next()
        if self.at('auto'):
            self.next()
            while self.at('&') or self.at('&&') or self.at('const'):
                self.next()
            k, v, _ = self.peek()
            if k == 'id' and self.at(':', 1):
                self.next()
                self.next()
                rng = self.expr()
                self.expect(')')
                body = self.block_or_stmt()
                return ('rangefor', v, rng, body)
        self.i = save
        raise ExtractError('only range-based `for(auto x : range)` loops are translated')

    def try_decl(self):
        """[const] (auto | Type) name (= e | {args} | (args)) ;"""
        save = self.i
        while self.at('const') or self.at('constexpr'):
            self.next()
        if self.peek()[0] != 'id':
            self.i = save
            return None
        try:
            ty = self.qualified()
            if self.at('<') and not self.looks_like_targs():
                # a template-id type such as `cursor_range_t<Byte2> r = ...`
                j = match_angle(self.t, self.i)
                ty += spell(self.t[self.i:j + 1])
                self.i = j + 1
            while self.at('*') or self.at('&') or self.at('const'):
                tok = self.next()[1]
                if tok != 'const':
                    ty += tok
        except ExtractError:
            self.i = save
            return None
        k, v, _ = self.peek()
        nxt = self.peek(1)
        if k != 'id' or not (nxt[0] == 'op' and nxt[1] in ('=', '{', '(', ';')):
            self.i = save
            return None
        name = self.next()[1]
        tyn = spell([('id', ty, 0)]) if '::' not in ty else re.sub(r'^(?:(?:sbepp|detail)::)+', '', ty)
        if self.at('='):
            self.next()
            init = self.expr()
        elif self.at('{'):
            self.next()
            init = ('brace', tyn, self.args('}'))
        elif self.at('('):
            self.next()
            init = ('brace', tyn, self.args(')'))
        else:
            raise ExtractError('declaration of %s without initialiser' % name)
        self.expect(';')
        return ('decl', tyn, name, init)

    def args(self, close):
        out = []
        if self.at(close):
            self.next()
            return out
        while True:
            if self.at('{'):
                self.next()
                out.append(('brace', None, self.args('}')))
            else:
                out.append(self.expr())
            if self.at(','):
                self.next()
                continue
            self.expect(close)
            return out

    # ---- expressions
    def expr(self):
        lhs = self.ternary()
        k, v, _ = self.peek()
        if k == 'op' and v in ASSIGN_OPS:
            self.next()
            rhs = self.expr()
            return ('assign', v, lhs, rhs)
        return lhs

    def ternary(self):
        c = self.binary(1)
        if self.at('?'):
            self.next()
            a = self.expr()
            self.expect(':')
            b = self.expr()
            return ('cond', c, a, b)
        return c

    def binary(self, minp):
        lhs = self.unary()
        while True:
            k, v, _ = self.peek()
            if k != 'op' or v not in BIN or BIN[v] < minp:
                return lhs
            self.next()
            rhs = self.binary(BIN[v] + 1)
            lhs = ('bin', v, lhs, rhs)

    def unary(self):
        k, v, _ = self.peek()
        if k == 'op' and v in ('!', '~', '-', '+', '*', '&', '++', '--'):
            self.next()
            return ('un', v, self.unary())
        if k == 'op' and v == '(' and self.at('void', 1) and self.at(')', 2):
            self.next()
            self.next()
            self.next()
            return ('voidcast', self.unary())
        return self.postfix(self.primary())

    def primary(self):
        k, v, _ = self.next()
        if k == 'num':
            n, suf = int_value(v)
            return ('num', n, suf)
        if k == 'str':
            return ('str', v)
        if k == 'op' and v == '(':
            e = self.expr()
            self.expect(')')
            return e
        if k == 'op' and v == '::':
            self.i -= 1
        elif k != 'id':
            raise ExtractError('unexpected token %r near: %s' % (
                v, ' '.join(x[1] for x in self.t[max(0, self.i - 8):self.i + 4])))
        if v in ('true', 'false'):
            return ('bool', v == 'true')
        if v == 'nullptr':
            return ('nullptr',)
        if v == 'this':
            return ('this',)
        if v == 'operator':
            # explicit operator call on *this: `operator*()`, `operator++()`, `operator()(tag{})`
            if self.at('(') and self.at(')', 1):
                self.next()
                self.next()
                return ('name', 'operator()', None)
            if self.at('[') and self.at(']', 1):
                self.next()
                self.next()
                return ('name', 'operator[]', None)
            op = self.next()[1]
            return ('name', 'operator' + op, None)
        if v in ('static_cast', 'reinterpret_cast', 'const_cast'):
            ta = self.targs()
            self.expect('(')
            e = self.expr()
            self.expect(')')
            return ('cast', ta[0] if ta else '?', e)
        if k == 'id':
            self.i -= 1
        name = self.qualified()
        ta = None
        if self.looks_like_targs():
            ta = self.targs()
        if self.at('{'):
            self.next()
            nm = re.sub(r'^(?:(?:sbepp|detail)::)+', '', name)
            if ta is not None:
                nm += '<' + ','.join(ta) + '>'
            return ('brace', nm, self.args('}'))
        return ('name', name, ta)

    def postfix(self, e):
        while True:
            if self.at('('):
                self.next()
                e = ('call', e, self.args(')'))
            elif self.at('['):
                self.next()
                i = self.expr()
                self.expect(']')
                e = ('index', e, i)
            elif self.at('.') or self.at('->'):
                arrow = self.next()[1] == '->'
                if self.at('template'):
                    self.next()
                k, v, _ = self.next()
                if k != 'id':
                    raise ExtractError('member name expected after . / ->')
                ta = self.targs() if self.looks_like_targs() else None
                e = ('member', e, v, arrow, ta)
            elif self.at('++') or self.at('--'):
                e = ('post', self.next()[1], e)
            else:
                return e


def strip_ns(name):
    name = name.lstrip(':')
    while True:
        for p in ('sbepp::', 'detail::'):
            if name.startswith(p):
                name = name[len(p):]
                break
        else:
            return name


# ------------------------------------------------------------------ C++ types of the classes

PTR = ('ptr',)
DIM = ('dim',)
ENTRY = ('entry',)
BYTE = ('byte',)
CURSOR = ('cursor',)
CURSORPTR = ('cursorptr',)
VOID = ('void',)
VISITOR = ('visitor',)


def INT(t):
    return ('int', t)


HEADER_FIELDS = {'numInGroup': 'NT', 'blockLength': 'BT'}
BUILTIN_TYPES = {'std::size_t': INT('size_t'), 'size_t': INT('size_t'), 'bool': INT('bool'), 'void': VOID,
                 'std::ptrdiff_t': INT('ptrdiff'), 'ptrdiff_t': INT('ptrdiff'), 'int': INT('int'),
                 'std::uint64_t': INT('size_t'), 'auto': ('auto',)}
TEMPLATE_KINDS = {'random_access_iterator': 'ra', 'forward_iterator': 'fwd'}


def split_targs(s):
    out, cur, depth = [], [], 0
    for ch in s:
        if ch in '<(':
            depth += 1
        elif ch in '>)':
            depth -= 1
        if ch == ',' and depth == 0:
            out.append(''.join(cur))
            cur = []
        else:
            cur.append(ch)
    if cur:
        out.append(''.join(cur))
    return out


def freeze(b):
    return tuple(sorted(b.items()))


class Types:
    def __init__(self, classes):
        self.classes = classes          # name -> ClassInfo

    def resolve(self, sp, cls, binding, depth=0):
        """type spelling (as produced by `spell`) in the scope of class `cls` whose template parameters are
        bound by `binding` -> type tuple"""
        if depth > 12:
            raise ExtractError('type alias chain too deep at %s' % sp)
        sp = sp.rstrip('&')
        if sp.endswith('*'):
            base = self.resolve(sp[:-1], cls, binding, depth + 1)
            if base == BYTE:
                return PTR
            if base == CURSOR:
                return CURSORPTR
            return ('unknown', sp)
        if sp in binding:
            return binding[sp]
        if sp in BUILTIN_TYPES:
            return BUILTIN_TYPES[sp]
        if sp.endswith('_tag'):
            return ('tag', sp)
        m = re.fullmatch(r'std::decay<decltype\(std::declval<(.+?)>\(\)\.(\w+)\(\)(\.value\(\))?\)>::type', sp)
        if m:
            if self.resolve(m.group(1), cls, binding, depth + 1) != DIM or m.group(2) not in HEADER_FIELDS:
                return ('unknown', sp)
            t = HEADER_FIELDS[m.group(2)]
            return INT(t) if m.group(3) else ('wrap', t)
        m = re.fullmatch(r'std::make_signed<(.+)>::type', sp)
        if m:
            inner = self.resolve(m.group(1), cls, binding, depth + 1)
            if inner == INT('NT'):
                return INT('DT')
            return ('unknown', sp)
        m = re.fullmatch(r'(.+)::value_type', sp)
        if m:
            inner = self.resolve(m.group(1), cls, binding, depth + 1)
            if inner[0] == 'wrap':
                return INT(inner[1])
            return ('unknown', sp)
        m = re.fullmatch(r'(.+)::iterator', sp)
        if m:
            inner = self.resolve(m.group(1), cls, binding, depth + 1)
            if inner[0] == 'crange' and 'cursor_range' in self.classes:
                cr = self.classes['cursor_range']
                if 'iterator' in cr.aliases:
                    return self.resolve(cr.aliases['iterator'][1], cr, dict(inner[1]), depth + 1)
            return ('unknown', sp)
        m = re.fullmatch(r'(\w+)<(.*)>', sp)
        if m:
            name, args = m.group(1), split_targs(m.group(2))
            if name in cls.aliases and cls.aliases[name][0]:
                tps, body = cls.aliases[name]
                b = dict(binding)
                for tp, a in zip(tps, args):
                    b[tp] = self.resolve(a, cls, binding, depth + 1)
                return self.resolve(body, cls, b, depth + 1)
            if name == 'cursor':
                return CURSOR
            if name == 'byte_range':
                return ('byterange',)
            if name in self.classes:
                target = self.classes[name]
                if len(args) != len(target.tparams):
                    raise ExtractError('%s<...> with %d arguments, the template has %d parameters' % (
                        name, len(args), len(target.tparams)))
                b = {tp: self.resolve(a, cls, binding, depth + 1) for tp, a in zip(target.tparams, args)}
                if name in TEMPLATE_KINDS:
                    return ('iter', TEMPLATE_KINDS[name], freeze(b))
                if name == 'input_iterator':
                    return ('citer', freeze(b))
                if name == 'cursor_range':
                    return ('crange', freeze(b))
                if name == 'entry_base':
                    return ENTRY
            return ('unknown', sp)
        if sp in cls.aliases and not cls.aliases[sp][0]:
            return self.resolve(cls.aliases[sp][1], cls, binding, depth + 1)
        return ('unknown', sp)


CTY = {'size_t': '.u64', 'NT': 'NT', 'BT': 'BT', 'DT': '(diffTy NT)', 'int': '.i32', 'bool': '.bool', 'ptrdiff': '.i64',
       'uint': '.u32', 'long': '.i64', 'ulong': '.u64'}


def cty(t):
    if t == PTR:
        return '.ptr'
    if t[0] in ('int', 'wrap') and t[1] in CTY:
        return CTY[t[1]]
    raise ExtractError('no C++ integer type for %r' % (t,))


LEAN_RESERVED = {'end', 'from', 'at', 'do', 'then', 'fun', 'let', 'match', 'with', 'in', 'if', 'else', 'return', 'mut',
                 'for', 'open', 'def', 'theorem', 'have', 'show', 'by', 'where', 'namespace', 'section', 'import',
                 'instance', 'structure', 'class', 'inductive', 'variable', 'universe', 'example', 'macro', 'syntax',
                 'local', 'private', 'protected', 'partial', 'unsafe', 'deriving', 'extends', 'using', 'calc', 'nomatch',
                 'Type', 'Prop', 'Sort', 'some', 'none', 'true', 'false', 'pure', 'bind', 'this', 'fuel', 'esize',
                 'NT', 'BT', 'chk', 'g', 'lay', 'buf', 'hoff', 'it', 'env', 'bo', 'endp', 'dim', 'gaddr', 'w', 'c',
                 'emptyCtor', 'mbuf'}


def lean_ident(name, used=()):
    n = name
    while n in LEAN_RESERVED or n in used:
        n += '_'
    return n


BINOPS = {'+': '.add', '-': '.sub', '*': '.mul', '/': '.div', '%': '.mod', '<<': '.shl', '>>': '.shr',
          '<': '.lt', '<=': '.le', '>': '.gt', '>=': '.ge', '==': '.eq', '!=': '.ne',
          '&': '.band', '^': '.bxor', '|': '.bor', '&&': '.land', '||': '.lor'}
CMP_OPS = {'<', '<=', '>', '>=', '==', '!='}
UNOPS = {'!': '.lnot', '-': '.neg', '~': '.bnot', '+': '.plus'}
SUFFIX_TY = {'': 'int', 'u': 'uint', 'l': 'long', 'll': 'long', 'ul': 'ulong', 'lu': 'ulong', 'ull': 'ulong', 'llu': 'ulong'}


def lean_list(items):
    return '[' + ', '.join(items) + ']'


class V:
    """a translated expression.  kind 'cexpr': `term` is a `CExpr` over the ambient environment plus the extra
    variables `uses` (names, in order of first use); kind 'lean': `term` is a Lean term of the model type of `ty`."""

    def __init__(self, ty, kind, term, uses=(), lit=None, cval=None):
        self.ty = ty
        self.kind = kind
        self.term = term
        self.uses = tuple(uses)
        self.lit = lit          # integer literal value (for `⟨.i32, n⟩` arguments)
        self.cval = cval        # Lean term of type CVal holding the same value (parameters, results of calls)


def merge_uses(*vs):
    out = []
    for v in vs:
        for u in v.uses:
            if u not in out:
                out.append(u)
    return tuple(out)


class MethodOut:
    def __init__(self):
        self.ns = None
        self.name = None          # Lean name inside the namespace
        self.binders = ''         # Lean binder text
        self.ret = ''             # Lean result type
        self.lines = []
        self.pure = False         # the definition is a plain term, not an `Outcome` / `Out` action
        self.repr = None          # how a caller sees the result: 'unit' 'nat' 'cval' 'bool' 'iter' 'entry' 'buf' ...
        self.cret = None          # C++ return type
        self.needs = set()
        self.cparams = []         # [(lean name, C++ type)] of the C++ parameters
        self.line = 0
        self.text = ''
        self.cls = None
        self.key = None


# ------------------------------------------------------------------ model I (Rt/Iter.lean)

NS_I = {'flat_group_base': 'Flat', 'nested_group_base': 'Nested', 'forward_iterator': 'Fwd',
        'random_access_iterator': 'Ra'}
KEYS_I = {
    'flat_group_base': ['get_header', 'size_bytes', 'sbe_size', 'size', 'resize', 'empty', 'begin', 'end', 'subscript',
                        'front', 'back', 'clear'],
    'nested_group_base': ['get_header', 'sbe_size', 'size', 'resize', 'empty', 'begin', 'end', 'front', 'clear',
                          'size_bytes'],
    'forward_iterator': ['ctor', 'deref', 'inc', 'eq', 'ne'],
    'random_access_iterator': ['ctor', 'deref'],
}
# members of the iterator classes as the DSL (`RaP`, `FwP`) declares them: (C++ name, C++ type, model field, projection)
ITER_MEMBERS = {
    'ra': [('ptr', PTR, 'ptr', 'toInt'), ('block_length', INT('BT'), 'bl', 'bits'), ('index', INT('NT'), 'index', 'bits'),
           ('end', PTR, 'end_', 'toInt')],
    'fwd': [('ptr', PTR, 'ptr', 'toInt'), ('index', INT('NT'), 'index', 'bits'), ('block_length', INT('BT'), 'bl', 'bits'),
            ('end', PTR, 'end_', 'toInt')],
}
ITER_LEAN = {'ra': 'Iter', 'fwd': 'FwdIter'}
ITER_CLASS = {'ra': 'random_access_iterator', 'fwd': 'forward_iterator'}


def lean_name(key):
    return {'end': 'end_'}.get(key, key)


class Body:
    """shared statement-emission machinery of the renderers"""

    def __init__(self):
        self.lines = []
        self.ind = 1
        self.tmp = 0
        self.used = set()

    def emit(self, s, ind=None):
        self.lines.append('  ' * (self.ind if ind is None else ind) + s)

    def fresh(self, hint=None):
        if hint:
            n = lean_ident(hint, self.used)
        else:
            n = 't%d' % self.tmp
            self.tmp += 1
            while n in self.used:
                n = 't%d' % self.tmp
                self.tmp += 1
        self.used.add(n)
        return n


class ModelI:
    def __init__(self, types, variants, report):
        self.types = types
        self.variants = variants        # 'chk' / 'unc' -> {class name -> ClassInfo}
        self.classes = variants['chk']
        self.report = report
        self.done = {}
        self.order = []
        self.active = []
        self.group_binding = {}
        self.iter_binding = {}
        for cname in ('flat_group_base', 'nested_group_base'):
            if cname in self.classes:
                ci = self.classes[cname]
                if len(ci.tparams) != 3:
                    raise ExtractError('%s: expected 3 template parameters (Byte, Entry, Dimension)' % cname)
                self.group_binding[cname] = {ci.tparams[0]: BYTE, ci.tparams[1]: ENTRY, ci.tparams[2]: DIM}

    # ---- lookup
    def find(self, cname, key, variant='chk', nparams=None):
        ci = self.variants[variant].get(cname)
        if ci is None:
            raise ExtractError('class %s not available' % cname)
        ms = [m for m in ci.methods if method_key(m) == key and not m.defaulted]
        if key == 'ctor':
            ms = [m for m in ms if m.params]
        if not ms:
            raise ExtractError('%s::%s not found' % (cname, key))
        if len(ms) > 1:
            raise ExtractError('%s::%s is overloaded (%d definitions)' % (cname, key, len(ms)))
        return ms[0]

    def iter_kind_of(self, cname):
        """kind of `iterator` of a group class + the binding of the iterator class's template parameters"""
        ci = self.classes[cname]
        t = self.types.resolve('iterator', ci, self.group_binding[cname])
        if t[0] != 'iter':
            raise ExtractError('%s::iterator is not one of the iterator templates' % cname)
        return t[1], dict(t[2])

    def binding_for(self, cname):
        if cname in self.group_binding:
            return self.group_binding[cname]
        if cname in self.iter_binding:
            return self.iter_binding[cname]
        for gname in ('flat_group_base', 'nested_group_base'):
            if gname in self.classes:
                kind, b = self.iter_kind_of(gname)
                if ITER_CLASS[kind] == cname:
                    self.iter_binding[cname] = b
                    return b
        raise ExtractError('no group class instantiates %s' % cname)

    def translate(self, cname, key):
        k = (cname, key)
        if k in self.done:
            r = self.done[k]
            if isinstance(r, ExtractError):
                raise ExtractError('%s::%s was not translated (%s)' % (cname, key, r))
            return r
        if k in self.active:
            raise ExtractError('recursive call chain through %s::%s' % k)
        self.active.append(k)
        try:
            r = self.translate_now(cname, key)
            self.done[k] = r
            self.order.append(k)
            return r
        except ERRS as ex:
            err = ex if isinstance(ex, ExtractError) else ExtractError('%s: %s' % (type(ex).__name__, ex))
            self.done[k] = err
            self.order.append(k)
            raise err
        finally:
            self.active.pop()

    def translate_now(self, cname, key):
        outs = []
        for variant in ('chk', 'unc'):
            meth = self.find(cname, key, 'chk' if key == 'ctor' else variant)
            if cname in self.group_binding:
                tr = GroupI(self, cname, meth)
            elif key == 'ctor':
                tr = IterCtorI(self, cname, meth)
            elif key in ('eq', 'ne', 'lt', 'le', 'gt', 'ge'):
                tr = IterCmpI(self, cname, meth)
            else:
                tr = IterMethI(self, cname, meth)
            outs.append(tr.run())
        a, b = outs
        if a.lines != b.lines or a.binders != b.binders or a.ret != b.ret:
            if a.binders != b.binders or a.ret != b.ret or a.pure != b.pure:
                raise ExtractError('%s::%s: the checked and the unchecked variant have different signatures' % (cname, key))
            merged = ['  if chk then%s' % ('' if a.pure else ' do')]
            merged += ['  ' + l for l in a.lines]
            merged += ['  else%s' % ('' if a.pure else ' do')]
            merged += ['  ' + l for l in b.lines]
            a.lines = merged
            a.needs |= b.needs
        a.cls, a.key = cname, key
        return a


class ExprI:
    """expression translation shared by the model-I renderers (`self.env`, `self.vars`, `self.body` are set by
    the subclasses)"""

    def lit(self, e):
        n, suf = e[1], e[2]
        t = SUFFIX_TY.get(suf)
        if t is None:
            raise ExtractError('integer literal suffix %r' % suf)
        return V(INT(t), 'cexpr', '(.lit %s %d)' % (CTY[t], n), lit=(n if t == 'int' else None))

    def to_cexpr(self, v):
        if v.kind == 'cexpr':
            return v
        if v.ty == INT('bool') and v.kind == 'lean':
            name = self.body.fresh()
            self.body.emit('let %s : Nat := if %s then 1 else 0' % (name, v.term))
            self.vars[name] = ('.bool', name)
            return V(INT('bool'), 'cexpr', '(.var "%s")' % name, uses=(name,))
        raise ExtractError('a %s value is used inside an integer / pointer expression' % (v.ty[0],))

    def binop(self, op, a, b):
        if a.kind == 'lean' and a.ty[0] == 'iter':
            return self.iter_binop(op, a, b)
        a, b = self.to_cexpr(a), self.to_cexpr(b)
        if op not in BINOPS:
            raise ExtractError('operator %s' % op)
        if op in CMP_OPS or op in ('&&', '||'):
            ty = INT('bool')
        elif a.ty == PTR and b.ty == PTR and op == '-':
            ty = INT('ptrdiff')
        elif a.ty == PTR or b.ty == PTR:
            ty = PTR
        else:
            ty = INT('?')
        return V(ty, 'cexpr', '(.bin %s %s %s)' % (BINOPS[op], a.term, b.term), uses=merge_uses(a, b))

    def unop(self, op, a):
        a = self.to_cexpr(a)
        if op not in UNOPS:
            raise ExtractError('unary operator %s' % op)
        ty = INT('bool') if op == '!' else (a.ty if op == '+' and a.ty == PTR else INT('?'))
        return V(ty, 'cexpr', '(.un %s %s)' % (UNOPS[op], a.term), uses=a.uses)

    def cast(self, tyname, a):
        t = self.resolve(tyname)
        if t[0] != 'int' and t != PTR:
            raise ExtractError('cast to %s' % tyname)
        a = self.to_cexpr(a)
        return V(t, 'cexpr', '(.cast %s %s)' % (cty(t), a.term), uses=a.uses)

    def xpxv(self, uses):
        xp = lean_list('("%s", %s)' % (u, self.vars[u][0]) for u in uses)
        xv = lean_list(self.vars[u][1] for u in uses)
        return xp, xv

    def convert_to(self, v, t):
        """`v` converted to the declared type `t` (no cast when the static type is exactly `t`)"""
        v = self.to_cexpr(v)
        if v.ty == t or (v.ty[0] == 'wrap' and t[0] in ('wrap', 'int') and v.ty[1] == t[1]):
            return v
        return V(t, 'cexpr', '(.cast %s %s)' % (cty(t), v.term), uses=v.uses)


def is_this_deref(e):
    return e[0] == 'un' and e[1] == '*' and e[2] == ('this',)


def paren(t):
    return t if re.fullmatch(r'[\w.]+|\(.*\)|⟨.*⟩', t) and t.count('(') == t.count(')') else '(%s)' % t


class GroupI(ExprI):
    """a member function of flat_group_base / nested_group_base in model I"""

    def __init__(self, model, cname, meth):
        self.model = model
        self.cname = cname
        self.m = meth
        self.ns = NS_I[cname]
        self.ci = model.classes[cname]
        self.binding = dict(model.group_binding[cname])
        for tp in meth.tparams:
            self.binding.setdefault(tp, ('tparam', tp))
        self.kind, self.ibinding = model.iter_kind_of(cname)
        self.body = Body()
        self.env = {}
        self.vars = {}
        self.needs = set()
        self.assert_idx = 0
        self.writes = 0
        self.returned = False
        self.cparams = []
        self.cret = None

    def resolve(self, sp):
        return self.model.types.resolve(sp, self.ci, self.binding)

    def has_method(self, key):
        return any(method_key(m) == key for m in self.ci.methods)

    # ---- calls
    def callargs(self, callee):
        s = 'NT BT chk'
        if 'write' in callee.needs:
            s += ' lay'
        s += ' g'
        if 'write' in callee.needs:
            s += ' buf hoff'
        if 'esize' in callee.needs:
            s += ' esize'
        if 'fuel' in callee.needs:
            s += ' fuel'
        return s

    def as_cval(self, v):
        if v.cval is not None:
            return v.cval
        if v.lit is not None:
            return '⟨.i32, %d⟩' % v.lit
        c = self.to_cexpr(v)
        name = self.body.fresh()
        xp, xv = self.xpxv(c.uses)
        self.body.emit('let %s ← value NT BT g %s %s %s' % (name, xp, xv, c.term))
        return name

    def bind_result(self, callee_repr, cret, callstr, pure, hint):
        name = self.body.fresh(hint)
        self.body.emit('let %s %s %s' % (name, ':=' if pure else '←', callstr))
        self.last_hoist = (name, callstr, len(self.body.lines) - 1, pure)
        if callee_repr == 'unit':
            return V(DIM, 'lean', name)
        if callee_repr == 'nat':
            self.vars[name] = ('.u64', name)
            return V(INT('size_t'), 'cexpr', '(.var "%s")' % name, uses=(name,))
        if callee_repr == 'cval':
            self.vars[name] = (cty(cret), name + '.bits')
            return V(cret, 'cexpr', '(.var "%s")' % name, uses=(name,), cval=name)
        if callee_repr == 'bool':
            return V(INT('bool'), 'lean', name)
        if callee_repr == 'iter':
            return V(cret, 'lean', name)
        if callee_repr == 'entry':
            return V(ENTRY, 'lean', name)
        if callee_repr == 'buf':
            return V(('buf',), 'lean', name)
        if callee_repr == 'void':
            return V(VOID, 'lean', name)
        raise ExtractError('result representation %s' % callee_repr)

    def call_method(self, key, args, hint=None):
        if not self.has_method(key):
            raise ExtractError('%s has no member function %s' % (self.cname, key))
        callee = self.model.translate(self.cname, key)
        self.needs |= callee.needs & {'write', 'esize', 'fuel'}
        if len(args) != len(callee.cparams):
            raise ExtractError('%s called with %d arguments, takes %d' % (key, len(args), len(callee.cparams)))
        argv = [self.as_cval(self.ex(a)) for a in args]
        callstr = '%s %s%s' % (callee.name, self.callargs(callee), ''.join(' ' + a for a in argv))
        if 'write' in callee.needs:
            if self.writes:
                callstr = '(match mbuf with | some buf => %s | none => pure none)' % callstr
            self.writes += 1
            return self.bind_result('buf', callee.cret, callstr, False, 'mbuf' if self.writes > 1 else hint)
        return self.bind_result(callee.repr, callee.cret, callstr, callee.pure, hint)

    def size_bytes_of(self, v):
        if v.ty == DIM:
            return V(INT('size_t'), 'cexpr', '(.var "hdr")')
        if v.ty == ENTRY:
            self.needs.add('esize')
            name = self.body.fresh()
            self.body.emit('let %s := esize %s' % (name, paren(v.term)))
            self.vars[name] = ('.u64', name)
            return V(INT('size_t'), 'cexpr', '(.var "%s")' % name, uses=(name,))
        raise ExtractError('sbepp::size_bytes of a %s value' % (v.ty[0],))

    def construct_iter(self, kind, args, hint=None):
        icls = ITER_CLASS[kind]
        callee = self.model.translate(icls, 'ctor')
        if len(args) != len(callee.cparams):
            raise ExtractError('%s{...} with %d arguments, the constructor takes %d' % (icls, len(args), len(callee.cparams)))
        vs = [self.to_cexpr(self.ex(a)) for a in args]
        xp, xv = self.xpxv(merge_uses(*vs))
        callstr = '%s.ctor NT BT chk g %s %s %s' % (NS_I[icls], xp, xv, ' '.join(v.term for v in vs))
        return self.bind_result('iter', ('iter', kind), callstr, False, hint)

    def iter_unop(self, op, a):
        kind = a.ty[1]
        icls = ITER_CLASS[kind]
        if op == '*':
            d = self.model.translate(icls, 'deref')
            if not d.pure:
                return self.bind_result('entry', ENTRY, '%s.deref chk %s' % (NS_I[icls], a.term), False, None)
            return V(ENTRY, 'lean', '%s.deref chk %s' % (NS_I[icls], a.term))
        if kind == 'ra' and op == '--':
            return self.bind_result('iter', a.ty, 'Rt.dec NT BT %s' % a.term, False, None)
        if kind == 'ra' and op == '++':
            return self.bind_result('iter', a.ty, 'Rt.inc NT BT chk %s' % a.term, False, None)
        if kind == 'fwd' and op == '++':
            inc = self.model.translate(icls, 'inc')
            self.needs |= inc.needs & {'esize'}
            return self.bind_result('iter', a.ty, 'Fwd.inc NT BT chk%s %s' % (' esize' if 'esize' in inc.needs else '', a.term),
                                    False, None)
        raise ExtractError('operator %s on a %s iterator' % (op, ITER_CLASS[kind]))

    def iter_binop(self, op, a, b):
        if a.ty[1] != 'ra':
            raise ExtractError('operator %s on a forward iterator' % op)
        if b.kind == 'lean' and b.ty[0] == 'iter':
            if op == '-':
                name = self.body.fresh()
                self.body.emit('let %s ← Rt.diff NT %s %s' % (name, a.term, b.term))
                self.vars[name] = ('(diffTy NT)', name + '.bits')
                return V(INT('DT'), 'cexpr', '(.var "%s")' % name, uses=(name,), cval=name)
            names = {'<': 'lt', '<=': 'le', '>': 'gt', '>=': 'ge', '==': 'eq', '!=': 'ne'}
            if op in names:
                name = self.body.fresh()
                self.body.emit('let %s ← Rt.compare NT "%s" %s %s' % (name, names[op], a.term, b.term))
                return V(INT('bool'), 'lean', name)
            raise ExtractError('operator %s on two iterators' % op)
        n = self.as_cval(b)
        if op == '+':
            return self.bind_result('iter', a.ty, 'Rt.plus NT BT %s %s' % (a.term, n), False, None)
        if op == '-':
            return self.bind_result('iter', a.ty, 'Rt.minus NT BT %s %s' % (a.term, n), False, None)
        raise ExtractError('operator %s on an iterator and an integer' % op)

    # ---- expressions
    def ex(self, e, hint=None):
        k = e[0]
        if k == 'num':
            return self.lit(e)
        if k == 'bool':
            return V(INT('bool'), 'cexpr', '(.lit .bool %d)' % (1 if e[1] else 0))
        if k == 'nullptr':
            return V(PTR, 'cexpr', '(.lit .ptr 0)')
        if k == 'name':
            if e[2] is None and e[1] in self.env:
                return self.env[e[1]]
            raise ExtractError('unknown name %s' % e[1])
        if k == 'cast':
            return self.cast(e[1], self.ex(e[2]))
        if k == 'bin':
            a = self.ex(e[2])
            b = self.ex(e[3])
            if e[1] == '+' and b.kind == 'lean' and b.ty[0] == 'iter' and not (a.kind == 'lean' and a.ty[0] == 'iter'):
                a, b = b, a                 # `n + it` is `it + n`
            return self.binop(e[1], a, b)
        if k == 'un':
            if is_this_deref(e):
                return V(('thisobj',), 'lean', 'this')
            a = self.ex(e[2])
            if a.kind == 'lean' and a.ty[0] == 'iter':
                return self.iter_unop(e[1], a)
            if e[1] == '!' and a.kind == 'lean' and a.ty == INT('bool'):
                return V(INT('bool'), 'lean', '!%s' % paren(a.term))
            return self.unop(e[1], a)
        if k == 'cond':
            c, a, b = (self.to_cexpr(self.ex(x)) for x in e[1:4])
            return V(a.ty if a.ty == b.ty else INT('?'), 'cexpr', '(.cond %s %s %s)' % (c.term, a.term, b.term),
                     uses=merge_uses(c, a, b))
        if k == 'call':
            return self.call(e, hint)
        if k == 'brace':
            return self.brace(e, hint)
        if k == 'index':
            o = self.ex(e[1])
            if o.kind == 'lean' and o.ty[0] == 'iter' and o.ty[1] == 'ra':
                n = self.as_cval(self.ex(e[2]))
                return self.bind_result('entry', ENTRY, 'Rt.subscriptIt NT BT %s %s' % (o.term, n), False, hint)
            if o.ty == ('thisobj',):
                return self.call_method('subscript', [e[2]], hint)
            raise ExtractError('operator[] on a %s value' % (o.ty[0],))
        raise ExtractError('expression form %s is not translated' % k)

    def call(self, e, hint):
        fn, args = e[1], e[2]
        if is_this_deref(fn) or (fn[0] == 'name' and fn[1] == 'operator()') \
                or (fn[0] == 'member' and fn[1] == ('this',) and fn[2] == 'operator'):
            if not args or args[0][0] != 'brace' or not (args[0][1] or '').endswith('_tag') or args[0][2]:
                raise ExtractError('call of *this without a tag argument')
            tag = args[0][1]
            if tag == 'addressof_tag' and len(args) == 1:
                return V(PTR, 'cexpr', '(.var "addr")')
            if tag == 'end_ptr_tag' and len(args) == 1:
                return V(PTR, 'cexpr', '(.var "end")')
            return self.call_method(tag[:-len('_tag')], args[1:], hint)
        if fn[0] == 'name':
            n = strip_ns(fn[1])
            if n == 'size_bytes' and len(args) == 1:
                return self.size_bytes_of(self.ex(args[0]))
            if n == 'operator[]' and len(args) == 1:
                return self.call_method('subscript', args, hint)
            if fn[2] is None and n not in self.env and self.has_method(n):
                return self.call_method(n, args, hint)
            raise ExtractError('call of unknown function %s' % fn[1])
        if fn[0] == 'member':
            obj, name = fn[1], fn[2]
            if obj == ('this',):
                return self.call_method(name, args, hint)
            o = self.ex(obj)
            if o.ty == ('thisobj',):
                return self.call_method(name, args, hint)
            if o.ty == DIM:
                if name in HEADER_FIELDS:
                    t = HEADER_FIELDS[name]
                    if not args:
                        return V(('wrap', t), 'cexpr', '(.var "%s")' % {'NT': 'num', 'BT': 'bl'}[t])
                    if len(args) == 1:
                        return V(('setter', t), 'lean', None, cval=self.as_cval(self.ex(args[0])))
                raise ExtractError('header member %s with %d arguments' % (name, len(args)))
            if o.ty[0] == 'wrap' and name == 'value' and not args:
                return V(INT(o.ty[1]), 'cexpr', o.term, uses=o.uses, cval=o.cval)
            raise ExtractError('member call .%s on a %s value' % (name, o.ty[0]))
        raise ExtractError('call form is not translated')

    def brace(self, e, hint):
        if e[1] is None:
            raise ExtractError('untyped braced initialiser outside return')
        t = self.resolve(e[1])
        if t[0] == 'tag' and not e[2]:
            return V(t, 'lean', e[1])
        if t[0] == 'iter':
            return self.construct_iter(t[1], e[2], hint)
        raise ExtractError('construction of %s is not translated' % e[1])

    # ---- statements
    def check(self, idx, build_final):
        """`assertM chk idx (do <hoisted calls>; <final>)`"""
        saved = self.body.lines
        self.body.lines = []
        self.body.ind += 1
        try:
            final = build_final()
            inner = self.body.lines
        finally:
            self.body.lines = saved
            self.body.ind -= 1
        if not inner:
            self.body.emit('assertM chk %d (%s)' % (idx, final))
        else:
            self.body.emit('assertM chk %d (do' % idx)
            self.body.lines += inner
            self.body.emit(final + ')', self.body.ind + 1)
        self.last_hoist = None

    def truth_of(self, v):
        if v.kind == 'lean' and v.ty == INT('bool'):
            return 'pure %s' % paren(v.term)
        c = self.to_cexpr(v)
        xp, xv = self.xpxv(c.uses)
        return 'truth NT BT g %s %s %s' % (xp, xv, c.term)

    def stmt(self, s):
        if self.returned:
            raise ExtractError('statement after return')
        k = s[0]
        if k == 'assert':
            idx = self.assert_idx
            self.assert_idx += 1
            self.check(idx, lambda: self.truth_of(self.ex(s[1])))
        elif k == 'sizecheck':
            idx = self.assert_idx
            self.assert_idx += 1

            def fin():
                vs = [self.to_cexpr(self.ex(a)) for a in s[1]]
                xp, xv = self.xpxv(merge_uses(*vs))
                return 'truth NT BT g %s %s (Macro.SBEPP_SIZE_CHECK %s)' % (xp, xv, ' '.join(v.term for v in vs))
            self.check(idx, fin)
        elif k == 'decl':
            self.decl(s[1], s[2], s[3])
        elif k == 'expr':
            self.expr_stmt(s[1])
        elif k == 'return':
            self.ret(s[1])
        elif k == 'block':
            for x in s[1]:
                self.stmt(x)
        elif k == 'rangefor':
            self.rangefor(s[1], s[2], s[3])
        else:
            raise ExtractError('statement form `%s` is not translated here' % k)

    def decl(self, ty, name, init):
        t = ('auto',) if ty == 'auto' else self.resolve(ty)
        if t == DIM and init[0] == 'brace' and init[1] == ty:
            args = init[2]
            vs = [self.ex(a) for a in args]
            if len(vs) != 2 or vs[0].term != '(.var "addr")' or vs[1].term != '(.var "end")':
                raise ExtractError('a Dimension header over something else than the view\'s own [addr, end) is not representable')
            ln = self.body.fresh(name)
            self.body.emit('let %s := ()' % ln)
            self.env[name] = V(DIM, 'lean', ln)
            return
        if init[0] == 'brace' and init[1] == ty and t[0] == 'int' and len(init[2]) == 1:
            init = init[2][0]
        v = self.ex(init, hint=name)
        if v.kind == 'lean':
            if t != ('auto',) and t != v.ty and not (t[0] == v.ty[0] == 'iter'):
                raise ExtractError('%s %s initialised with a %s value' % (ty, name, v.ty[0]))
            if not re.fullmatch(r'\w+', v.term or ''):
                ln = self.body.fresh(name)
                self.body.emit('let %s := %s' % (ln, v.term))
                v = V(v.ty, 'lean', ln)
            self.env[name] = v
            return
        if t == ('auto',):
            if v.ty == INT('?'):
                raise ExtractError('`auto %s` of an arithmetic expression: the type is not tracked' % name)
            t = INT(v.ty[1]) if v.ty[0] == 'wrap' else v.ty
        if t[0] != 'int' and t != PTR:
            raise ExtractError('local variable %s of type %s' % (name, ty))
        c = self.convert_to(v, t)
        ln = self.body.fresh(name)
        xp, xv = self.xpxv(c.uses)
        self.body.emit('let %s ← value NT BT g %s %s %s' % (ln, xp, xv, c.term))
        self.body.emit('let %s := %s.bits' % (ln, ln))
        self.vars[ln] = (cty(t), ln)
        self.env[name] = V(t, 'cexpr', '(.var "%s")' % ln, uses=(ln,))
        self.last_hoist = None

    def local_target(self, e):
        if e[0] == 'name' and e[2] is None and e[1] in self.env:
            v = self.env[e[1]]
            if v.kind == 'cexpr' and len(v.uses) == 1 and v.term == '(.var "%s")' % v.uses[0] and self.vars[v.uses[0]][1] == v.uses[0]:
                return v
        return None

    def assign_local(self, target, rhs):
        ln = target.uses[0]
        c = self.to_cexpr(rhs)
        uses = merge_uses(target, c)
        xp, xv = self.xpxv(uses)
        self.body.emit('let env ← block NT BT chk g %s %s [(.assign "%s" %s)]' % (xp, xv, ln, c.term))
        self.body.emit('let %s ← getVar env "%s"' % (ln, ln))
        self.body.emit('let %s := %s.bits' % (ln, ln))
        self.last_hoist = None

    def expr_stmt(self, e):
        if e[0] == 'voidcast':
            return
        if e[0] == 'assign':
            tgt = self.local_target(e[2])
            if tgt is None:
                raise ExtractError('assignment to something else than a local integer variable')
            rhs = self.ex(e[3])
            if e[1] != '=':
                rhs = self.binop(e[1][:-1], tgt, rhs)
            self.assign_local(tgt, rhs)
            return
        if e[0] in ('post', 'un') and e[1] in ('++', '--'):
            tgt = self.local_target(e[2])
            if tgt is None:
                raise ExtractError('%s on something else than a local integer variable' % e[1])
            self.assign_local(tgt, self.binop(e[1][0], tgt, V(INT('int'), 'cexpr', '(.lit .i32 1)')))
            return
        v = self.ex(e)
        if v.ty[0] == 'setter':
            if v.ty[1] != 'NT':
                raise ExtractError('the blockLength setter of the header is not modelled')
            self.needs.add('write')
            w = 'setNumInGroup NT lay buf hoff %s' % v.cval
            if self.writes == 0:
                self.body.emit('let mbuf := %s' % w)
            else:
                self.body.emit('let mbuf := mbuf.bind (fun buf => %s)' % w)
            self.last_hoist = ('mbuf', w, len(self.body.lines) - 1, True) if self.writes == 0 else None
            self.writes += 1
            return
        if v.ty == ('buf',):
            if v.term != 'mbuf':
                self.body.lines[-1] = self.body.lines[-1].replace('let %s ←' % v.term, 'let mbuf ←', 1)
                if self.last_hoist and self.last_hoist[0] == v.term:
                    self.last_hoist = ('mbuf',) + self.last_hoist[1:]
            return
        # a call whose result is discarded: its effects (checks) were emitted

    def finish_return(self, term):
        lh = getattr(self, 'last_hoist', None)
        if lh and lh[0] == term and lh[2] == len(self.body.lines) - 1:
            self.body.lines.pop()
            self.body.emit(('return %s' % lh[1]) if lh[3] else lh[1])
        else:
            self.body.emit('return %s' % term)

    def ret(self, e):
        r = self.cret
        self.returned = True
        if e is None:
            if r != VOID:
                raise ExtractError('return without a value')
            return
        if r == VOID:
            raise ExtractError('a void function returns a value')
        if e[0] == 'brace' and e[1] is None:
            if r[0] != 'iter':
                raise ExtractError('braced return in a function that returns %s' % self.m.ret)
            v = self.construct_iter(r[1], e[2])
        else:
            v = self.ex(e)
        if r == DIM:
            if v.ty != DIM:
                raise ExtractError('returns a %s value, declared Dimension' % (v.ty[0],))
            self.body.emit('return %s' % v.term)
        elif r[0] == 'iter':
            if not (v.kind == 'lean' and v.ty[0] == 'iter' and v.ty[1] == r[1]):
                raise ExtractError('returns a %s value, declared iterator' % (v.ty[0],))
            self.finish_return(v.term)
        elif r == ENTRY:
            if v.ty != ENTRY:
                raise ExtractError('returns a %s value, declared reference' % (v.ty[0],))
            self.finish_return(v.term) if re.fullmatch(r'\w+', v.term) else self.body.emit('return %s' % v.term)
        elif r == INT('bool'):
            if v.kind == 'lean' and v.ty == INT('bool'):
                self.body.emit('return %s' % v.term)
            else:
                c = self.to_cexpr(v)
                xp, xv = self.xpxv(c.uses)
                self.body.emit('truth NT BT g %s %s %s' % (xp, xv, c.term))
        elif r == INT('size_t'):
            tgt = v if (v.kind == 'cexpr' and v.ty == r and len(v.uses) == 1 and v.term == '(.var "%s")' % v.uses[0]
                        and self.vars[v.uses[0]][1] == v.uses[0]) else None
            if tgt is not None:
                self.body.emit('return %s' % tgt.uses[0])
            else:
                c = self.convert_to(v, r)
                xp, xv = self.xpxv(c.uses)
                name = self.body.fresh('r')
                self.body.emit('let %s ← value NT BT g %s %s %s' % (name, xp, xv, c.term))
                self.body.emit('return %s.bits' % name)
        elif r[0] in ('int', 'wrap'):
            c = self.convert_to(v, r)
            xp, xv = self.xpxv(c.uses)
            self.body.emit('value NT BT g %s %s %s' % (xp, xv, c.term))
        else:
            raise ExtractError('return type %s' % self.m.ret)

    def assigned_locals(self, stmts):
        out = []

        def walk(x):
            if isinstance(x, tuple):
                if x and x[0] == 'assign' or (x and x[0] in ('post', 'un') and len(x) > 2 and x[1] in ('++', '--')):
                    t = self.local_target(x[2])
                    if t is not None and t.uses[0] not in out:
                        out.append(t.uses[0])
                for y in x:
                    walk(y)
            elif isinstance(x, list):
                for y in x:
                    walk(y)
        walk(stmts)
        return out

    def rangefor(self, name, rng, body):
        if not is_this_deref(rng) or self.kind != 'fwd':
            raise ExtractError('only `for(auto x : *this)` over a group with forward iterators is translated here')
        icls = ITER_CLASS['fwd']
        inc = self.model.translate(icls, 'inc')
        ne = self.model.translate(icls, 'ne')
        deref = self.model.translate(icls, 'deref')
        if not deref.pure or inc.pure or not ne.repr == 'bool':
            raise ExtractError('the iterator operations do not have the shape the range-for combinator expects')
        self.needs |= {'fuel'} | (inc.needs & {'esize'})
        b = self.call_method('begin', [])
        e_ = self.call_method('end', [])
        state = self.assigned_locals(body)
        if len(state) > 1:
            raise ExtractError('a loop that updates more than one local variable is not translated')
        ev = self.body.fresh(name)
        ops = '(Fwd.ne NT) (Fwd.deref chk) (Fwd.inc NT BT chk%s)' % (' esize' if 'esize' in inc.needs else '')
        sv = state[0] if state else None
        if sv:
            self.body.emit('let %s ← rangeFor %s %s (fun %s %s => do' % (sv, ops, e_.term, ev, sv))
        else:
            self.body.emit('let _ ← rangeFor %s %s (fun %s (_ : Unit) => do' % (ops, e_.term, ev))
        saved_env = dict(self.env)
        self.env[name] = V(ENTRY, 'lean', ev)
        self.body.ind += 2
        try:
            for x in body:
                self.stmt(x)
            if self.returned:
                raise ExtractError('return inside a loop is not translated here')
            self.body.emit('pure %s) fuel %s %s' % ((sv, b.term, sv) if sv else ('()', b.term, '()')))
        finally:
            self.body.ind -= 2
            self.env = saved_env
        self.last_hoist = None

    # ---- whole method
    def run(self):
        out = MethodOut()
        out.ns, out.name, out.line, out.text = self.ns, lean_name(method_key(self.m)), self.m.line, self.m.text
        self.last_hoist = None
        binders_c = []
        for ty, pname in self.m.params:
            t = self.resolve(ty)
            if t[0] == 'tag':
                continue
            if t[0] != 'int' or pname is None:
                raise ExtractError('parameter `%s %s` has no model-I type' % (ty, pname))
            ln = lean_ident(pname, self.body.used)
            self.body.used.add(ln)
            binders_c.append(ln)
            self.cparams.append((ln, t))
            self.body.emit('let %s := CVal.conv %s %s' % (ln, cty(t), ln))
            self.vars[ln] = (cty(t), ln + '.bits')
            self.env[pname] = V(t, 'cexpr', '(.var "%s")' % ln, uses=(ln,), cval=ln)
        self.cret = self.resolve(self.m.ret)
        if self.cret[0] == 'unknown':
            raise ExtractError('return type %s is not understood' % self.m.ret)
        stmts = Parser(self.m.body).statements()
        for s in stmts:
            self.stmt(s)
        r = self.cret
        if not self.returned:
            if r != VOID:
                raise ExtractError('control reaches the end of a non-void function')
            if self.writes:
                self.finish_return('mbuf')
            else:
                self.body.emit('return ()')
        if r == VOID:
            out.repr, out.ret = ('buf', 'Outcome (Option (List Nat))') if self.writes else ('void', 'Outcome Unit')
        elif r == DIM:
            out.repr, out.ret = 'unit', 'Outcome Unit'
        elif r == INT('size_t'):
            out.repr, out.ret = 'nat', 'Outcome Nat'
        elif r == INT('bool'):
            out.repr, out.ret = 'bool', 'Outcome Bool'
        elif r[0] in ('int', 'wrap'):
            out.repr, out.ret = 'cval', 'Outcome CVal'
        elif r[0] == 'iter':
            out.repr, out.ret = 'iter', 'Outcome %s' % ITER_LEAN[r[1]]
            r = ('iter', r[1])
        elif r == ENTRY:
            out.repr, out.ret = 'entry', 'Outcome Int'
        else:
            raise ExtractError('return type %s' % self.m.ret)
        if self.writes:
            self.needs.add('write')
        b = '(NT BT : CTy) (chk : Bool)'
        if 'write' in self.needs:
            b += ' (lay : DimLayout)'
        b += ' (g : Rt.Group)'
        if 'write' in self.needs:
            b += ' (buf : List Nat) (hoff : Nat)'
        if 'esize' in self.needs:
            b += ' (esize : Int → Nat)'
        if 'fuel' in self.needs:
            b += ' (fuel : Nat)'
        for ln in binders_c:
            b += ' (%s : CVal)' % ln
        out.binders, out.lines, out.needs, out.cparams, out.cret = b, self.body.lines, set(self.needs), self.cparams, r
        out.pure = False
        return out
