"""Method-level translator for the group containers and their iterators of sbepp.hpp:
`detail::flat_group_base`, `detail::nested_group_base`, `detail::forward_iterator`,
`detail::input_iterator`, `detail::cursor_range`, constructor / `operator*` of
`detail::random_access_iterator`, and the constructors / accessors of `detail::entry_base` that
the iterators use.

Pipeline (nothing is keyed to today's text of a member function):

  class text --(#if SBEPP_SIZE_CHECKS_ENABLED: checked and unchecked variant)--> tokens
    --> declaration scanner (using-aliases, data members, constructors with their member
        initialisers, member functions, operators, friends)
    --> statement / expression parser (AST)
    --> C++ typing (aliases and template arguments are resolved from the class text: which
        template argument of `random_access_iterator<...>` is the index type, what `size_type`
        is, ...) and rendering, statement by statement, into one of two target languages:

  * model I  (`Rt/Iter.lean`, C12; DSL `Rt/GroupDsl.lean`, namespace `Sbepp.Rt.GroupDsl`): the
    container members (`operator()(get_header_tag)`, `operator()(size_bytes_tag)`, `sbe_size`,
    `size`, `resize`, `empty`, `begin`, `end`, `operator[]`, `front`, `back`, `clear`) of both
    group classes, `forward_iterator` (constructor, `*`, `++`, `==`, `!=`), constructor and `*` of
    `random_access_iterator`.  Integer and pointer expressions become deep-embedded `CExpr`
    terms for the C++ evaluator of `Base/CExpr.lean` (typing, promotion, conversion and UB stay
    there, exactly as for the extracted kernels); the method level is rendered as `do` blocks:
    calls of other member functions, `SBEPP_ASSERT` / `SBEPP_SIZE_CHECK` (the macro's `#define`
    is translated too), construction of iterators (parameter-passing conversions in the order
    and with the types the constructor declares), the header setter, the range-`for` loop.
    The remaining operators of `random_access_iterator` (`++ -- += + - []`, comparisons) are
    the kernel wrappers of `Rt/Iter.lean` (`Rt.inc`, `Rt.dec`, `Rt.plus`, ...), extracted by
    kernels.py / kernels_group.py.

  * model II (`Rt/Cursor.lean`, C04; DSL `Rt/GroupCursorDsl.lean`, namespace `Sbepp.Rt.Cursor.GroupDsl`): the
    cursor-range members (`cursor_range`, `cursor_subrange` x2, `cursor_begin`, `cursor_end`,
    `operator()(visit_children_tag, v, c)`) with the header accessors they call, class
    `cursor_range`, `input_iterator`, `entry_base(Byte*, Byte*, BlockLengthType)`,
    `entry_base(cursor&, Byte*, BlockLengthType)` and the two `entry_base` accessors.  Values
    are `Nat` / `Option Nat`, the monad is `Out`.

Output: lean/Sbepp/Extracted/GroupMethods.lean (model I), lean/Sbepp/Extracted/GroupCursorMethods.lean
(model II; a module of its own because the schema layer's `Sbepp.Group` must not enter the modules that
talk about `Sbepp.Rt.Group`) + a report (dict).  Ties: `lean/Sbepp/Lemmas/GroupTie.lean`,
`lean/Sbepp/Lemmas/GroupCursorTie.lean`.

C++ typing facts the translator assumes (also written into the generated file):
  * `Byte*` is `.ptr` (model I: signed 64-bit offset, `nullptr` = 0) / `Option Nat` (model II);
    `std::size_t` is `.u64`; `size_type` = `NT`, the block length type = `BT`,
    `difference_type` = `diffTy NT`; an integer literal is `int`;
  * an argument passed to a parameter is converted to the parameter's declared type (`.decl`
    statement for constructor parameters, `CVal.conv` at the entry of a member function); a
    `return e` converts to the declared return type unless `e` already has exactly that type;
  * a `Dimension` header object is only ever constructed over the view's own `[addr, end)`
    (anything else is rejected); its accessors are generated code and are modelled by what they
    read: `sbepp::size_bytes(h)` = `hdr`, `h.numInGroup().value()` = `num`,
    `h.blockLength().value()` = `bl` (model II: `rd` at the field's offset); the `numInGroup(v)`
    setter writes `sizeof(size_type)` bytes in the header's byte order at the field's offset;
  * `SBEPP_ASSERT` / `SBEPP_SIZE_CHECK` are enabled together with `SBEPP_SIZE_CHECKS_ENABLED`
    (`chk` / `endp.isSome`); in unchecked builds the argument is not evaluated;
  * the `end` data member of the iterators exists only with size checks enabled; it is read
    only inside `SBEPP_SIZE_CHECK` or under `#if SBEPP_SIZE_CHECKS_ENABLED`, the model keeps it
    always;
  * `sbepp::size_bytes(entry)` of a group entry is the oracle `esize` applied to the entry's
    address (model I: an entry view is its address); loops carry `fuel` like `Rt.fwdWalk`;
  * model II: `size_type` arithmetic is `Nat` (`a - b` truncated: exact under the preceding
    `SBEPP_ASSERT(pos < size())`), the explicit conversions `static_cast<size_type>(a - b)` /
    `static_cast<IndexType>(a + b)` / `index++` wrap at `2 ^ (8 * sizeof(size_type))`; the
    cursor and the end pointer a range / iterator refers to are the ambient `c` / `endp` (a
    range over another cursor or end pointer is rejected).
"""
import hashlib
import os
import re

from . import cxx
from .cxx import ExtractError
from .kernels import write_if_changed

HPP = 'sbepp/src/sbepp/sbepp.hpp'
LEAN_NS = 'Sbepp.Extracted.Group'

CLASSES = ['entry_base', 'forward_iterator', 'random_access_iterator', 'input_iterator', 'cursor_range',
           'flat_group_base', 'nested_group_base']

ERRS = (ExtractError, ValueError, AssertionError, IndexError, KeyError, RecursionError, AttributeError, TypeError)

# ------------------------------------------------------------------ preprocessor


def pp_variants(text):
    """`#if SBEPP_SIZE_CHECKS_ENABLED A [#else B] #endif` -> (text with A, text with B).
    Line structure is kept (dropped lines become empty).  Any other directive is refused."""
    chk, unc = [], []
    stack = []          # True while in the #else part
    for ln in text.split('\n'):
        s = ln.strip()
        if s.startswith('#'):
            d = s[1:].strip()
            if re.match(r'if\s+SBEPP_SIZE_CHECKS_ENABLED\s*$', d):
                stack.append(False)
            elif re.match(r'else\b', d):
                if not stack:
                    raise ExtractError('#else without #if')
                stack[-1] = True
            elif re.match(r'endif\b', d):
                if not stack:
                    raise ExtractError('#endif without #if')
                stack.pop()
            else:
                raise ExtractError('preprocessor directive `%s` inside a translated class' % s)
            chk.append('')
            unc.append('')
            continue
        chk.append(ln if all(not e for e in stack) else '')
        unc.append(ln if all(stack) else '')
    if stack:
        raise ExtractError('unterminated #if')
    return '\n'.join(chk), '\n'.join(unc)


# ------------------------------------------------------------------ tokens

TOK = re.compile(r'''
    (?P<ws>\s+)
  | (?P<num>0[xX][0-9a-fA-F']+[uUlL]*|\d[\d']*[uUlL]*)
  | (?P<str>"(?:[^"\\]|\\.)*")
  | (?P<chr>'(?:[^'\\]|\\.)+')
  | (?P<id>[A-Za-z_][A-Za-z_0-9]*)
  | (?P<op><<=|>>=|<=>|->|\+\+|--|<<|>>|<=|>=|==|!=|&&|\|\||\+=|-=|\*=|/=|%=|&=|\|=|\^=|::|[-+*/%<>=!~&|^?:;,.(){}\[\]])
''', re.X)


def tokenize(text, base_line=1):
    """-> list of (kind, text, line)"""
    toks = []
    i = 0
    line = base_line
    while i < len(text):
        m = TOK.match(text, i)
        if not m:
            raise ExtractError('cannot tokenize at: %r' % text[i:i + 30])
        k = m.lastgroup
        if k != 'ws':
            toks.append((k, m.group(k), line))
        line += text.count('\n', i, m.end())
        i = m.end()
    return toks


def int_value(tok):
    m = re.fullmatch(r"(0[xX][0-9a-fA-F']+|\d[\d']*)([uUlL]*)", tok)
    digits = m.group(1).replace("'", '')
    if len(digits) > 1 and digits[0] == '0' and digits[1] not in 'xX':
        return int(digits, 8), m.group(2).lower()
    return int(digits, 0), m.group(2).lower()


def match_tok(toks, i, open_c, close_c):
    depth = 0
    while i < len(toks):
        if toks[i][0] == 'op':
            v = toks[i][1]
            if v == open_c:
                depth += 1
            elif v == close_c:
                depth -= 1
                if depth == 0:
                    return i
        i += 1
    raise ExtractError('unbalanced %s%s' % (open_c, close_c))


def match_angle(toks, i):
    """toks[i] is `<`; index of the matching `>` (parentheses are skipped as units)"""
    depth = 0
    while i < len(toks):
        k, v = toks[i][0], toks[i][1]
        if k == 'op':
            if v == '<':
                depth += 1
            elif v == '>':
                depth -= 1
                if depth == 0:
                    return i
            elif v == '>>':
                depth -= 2
                if depth <= 0:
                    return i
            elif v == '(':
                i = match_tok(toks, i, '(', ')')
            elif v in (';', '{', '}'):
                break
        i += 1
    raise ExtractError('unbalanced <>')


def split_top(toks, sep=','):
    """split a token list at top-level separators (nesting: () {} [] <>)"""
    out, cur, depth = [], [], 0
    for t in toks:
        if t[0] == 'op':
            if t[1] in '({[<':
                depth += 1
            elif t[1] in ')}]>':
                depth -= 1
            elif t[1] == '>>':
                depth -= 2
        if t[0] == 'op' and t[1] == sep and depth == 0:
            out.append(cur)
            cur = []
        else:
            cur.append(t)
    if cur or out:
        out.append(cur)
    return out


def join_toks(toks):
    """source text of a token list, blanks only where two words meet and after `,` / `;`"""
    out = []
    prev = None
    for t in toks:
        if prev is not None:
            word = lambda x: x[0] in ('id', 'num', 'str', 'chr')
            if (word(prev) and word(t)) or prev[1] in (',', ';') or (prev[1] == '{' and t[1] != '}') \
                    or (t[1] == '}' and prev[1] != '{') or (t[1] == '{' and word(prev) and prev[1] in ('noexcept', 'const')):
                out.append(' ')
        out.append(t[1])
        prev = t
    return ''.join(out)


def spell(toks):
    """type spelling of a token list: no blanks, no cv-qualifiers / `typename` / namespace prefixes"""
    out = []
    skip_ns = False
    for idx, t in enumerate(toks):
        if t[0] == 'id' and t[1] in ('const', 'typename', 'volatile'):
            continue
        if t[0] == 'id' and t[1] in ('sbepp', 'detail') and idx + 1 < len(toks) and toks[idx + 1][1] == '::':
            skip_ns = True
            continue
        if skip_ns and t[1] == '::':
            skip_ns = False
            continue
        skip_ns = False
        out.append(t[1])
    s = ''.join(out)
    while s.startswith('::'):
        s = s[2:]
    return s


# ------------------------------------------------------------------ declaration scanner

SPECIFIERS = {'SBEPP_CPP14_CONSTEXPR', 'SBEPP_CPP17_CONSTEXPR', 'SBEPP_CPP20_CONSTEXPR', 'SBEPP_CPP17_INLINE_VAR',
              'SBEPP_CPP17_NODISCARD', 'constexpr', 'inline', 'static', 'explicit', 'friend', 'virtual'}

OPERATOR_NAMES = {'()': 'call', '[]': 'subscript', '*': 'deref', '++': 'inc', '--': 'dec', '==': 'eq', '!=': 'ne',
                  '<': 'lt', '<=': 'le', '>': 'gt', '>=': 'ge', '+': 'plus', '-': 'minus', '+=': 'add_assign',
                  '-=': 'sub_assign', '->': 'arrow', '=': 'assign'}


class Method:
    def __init__(self):
        self.name = None          # C++ name (`operator()`, `size`, class name for a constructor)
        self.key = None           # translation name (see `method_key`)
        self.line = None
        self.tparams = []         # template parameter names
        self.ret = ''             # return type spelling ('' for constructors)
        self.params = []          # [(type spelling, name|None)]
        self.inits = []           # constructor: [(member/base spelling, [arg token lists], line)]
        self.body = None          # token list
        self.text = None          # normalised source text
        self.is_ctor = False
        self.is_friend = False
        self.is_static = False
        self.defaulted = False


class ClassInfo:
    def __init__(self, name):
        self.name = name
        self.tparams = []
        self.aliases = {}         # name -> ([template parameter names], spelling)
        self.members = []         # [(type spelling, name)]
        self.methods = []


def scan_class(name, toks):
    """toks: tokens of a class body -> ClassInfo (tparams are filled by the caller)"""
    ci = ClassInfo(name)
    i = 0
    n = len(toks)
    while i < n:
        k, v, _ = toks[i]
        if k == 'id' and v in ('public', 'private', 'protected') and i + 1 < n and toks[i + 1][1] == ':':
            i += 2
            continue
        start = i
        j = i
        body_rng = None
        seen_paren = False
        while j < n:
            kk, vv, _ = toks[j]
            if kk == 'op' and vv == '(':
                j = match_tok(toks, j, '(', ')') + 1
                seen_paren = True
                continue
            if kk == 'op' and vv == '[':
                j = match_tok(toks, j, '[', ']') + 1
                continue
            if kk == 'op' and vv == '<' and j > start and toks[j - 1][1] == 'template':
                j = match_angle(toks, j) + 1
                continue
            if kk == 'op' and vv == '{':
                e = match_tok(toks, j, '{', '}')
                prev = toks[j - 1] if j > start else ('', '', 0)
                is_init = (prev[0] == 'id' and prev[1] not in ('noexcept', 'const', 'override', 'final')) \
                    or (prev[0] == 'op' and prev[1] in ('=', '>'))
                if is_init:
                    j = e + 1
                    continue
                body_rng = (j + 1, e)
                j = e + 1
                break
            if kk == 'op' and vv == ';':
                j += 1
                break
            j += 1
        decl = toks[start:j]
        i = j
        if not decl:
            continue
        if body_rng is None:
            first = decl[0][1]
            if first == 'using' or (first == 'template' and any(t[1] == 'using' for t in decl)):
                a = alias_of(decl)
                if a:
                    ci.aliases[a[0]] = (a[1], a[2])
                continue
            if seen_paren and any(t[1] == 'default' for t in decl):
                continue                       # `X() = default;`
            m = member_of(decl)
            if m:
                ci.members.append(m)
            continue
        hdr = toks[start:body_rng[0] - 1]
        meth = parse_header(hdr, name)
        if meth is None:
            continue
        meth.body = toks[body_rng[0]:body_rng[1]]
        meth.text = join_toks(toks[start:body_rng[1] + 1])
        ci.methods.append(meth)
    return ci


def alias_of(decl):
    """`using X = T;` / `template<typename A> using X = T;` -> (name, [template params], spelling)"""
    ts = [t for t in decl if not (t[0] == 'op' and t[1] == ';')]
    tps = []
    i = 0
    if ts and ts[0][1] == 'template':
        e = match_angle(ts, 1)
        for part in split_top(ts[2:e]):
            ids = [t[1] for t in part if t[0] == 'id' and t[1] not in ('typename', 'class')]
            if ids:
                tps.append(ids[0])
        i = e + 1
    if i >= len(ts) or ts[i][1] != 'using':
        return None
    if i + 2 >= len(ts) or ts[i + 2][1] != '=':
        return None                          # using-declaration (`using base::operator();`)
    return ts[i + 1][1], tps, spell(ts[i + 3:])


def member_of(decl):
    """`Byte* ptr{};` -> (type spelling, name)"""
    ts = [t for t in decl if not (t[0] == 'op' and t[1] == ';')]
    if not ts or ts[0][1] in ('using', 'template', 'friend', 'static_assert', 'typedef'):
        return None
    if any(t[0] == 'op' and t[1] == '(' for t in ts):
        return None
    for idx, t in enumerate(ts):
        if t[0] == 'op' and t[1] in ('{', '='):
            ts = ts[:idx]
            break
    if len(ts) < 2 or ts[-1][0] != 'id':
        return None
    return spell(ts[:-1]), ts[-1][1]


def parse_params(toks):
    out = []
    for part in split_top(toks):
        ts = list(part)
        for idx, t in enumerate(ts):          # default argument
            if t[0] == 'op' and t[1] == '=':
                ts = ts[:idx]
                break
        ts = [t for t in ts if not (t[0] == 'id' and t[1] == 'const')]
        if not ts:
            continue
        name = None
        if len(ts) >= 2 and ts[-1][0] == 'id' and ts[-2][1] != '::':
            name = ts[-1][1]
            ts = ts[:-1]
        out.append((spell(ts), name))
    return out


def parse_header(hdr, clsname):
    """tokens of a function definition before its body -> Method (without body) or None"""
    m = Method()
    i = 0
    if hdr and hdr[0][1] == 'template':
        if len(hdr) < 2 or hdr[1][1] != '<':
            return None
        e = match_angle(hdr, 1)
        for part in split_top(hdr[2:e]):
            ids = [t[1] for t in part if t[0] == 'id']
            # `typename X`, `typename X = default`, `typename = default`
            if len(ids) >= 2 and ids[0] in ('typename', 'class') and part[1][0] == 'id':
                m.tparams.append(part[1][1])
        i = e + 1
    # locate the declarator: `operator <op> (` or `name (`
    j = i
    opname = None
    while j < len(hdr):
        k, v, _ = hdr[j]
        if k == 'id' and v == 'operator':
            # operator name: `()` `[]` or one operator token
            if j + 2 < len(hdr) and hdr[j + 1][1] == '(' and hdr[j + 2][1] == ')':
                opname, j = '()', j + 3
            elif j + 2 < len(hdr) and hdr[j + 1][1] == '[' and hdr[j + 2][1] == ']':
                opname, j = '[]', j + 3
            else:
                opname, j = hdr[j + 1][1], j + 2
            break
        if k == 'op' and v == '<':
            j = match_angle(hdr, j) + 1
            continue
        if k == 'op' and v == '(':
            break
        j += 1
    if j >= len(hdr) or hdr[j][1] != '(':
        return None
    close = match_tok(hdr, j, '(', ')')
    if opname is not None:
        pre = [t for t in hdr[i:j] if t[1] != 'operator'][:-(1 if opname not in ('()', '[]') else 2)]
        m.name = 'operator' + opname
        m.line = hdr[j][2]
    else:
        pre = hdr[i:j]
        if not pre or pre[-1][0] != 'id':
            return None
        m.name = pre[-1][1]
        m.line = pre[-1][2]
        pre = pre[:-1]
    m.is_friend = any(t[1] == 'friend' for t in pre)
    m.is_static = any(t[1] == 'static' for t in pre)
    m.ret = spell([t for t in pre if t[1] not in SPECIFIERS])
    m.params = parse_params(hdr[j + 1:close])
    m.is_ctor = opname is None and m.name == clsname and m.ret == ''
    rest = hdr[close + 1:]
    # constructor initialisers: `: a{x}, base<T>{y, z}`
    for idx, t in enumerate(rest):
        if t[0] == 'op' and t[1] == ':':
            for part in split_top(rest[idx + 1:]):
                b = None
                for q, tt in enumerate(part):
                    if tt[0] == 'op' and tt[1] in ('{', '('):
                        if tt[1] == '(' or not any(x[1] == '<' for x in part[:q]) or part[q - 1][1] == '>':
                            b = q
                            break
                if b is None:
                    raise ExtractError('%s: member initialiser not understood: %s' % (m.name, join_toks(part)))
                closer = '}' if part[b][1] == '{' else ')'
                e2 = match_tok(part, b, part[b][1], closer)
                m.inits.append((spell(part[:b]), split_top(part[b + 1:e2]), part[0][2]))
            break
        if t[0] == 'op' and t[1] == '=':
            m.defaulted = True
    return m


def method_key(m):
    """translation name of a member function (overloads are told apart by their parameter lists)"""
    if m.is_ctor:
        return 'ctor'
    if m.name == 'operator()':
        if m.params and m.params[0][0].endswith('_tag'):
            return m.params[0][0][:-len('_tag')]
        return 'call'
    if m.name.startswith('operator'):
        base = OPERATOR_NAMES.get(m.name[len('operator'):])
        if base is None:
            return None
        if base in ('inc', 'dec') and m.params:
            return 'post_' + base            # `operator++(int)`
        if base == 'minus' and m.params and not m.is_friend:
            return 'minus'
        return base
    return m.name


# ------------------------------------------------------------------ statement / expression parser

BIN = {
    '||': 1, '&&': 2, '|': 3, '^': 4, '&': 5, '==': 6, '!=': 6,
    '<': 7, '<=': 7, '>': 7, '>=': 7, '<<': 8, '>>': 8, '+': 9, '-': 9, '*': 10, '/': 10, '%': 10,
}
ASSIGN_OPS = {'=', '+=', '-=', '*=', '/=', '%=', '&=', '|=', '^=', '<<=', '>>='}


class Parser:
    """tokens -> AST (tuples).
    Expressions:
      ('num', n, suffix) ('str', s) ('bool', b) ('nullptr',) ('this',)
      ('name', 'a::b', targs|None)            targs: list of type spellings
      ('call', fn, [args]) ('member', obj, name, arrow, targs|None) ('index', obj, i)
      ('un', op, e) ('post', op, e) ('bin', op, l, r) ('assign', op, l, r) ('cond', c, a, b)
      ('cast', type, e) ('voidcast', e) ('brace', type|None, [args])
    Statements:
      ('assert', e) ('sizecheck', [e, e, e, e]) ('decl', type, name, init-expr) ('expr', e)
      ('if', c, [then], [else]|None) ('return', e|None) ('block', [stmts])
      ('rangefor', name, range-expr, [body])"""

    def __init__(self, toks):
        self.t = toks
        self.i = 0

    def peek(self, k=0):
        return self.t[self.i + k] if self.i + k < len(self.t) else ('eof', '', 0)

    def next(self):
        tok = self.peek()
        self.i += 1
        return tok

    def at(self, val, k=0):
        p = self.peek(k)
        return p[1] == val and p[0] in ('op', 'id')

    def expect(self, val):
        tok = self.next()
        if tok[1] != val or tok[0] not in ('op', 'id'):
            raise ExtractError('expected %r, got %r near: %s' % (
                val, tok[1], ' '.join(x[1] for x in self.t[max(0, self.i - 8):self.i + 4])))

    def qualified(self):
        parts = []
        if self.at('::'):
            self.next()
        while True:
            k, v, _ = self.peek()
            if k != 'id':
                raise ExtractError('identifier expected, got %r' % v)
            self.next()
            parts.append(v)
            if self.at('::') and self.peek(1)[0] == 'id':
                self.next()
                continue
            return '::'.join(parts)

    def looks_like_targs(self):
        if not self.at('<'):
            return False
        depth = 0
        j = self.i
        while j < len(self.t):
            k, v, _ = self.t[j]
            if k == 'op' and v == '<':
                depth += 1
            elif k == 'op' and v == '>':
                depth -= 1
                if depth == 0:
                    nxt = self.t[j + 1] if j + 1 < len(self.t) else ('eof', '', 0)
                    return nxt[1] in ('(', '{') and nxt[0] == 'op'
            elif k == 'id' or (k == 'op' and v in (',', '::', '*', '&')) or k == 'num':
                pass
            else:
                return False
            j += 1
        return False

    def targs(self):
        self.expect('<')
        out, cur, depth = [], [], 1
        while True:
            tok = self.next()
            k, v = tok[0], tok[1]
            if k == 'eof':
                raise ExtractError('unterminated template argument list')
            if k == 'op' and v == '<':
                depth += 1
            elif k == 'op' and v == '>':
                depth -= 1
                if depth == 0:
                    break
            if k == 'op' and v == ',' and depth == 1:
                out.append(spell(cur))
                cur = []
            else:
                cur.append(tok)
        if cur:
            out.append(spell(cur))
        return out

    # ---- statements
    def statements(self, until=None):
        out = []
        while self.peek()[0] != 'eof' and not (until and self.at(until)):
            s = self.statement()
            if s is not None:
                out.append(s)
        return out

    def block_or_stmt(self):
        if self.at('{'):
            self.next()
            b = self.statements('}')
            self.expect('}')
            return b
        s = self.statement()
        return [s] if s is not None else []

    def statement(self):
        k, v, _ = self.peek()
        if k == 'op' and v == ';':
            self.next()
            return None
        if k == 'op' and v == '{':
            self.next()
            b = self.statements('}')
            self.expect('}')
            return ('block', b)
        if k == 'id' and v == 'SBEPP_ASSERT':
            self.next()
            self.expect('(')
            e = self.expr()
            self.expect(')')
            self.expect(';')
            return ('assert', e)
        if k == 'id' and v == 'SBEPP_SIZE_CHECK':
            self.next()
            self.expect('(')
            args = self.args(')')
            self.expect(';')
            if len(args) != 4:
                raise ExtractError('SBEPP_SIZE_CHECK with %d arguments' % len(args))
            return ('sizecheck', args)
        if k == 'id' and v == 'return':
            self.next()
            if self.at(';'):
                self.next()
                return ('return', None)
            if self.at('{'):
                self.next()
                e = ('brace', None, self.args('}'))
            else:
                e = self.expr()
            self.expect(';')
            return ('return', e)
        if k == 'id' and v == 'if':
            self.next()
            self.expect('(')
            c = self.expr()
            self.expect(')')
            th = self.block_or_stmt()
            el = None
            if self.at('else'):
                self.next()
                el = self.block_or_stmt()
            return ('if', c, th, el)
        if k == 'id' and v == 'for':
            return self.for_stmt()
        if k == 'id' and v in ('while', 'do', 'switch', 'goto', 'try', 'throw'):
            raise ExtractError('`%s` statements are not translated' % v)
        if k == 'id' and v in ('using', 'typedef', 'static_assert'):
            raise ExtractError('`%s` inside a function body is not translated' % v)
        d = self.try_decl()
        if d is not None:
            return d
        e = self.expr()
        self.expect(';')
        return ('expr', e)

    def for_stmt(self):
        """`for([const] auto[&] x : range) body` only"""
        self.expect('for')
        self.expect('(')
        save = self.i
        while self.at('const'):
            self.next()
        if self.at('auto'):
            self.next()
            while self.at('&') or self.at('&&') or self.at('const'):
                self.next()
            k, v, _ = self.peek()
            if k == 'id' and self.at(':', 1):
                self.next()
                self.next()
                rng = self.expr()
                self.expect(')')
                body = self.block_or_stmt()
                return ('rangefor', v, rng, body)
        self.i = save
        raise ExtractError('only range-based `for(auto x : range)` loops are translated')

    def try_decl(self):
        """[const] (auto | Type) name (= e | {args} | (args)) ;"""
        save = self.i
        while self.at('const') or self.at('constexpr'):
            self.next()
        if self.peek()[0] != 'id':
            self.i = save
            return None
        try:
            ty = self.qualified()
            if self.at('<') and not self.looks_like_targs():
                # a template-id type such as `cursor_range_t<Byte2> r = ...`
                j = match_angle(self.t, self.i)
                ty += spell(self.t[self.i:j + 1])
                self.i = j + 1
            while self.at('*') or self.at('&') or self.at('const'):
                tok = self.next()[1]
                if tok != 'const':
                    ty += tok
        except ExtractError:
            self.i = save
            return None
        k, v, _ = self.peek()
        nxt = self.peek(1)
        if k != 'id' or not (nxt[0] == 'op' and nxt[1] in ('=', '{', '(', ';')):
            self.i = save
            return None
        name = self.next()[1]
        tyn = spell([('id', ty, 0)]) if '::' not in ty else re.sub(r'^(?:(?:sbepp|detail)::)+', '', ty)
        if self.at('='):
            self.next()
            init = self.expr()
        elif self.at('{'):
            self.next()
            init = ('brace', tyn, self.args('}'))
        elif self.at('('):
            self.next()
            init = ('brace', tyn, self.args(')'))
        else:
            raise ExtractError('declaration of %s without initialiser' % name)
        self.expect(';')
        return ('decl', tyn, name, init)

    def args(self, close):
        out = []
        if self.at(close):
            self.next()
            return out
        while True:
            if self.at('{'):
                self.next()
                out.append(('brace', None, self.args('}')))
            else:
                out.append(self.expr())
            if self.at(','):
                self.next()
                continue
            self.expect(close)
            return out

    # ---- expressions
    def expr(self):
        lhs = self.ternary()
        k, v, _ = self.peek()
        if k == 'op' and v in ASSIGN_OPS:
            self.next()
            rhs = self.expr()
            return ('assign', v, lhs, rhs)
        return lhs

    def ternary(self):
        c = self.binary(1)
        if self.at('?'):
            self.next()
            a = self.expr()
            self.expect(':')
            b = self.expr()
            return ('cond', c, a, b)
        return c

    def binary(self, minp):
        lhs = self.unary()
        while True:
            k, v, _ = self.peek()
            if k != 'op' or v not in BIN or BIN[v] < minp:
                return lhs
            self.next()
            rhs = self.binary(BIN[v] + 1)
            lhs = ('bin', v, lhs, rhs)

    def unary(self):
        k, v, _ = self.peek()
        if k == 'op' and v in ('!', '~', '-', '+', '*', '&', '++', '--'):
            self.next()
            return ('un', v, self.unary())
        if k == 'op' and v == '(' and self.at('void', 1) and self.at(')', 2):
            self.next()
            self.next()
            self.next()
            return ('voidcast', self.unary())
        return self.postfix(self.primary())

    def primary(self):
        k, v, _ = self.next()
        if k == 'num':
            n, suf = int_value(v)
            return ('num', n, suf)
        if k == 'str':
            return ('str', v)
        if k == 'op' and v == '(':
            e = self.expr()
            self.expect(')')
            return e
        if k == 'op' and v == '::':
            self.i -= 1
        elif k != 'id':
            raise ExtractError('unexpected token %r near: %s' % (
                v, ' '.join(x[1] for x in self.t[max(0, self.i - 8):self.i + 4])))
        if v in ('true', 'false'):
            return ('bool', v == 'true')
        if v == 'nullptr':
            return ('nullptr',)
        if v == 'this':
            return ('this',)
        if v == 'operator':
            # explicit operator call on *this: `operator*()`, `operator++()`, `operator()(tag{})`
            if self.at('(') and self.at(')', 1):
                self.next()
                self.next()
                return ('name', 'operator()', None)
            if self.at('[') and self.at(']', 1):
                self.next()
                self.next()
                return ('name', 'operator[]', None)
            op = self.next()[1]
            return ('name', 'operator' + op, None)
        if v in ('static_cast', 'reinterpret_cast', 'const_cast'):
            ta = self.targs()
            self.expect('(')
            e = self.expr()
            self.expect(')')
            return ('cast', ta[0] if ta else '?', e)
        if k == 'id':
            self.i -= 1
        name = self.qualified()
        ta = None
        if self.looks_like_targs():
            ta = self.targs()
        if self.at('{'):
            self.next()
            nm = re.sub(r'^(?:(?:sbepp|detail)::)+', '', name)
            if ta is not None:
                nm += '<' + ','.join(ta) + '>'
            return ('brace', nm, self.args('}'))
        return ('name', name, ta)

    def postfix(self, e):
        while True:
            if self.at('('):
                self.next()
                e = ('call', e, self.args(')'))
            elif self.at('['):
                self.next()
                i = self.expr()
                self.expect(']')
                e = ('index', e, i)
            elif self.at('.') or self.at('->'):
                arrow = self.next()[1] == '->'
                if self.at('template'):
                    self.next()
                k, v, _ = self.next()
                if k != 'id':
                    raise ExtractError('member name expected after . / ->')
                ta = self.targs() if self.looks_like_targs() else None
                e = ('member', e, v, arrow, ta)
            elif self.at('++') or self.at('--'):
                e = ('post', self.next()[1], e)
            else:
                return e


def strip_ns(name):
    name = name.lstrip(':')
    while True:
        for p in ('sbepp::', 'detail::'):
            if name.startswith(p):
                name = name[len(p):]
                break
        else:
            return name


# ------------------------------------------------------------------ C++ types of the classes

PTR = ('ptr',)
DIM = ('dim',)
ENTRY = ('entry',)
BYTE = ('byte',)
CURSOR = ('cursor',)
CURSORPTR = ('cursorptr',)
VOID = ('void',)
VISITOR = ('visitor',)


def INT(t):
    return ('int', t)


HEADER_FIELDS = {'numInGroup': 'NT', 'blockLength': 'BT'}
BUILTIN_TYPES = {'std::size_t': INT('size_t'), 'size_t': INT('size_t'), 'bool': INT('bool'), 'void': VOID,
                 'std::ptrdiff_t': INT('ptrdiff'), 'ptrdiff_t': INT('ptrdiff'), 'int': INT('int'),
                 'std::uint64_t': INT('size_t'), 'auto': ('auto',)}
TEMPLATE_KINDS = {'random_access_iterator': 'ra', 'forward_iterator': 'fwd'}


def split_targs(s):
    out, cur, depth = [], [], 0
    for ch in s:
        if ch in '<(':
            depth += 1
        elif ch in '>)':
            depth -= 1
        if ch == ',' and depth == 0:
            out.append(''.join(cur))
            cur = []
        else:
            cur.append(ch)
    if cur:
        out.append(''.join(cur))
    return out


def freeze(b):
    return tuple(sorted(b.items()))


class Types:
    def __init__(self, classes):
        self.classes = classes          # name -> ClassInfo

    def resolve(self, sp, cls, binding, depth=0):
        """type spelling (as produced by `spell`) in the scope of class `cls` whose template parameters are
        bound by `binding` -> type tuple"""
        if depth > 12:
            raise ExtractError('type alias chain too deep at %s' % sp)
        sp = sp.rstrip('&')
        if sp.endswith('*'):
            base = self.resolve(sp[:-1], cls, binding, depth + 1)
            if base == BYTE:
                return PTR
            if base == CURSOR:
                return CURSORPTR
            return ('unknown', sp)
        if sp in binding:
            return binding[sp]
        if sp in BUILTIN_TYPES:
            return BUILTIN_TYPES[sp]
        if sp.endswith('_tag'):
            return ('tag', sp)
        m = re.fullmatch(r'std::decay<decltype\(std::declval<(.+?)>\(\)\.(\w+)\(\)(\.value\(\))?\)>::type', sp)
        if m:
            if self.resolve(m.group(1), cls, binding, depth + 1) != DIM or m.group(2) not in HEADER_FIELDS:
                return ('unknown', sp)
            t = HEADER_FIELDS[m.group(2)]
            return INT(t) if m.group(3) else ('wrap', t)
        m = re.fullmatch(r'std::make_signed<(.+)>::type', sp)
        if m:
            inner = self.resolve(m.group(1), cls, binding, depth + 1)
            if inner == INT('NT'):
                return INT('DT')
            return ('unknown', sp)
        m = re.fullmatch(r'(.+)::value_type', sp)
        if m:
            inner = self.resolve(m.group(1), cls, binding, depth + 1)
            if inner[0] == 'wrap':
                return INT(inner[1])
            return ('unknown', sp)
        m = re.fullmatch(r'(.+)::iterator', sp)
        if m:
            inner = self.resolve(m.group(1), cls, binding, depth + 1)
            if inner[0] == 'crange' and 'cursor_range' in self.classes:
                cr = self.classes['cursor_range']
                if 'iterator' in cr.aliases:
                    return self.resolve(cr.aliases['iterator'][1], cr, dict(inner[1]), depth + 1)
            return ('unknown', sp)
        m = re.fullmatch(r'(\w+)<(.*)>', sp)
        if m:
            name, args = m.group(1), split_targs(m.group(2))
            if name in cls.aliases and cls.aliases[name][0]:
                tps, body = cls.aliases[name]
                b = dict(binding)
                for tp, a in zip(tps, args):
                    b[tp] = self.resolve(a, cls, binding, depth + 1)
                return self.resolve(body, cls, b, depth + 1)
            if name == 'cursor':
                return CURSOR
            if name == 'byte_range':
                return ('byterange',)
            if name in self.classes:
                target = self.classes[name]
                if len(args) != len(target.tparams):
                    raise ExtractError('%s<...> with %d arguments, the template has %d parameters' % (
                        name, len(args), len(target.tparams)))
                b = {tp: self.resolve(a, cls, binding, depth + 1) for tp, a in zip(target.tparams, args)}
                if name in TEMPLATE_KINDS:
                    return ('iter', TEMPLATE_KINDS[name], freeze(b))
                if name == 'input_iterator':
                    return ('citer', freeze(b))
                if name == 'cursor_range':
                    return ('crange', freeze(b))
                if name == 'entry_base':
                    return ENTRY
            return ('unknown', sp)
        if sp in cls.aliases and not cls.aliases[sp][0]:
            return self.resolve(cls.aliases[sp][1], cls, binding, depth + 1)
        if sp == cls.name:                      # injected class name
            b = freeze({k: v for k, v in binding.items() if k in cls.tparams})
            if sp in TEMPLATE_KINDS:
                return ('iter', TEMPLATE_KINDS[sp], b)
            if sp == 'input_iterator':
                return ('citer', b)
            if sp == 'cursor_range':
                return ('crange', b)
            if sp == 'entry_base':
                return ENTRY
        return ('unknown', sp)


CTY = {'size_t': '.u64', 'NT': 'NT', 'BT': 'BT', 'DT': '(diffTy NT)', 'int': '.i32', 'bool': '.bool', 'ptrdiff': '.i64',
       'uint': '.u32', 'long': '.i64', 'ulong': '.u64'}


def cty(t):
    if t == PTR:
        return '.ptr'
    if t[0] in ('int', 'wrap') and t[1] in CTY:
        return CTY[t[1]]
    raise ExtractError('no C++ integer type for %r' % (t,))


LEAN_RESERVED = {'end', 'from', 'at', 'do', 'then', 'fun', 'let', 'match', 'with', 'in', 'if', 'else', 'return', 'mut',
                 'for', 'open', 'def', 'theorem', 'have', 'show', 'by', 'where', 'namespace', 'section', 'import',
                 'instance', 'structure', 'class', 'inductive', 'variable', 'universe', 'example', 'macro', 'syntax',
                 'local', 'private', 'protected', 'partial', 'unsafe', 'deriving', 'extends', 'using', 'calc', 'nomatch',
                 'Type', 'Prop', 'Sort', 'some', 'none', 'true', 'false', 'pure', 'bind', 'this', 'fuel', 'esize',
                 'NT', 'BT', 'chk', 'g', 'lay', 'buf', 'hoff', 'it', 'env', 'bo', 'endp', 'dim', 'gaddr', 'w', 'c',
                 'emptyCtor', 'mbuf'}


def lean_ident(name, used=()):
    n = name
    while n in LEAN_RESERVED or n in used:
        n += '_'
    return n


BINOPS = {'+': '.add', '-': '.sub', '*': '.mul', '/': '.div', '%': '.mod', '<<': '.shl', '>>': '.shr',
          '<': '.lt', '<=': '.le', '>': '.gt', '>=': '.ge', '==': '.eq', '!=': '.ne',
          '&': '.band', '^': '.bxor', '|': '.bor', '&&': '.land', '||': '.lor'}
CMP_OPS = {'<', '<=', '>', '>=', '==', '!='}
UNOPS = {'!': '.lnot', '-': '.neg', '~': '.bnot', '+': '.plus'}
SUFFIX_TY = {'': 'int', 'u': 'uint', 'l': 'long', 'll': 'long', 'ul': 'ulong', 'lu': 'ulong', 'ull': 'ulong', 'llu': 'ulong'}


def lean_list(items):
    return '[' + ', '.join(items) + ']'


class V:
    """a translated expression.  kind 'cexpr': `term` is a `CExpr` over the ambient environment plus the extra
    variables `uses` (names, in order of first use); kind 'lean': `term` is a Lean term of the model type of `ty`."""

    def __init__(self, ty, kind, term, uses=(), lit=None, cval=None):
        self.ty = ty
        self.kind = kind
        self.term = term
        self.uses = tuple(uses)
        self.lit = lit          # integer literal value (for `⟨.i32, n⟩` arguments)
        self.cval = cval        # Lean term of type CVal holding the same value (parameters, results of calls)


def merge_uses(*vs):
    out = []
    for v in vs:
        for u in v.uses:
            if u not in out:
                out.append(u)
    return tuple(out)


class MethodOut:
    def __init__(self):
        self.ns = None
        self.name = None          # Lean name inside the namespace
        self.binders = ''         # Lean binder text
        self.ret = ''             # Lean result type
        self.lines = []
        self.pure = False         # the definition is a plain term, not an `Outcome` / `Out` action
        self.repr = None          # how a caller sees the result: 'unit' 'nat' 'cval' 'bool' 'iter' 'entry' 'buf' ...
        self.cret = None          # C++ return type
        self.needs = set()
        self.cparams = []         # [(lean name, C++ type)] of the C++ parameters
        self.line = 0
        self.text = ''
        self.cls = None
        self.key = None


# ------------------------------------------------------------------ model I (Rt/Iter.lean)

NS_I = {'flat_group_base': 'Flat', 'nested_group_base': 'Nested', 'forward_iterator': 'Fwd',
        'random_access_iterator': 'Ra'}
KEYS_I = {
    'random_access_iterator': ['ctor', 'deref'],
    'forward_iterator': ['ctor', 'deref', 'inc', 'eq', 'ne'],
    'flat_group_base': ['get_header', 'size_bytes', 'sbe_size', 'size', 'resize', 'empty', 'begin', 'end', 'subscript',
                        'front', 'back', 'clear'],
    'nested_group_base': ['get_header', 'sbe_size', 'size', 'resize', 'empty', 'begin', 'end', 'front', 'clear',
                          'size_bytes'],
}
# members of the iterator classes as the DSL (`RaP`, `FwP`) declares them: (C++ name, C++ type, model field, projection)
ITER_MEMBERS = {
    'ra': [('ptr', PTR, 'ptr', 'toInt'), ('block_length', INT('BT'), 'bl', 'bits'), ('index', INT('NT'), 'index', 'bits'),
           ('end', PTR, 'end_', 'toInt')],
    'fwd': [('ptr', PTR, 'ptr', 'toInt'), ('index', INT('NT'), 'index', 'bits'), ('block_length', INT('BT'), 'bl', 'bits'),
            ('end', PTR, 'end_', 'toInt')],
}
ITER_LEAN = {'ra': 'Iter', 'fwd': 'FwdIter'}
ITER_CLASS = {'ra': 'random_access_iterator', 'fwd': 'forward_iterator'}


def lean_name(key):
    return {'end': 'end_'}.get(key, key)


class Body:
    """shared statement-emission machinery of the renderers"""

    def __init__(self):
        self.lines = []
        self.ind = 1
        self.tmp = 0
        self.used = set()

    def emit(self, s, ind=None):
        self.lines.append('  ' * (self.ind if ind is None else ind) + s)

    def fresh(self, hint=None):
        if hint:
            n = lean_ident(hint, self.used)
        else:
            n = 't%d' % self.tmp
            self.tmp += 1
            while n in self.used:
                n = 't%d' % self.tmp
                self.tmp += 1
        self.used.add(n)
        return n


class ModelI:
    def __init__(self, types, variants, report):
        self.types = types
        self.variants = variants        # 'chk' / 'unc' -> {class name -> ClassInfo}
        self.classes = variants['chk']
        self.report = report
        self.done = {}
        self.order = []
        self.active = []
        self.group_binding = {}
        self.iter_binding = {}
        for cname in ('flat_group_base', 'nested_group_base'):
            if cname in self.classes:
                ci = self.classes[cname]
                if len(ci.tparams) != 3:
                    raise ExtractError('%s: expected 3 template parameters (Byte, Entry, Dimension)' % cname)
                self.group_binding[cname] = {ci.tparams[0]: BYTE, ci.tparams[1]: ENTRY, ci.tparams[2]: DIM}

    # ---- lookup
    def find(self, cname, key, variant='chk', nparams=None):
        ci = self.variants[variant].get(cname)
        if ci is None:
            raise ExtractError('class %s not available' % cname)
        ms = [m for m in ci.methods if method_key(m) == key and not m.defaulted]
        if key == 'ctor':
            ms = [m for m in ms if m.params]
        if not ms:
            raise ExtractError('%s::%s not found' % (cname, key))
        if len(ms) > 1:
            raise ExtractError('%s::%s is overloaded (%d definitions)' % (cname, key, len(ms)))
        return ms[0]

    def iter_kind_of(self, cname):
        """kind of `iterator` of a group class + the binding of the iterator class's template parameters"""
        ci = self.classes[cname]
        t = self.types.resolve('iterator', ci, self.group_binding[cname])
        if t[0] != 'iter':
            raise ExtractError('%s::iterator is not one of the iterator templates' % cname)
        return t[1], dict(t[2])

    def binding_for(self, cname):
        if cname in self.group_binding:
            return self.group_binding[cname]
        if cname in self.iter_binding:
            return self.iter_binding[cname]
        for gname in ('flat_group_base', 'nested_group_base'):
            if gname in self.classes:
                kind, b = self.iter_kind_of(gname)
                if ITER_CLASS[kind] == cname:
                    self.iter_binding[cname] = b
                    return b
        raise ExtractError('no group class instantiates %s' % cname)

    def translate(self, cname, key):
        k = (cname, key)
        if k in self.done:
            r = self.done[k]
            if isinstance(r, ExtractError):
                raise ExtractError('%s::%s was not translated (%s)' % (cname, key, r))
            return r
        if k in self.active:
            raise ExtractError('recursive call chain through %s::%s' % k)
        self.active.append(k)
        try:
            r = self.translate_now(cname, key)
            self.done[k] = r
            self.order.append(k)
            return r
        except ERRS as ex:
            err = ex if isinstance(ex, ExtractError) else ExtractError('%s: %s' % (type(ex).__name__, ex))
            self.done[k] = err
            self.order.append(k)
            raise err
        finally:
            self.active.pop()

    def translate_now(self, cname, key):
        outs = []
        for variant in ('chk', 'unc'):
            meth = self.find(cname, key, 'chk' if key == 'ctor' else variant)
            if cname in self.group_binding:
                tr = GroupI(self, cname, meth)
            elif key == 'ctor':
                tr = IterCtorI(self, cname, meth)
            elif key in ('eq', 'ne', 'lt', 'le', 'gt', 'ge'):
                tr = IterCmpI(self, cname, meth)
            else:
                tr = IterMethI(self, cname, meth)
            outs.append(tr.run())
        a, b = outs
        if a.lines != b.lines or a.binders != b.binders or a.ret != b.ret:
            if a.binders != b.binders or a.ret != b.ret or a.pure != b.pure:
                raise ExtractError('%s::%s: the checked and the unchecked variant have different signatures' % (cname, key))
            merged = ['  if chk then%s' % ('' if a.pure else ' do')]
            merged += ['  ' + l for l in a.lines]
            merged += ['  else%s' % ('' if a.pure else ' do')]
            merged += ['  ' + l for l in b.lines]
            a.lines = merged
            a.needs |= b.needs
        a.cls, a.key = cname, key
        return a


class ExprI:
    """expression translation shared by the model-I renderers (`self.env`, `self.vars`, `self.body` are set by
    the subclasses)"""

    def lit(self, e):
        n, suf = e[1], e[2]
        t = SUFFIX_TY.get(suf)
        if t is None:
            raise ExtractError('integer literal suffix %r' % suf)
        return V(INT(t), 'cexpr', '(.lit %s %d)' % (CTY[t], n), lit=(n if t == 'int' else None))

    def to_cexpr(self, v):
        if v.kind == 'cexpr':
            return v
        if v.ty == INT('bool') and v.kind == 'lean':
            name = self.body.fresh()
            self.body.emit('let %s : Nat := if %s then 1 else 0' % (name, v.term))
            self.vars[name] = ('.bool', name)
            return V(INT('bool'), 'cexpr', '(.var "%s")' % name, uses=(name,))
        raise ExtractError('a %s value is used inside an integer / pointer expression' % (v.ty[0],))

    def binop(self, op, a, b):
        if a.kind == 'lean' and a.ty[0] == 'iter':
            return self.iter_binop(op, a, b)
        a, b = self.to_cexpr(a), self.to_cexpr(b)
        if op not in BINOPS:
            raise ExtractError('operator %s' % op)
        if op in CMP_OPS or op in ('&&', '||'):
            ty = INT('bool')
        elif a.ty == PTR and b.ty == PTR and op == '-':
            ty = INT('ptrdiff')
        elif a.ty == PTR or b.ty == PTR:
            ty = PTR
        else:
            ty = INT('?')
        return V(ty, 'cexpr', '(.bin %s %s %s)' % (BINOPS[op], a.term, b.term), uses=merge_uses(a, b))

    def unop(self, op, a):
        a = self.to_cexpr(a)
        if op not in UNOPS:
            raise ExtractError('unary operator %s' % op)
        ty = INT('bool') if op == '!' else (a.ty if op == '+' and a.ty == PTR else INT('?'))
        return V(ty, 'cexpr', '(.un %s %s)' % (UNOPS[op], a.term), uses=a.uses)

    def cast(self, tyname, a):
        t = self.resolve(tyname)
        if t[0] != 'int' and t != PTR:
            raise ExtractError('cast to %s' % tyname)
        a = self.to_cexpr(a)
        return V(t, 'cexpr', '(.cast %s %s)' % (cty(t), a.term), uses=a.uses)

    def xpxv(self, uses):
        xp = lean_list('("%s", %s)' % (u, self.vars[u][0]) for u in uses)
        xv = lean_list(self.vars[u][1] for u in uses)
        return xp, xv

    def convert_to(self, v, t):
        """`v` converted to the declared type `t` (no cast when the static type is exactly `t`)"""
        v = self.to_cexpr(v)
        if v.ty == t or (v.ty[0] == 'wrap' and t[0] in ('wrap', 'int') and v.ty[1] == t[1]):
            return v
        return V(t, 'cexpr', '(.cast %s %s)' % (cty(t), v.term), uses=v.uses)


def is_this_deref(e):
    return e[0] == 'un' and e[1] == '*' and e[2] == ('this',)


def paren(t):
    return t if re.fullmatch(r'[\w.]+|\(.*\)|⟨.*⟩', t) and t.count('(') == t.count(')') else '(%s)' % t


class GroupI(ExprI):
    """a member function of flat_group_base / nested_group_base in model I"""

    def __init__(self, model, cname, meth):
        self.model = model
        self.cname = cname
        self.m = meth
        self.ns = NS_I[cname]
        self.ci = model.classes[cname]
        self.binding = dict(model.group_binding[cname])
        for tp in meth.tparams:
            self.binding.setdefault(tp, ('tparam', tp))
        self.kind, self.ibinding = model.iter_kind_of(cname)
        self.body = Body()
        self.env = {}
        self.vars = {}
        self.needs = set()
        self.assert_idx = 0
        self.writes = 0
        self.returned = False
        self.cparams = []
        self.cret = None

    def resolve(self, sp):
        return self.model.types.resolve(sp, self.ci, self.binding)

    def has_method(self, key):
        return any(method_key(m) == key for m in self.ci.methods)

    # ---- calls
    def callargs(self, callee):
        s = 'NT BT chk'
        if 'write' in callee.needs:
            s += ' lay'
        s += ' g'
        if 'write' in callee.needs:
            s += ' buf hoff'
        if 'esize' in callee.needs:
            s += ' esize'
        if 'fuel' in callee.needs:
            s += ' fuel'
        return s

    def as_cval(self, v):
        if v.cval is not None:
            return v.cval
        if v.lit is not None:
            return '⟨.i32, %d⟩' % v.lit
        c = self.to_cexpr(v)
        name = self.body.fresh()
        xp, xv = self.xpxv(c.uses)
        self.body.emit('let %s ← value NT BT g %s %s %s' % (name, xp, xv, c.term))
        return name

    def bind_result(self, callee_repr, cret, callstr, pure, hint):
        name = self.body.fresh(hint)
        self.body.emit('let %s %s %s' % (name, ':=' if pure else '←', callstr))
        self.last_hoist = (name, callstr, len(self.body.lines) - 1, pure)
        if callee_repr == 'unit':
            return V(DIM, 'lean', name)
        if callee_repr == 'nat':
            self.vars[name] = ('.u64', name)
            return V(INT('size_t'), 'cexpr', '(.var "%s")' % name, uses=(name,))
        if callee_repr == 'cval':
            self.vars[name] = (cty(cret), name + '.bits')
            return V(cret, 'cexpr', '(.var "%s")' % name, uses=(name,), cval=name)
        if callee_repr == 'bool':
            return V(INT('bool'), 'lean', name)
        if callee_repr == 'iter':
            return V(cret, 'lean', name)
        if callee_repr == 'entry':
            return V(ENTRY, 'lean', name)
        if callee_repr == 'buf':
            return V(('buf',), 'lean', name)
        if callee_repr == 'void':
            return V(VOID, 'lean', name)
        raise ExtractError('result representation %s' % callee_repr)

    def call_method(self, key, args, hint=None):
        if not self.has_method(key):
            raise ExtractError('%s has no member function %s' % (self.cname, key))
        callee = self.model.translate(self.cname, key)
        self.needs |= callee.needs & {'write', 'esize', 'fuel'}
        if len(args) != len(callee.cparams):
            raise ExtractError('%s called with %d arguments, takes %d' % (key, len(args), len(callee.cparams)))
        argv = [self.as_cval(self.ex(a)) for a in args]
        callstr = '%s %s%s' % (callee.name, self.callargs(callee), ''.join(' ' + a for a in argv))
        if 'write' in callee.needs:
            if self.writes:
                callstr = '(match mbuf with | some buf => %s | none => pure none)' % callstr
            self.writes += 1
            return self.bind_result('buf', callee.cret, callstr, False, 'mbuf' if self.writes > 1 else hint)
        return self.bind_result(callee.repr, callee.cret, callstr, callee.pure, hint)

    def size_bytes_of(self, v):
        if v.ty == DIM:
            return V(INT('size_t'), 'cexpr', '(.var "hdr")')
        if v.ty == ENTRY:
            self.needs.add('esize')
            name = self.body.fresh()
            self.body.emit('let %s := esize %s' % (name, paren(v.term)))
            self.vars[name] = ('.u64', name)
            return V(INT('size_t'), 'cexpr', '(.var "%s")' % name, uses=(name,))
        raise ExtractError('sbepp::size_bytes of a %s value' % (v.ty[0],))

    def construct_iter(self, kind, args, hint=None):
        icls = ITER_CLASS[kind]
        callee = self.model.translate(icls, 'ctor')
        if len(args) != len(callee.cparams):
            raise ExtractError('%s{...} with %d arguments, the constructor takes %d' % (icls, len(args), len(callee.cparams)))
        vs = [self.to_cexpr(self.ex(a)) for a in args]
        xp, xv = self.xpxv(merge_uses(*vs))
        callstr = '%s.ctor NT BT chk g %s %s %s' % (NS_I[icls], xp, xv, ' '.join(v.term for v in vs))
        return self.bind_result('iter', ('iter', kind), callstr, False, hint)

    def iter_unop(self, op, a):
        kind = a.ty[1]
        icls = ITER_CLASS[kind]
        if op == '*':
            d = self.model.translate(icls, 'deref')
            if not d.pure:
                return self.bind_result('entry', ENTRY, '%s.deref chk %s' % (NS_I[icls], a.term), False, None)
            return V(ENTRY, 'lean', '%s.deref chk %s' % (NS_I[icls], a.term))
        if kind == 'ra' and op == '--':
            return self.bind_result('iter', a.ty, 'Rt.dec NT BT %s' % a.term, False, None)
        if kind == 'ra' and op == '++':
            return self.bind_result('iter', a.ty, 'Rt.inc NT BT chk %s' % a.term, False, None)
        if kind == 'fwd' and op == '++':
            inc = self.model.translate(icls, 'inc')
            self.needs |= inc.needs & {'esize'}
            return self.bind_result('iter', a.ty, 'Fwd.inc NT BT chk%s %s' % (' esize' if 'esize' in inc.needs else '', a.term),
                                    False, None)
        raise ExtractError('operator %s on a %s iterator' % (op, ITER_CLASS[kind]))

    def iter_binop(self, op, a, b):
        if a.ty[1] != 'ra':
            raise ExtractError('operator %s on a forward iterator' % op)
        if b.kind == 'lean' and b.ty[0] == 'iter':
            if op == '-':
                name = self.body.fresh()
                self.body.emit('let %s ← Rt.diff NT %s %s' % (name, a.term, b.term))
                self.vars[name] = ('(diffTy NT)', name + '.bits')
                return V(INT('DT'), 'cexpr', '(.var "%s")' % name, uses=(name,), cval=name)
            names = {'<': 'lt', '<=': 'le', '>': 'gt', '>=': 'ge', '==': 'eq', '!=': 'ne'}
            if op in names:
                name = self.body.fresh()
                self.body.emit('let %s ← Rt.compare NT "%s" %s %s' % (name, names[op], a.term, b.term))
                return V(INT('bool'), 'lean', name)
            raise ExtractError('operator %s on two iterators' % op)
        n = self.as_cval(b)
        if op == '+':
            return self.bind_result('iter', a.ty, 'Rt.plus NT BT %s %s' % (a.term, n), False, None)
        if op == '-':
            return self.bind_result('iter', a.ty, 'Rt.minus NT BT %s %s' % (a.term, n), False, None)
        raise ExtractError('operator %s on an iterator and an integer' % op)

    # ---- expressions
    def ex(self, e, hint=None):
        k = e[0]
        if k == 'num':
            return self.lit(e)
        if k == 'bool':
            return V(INT('bool'), 'cexpr', '(.lit .bool %d)' % (1 if e[1] else 0))
        if k == 'nullptr':
            return V(PTR, 'cexpr', '(.lit .ptr 0)')
        if k == 'name':
            if e[2] is None and e[1] in self.env:
                return self.env[e[1]]
            raise ExtractError('unknown name %s' % e[1])
        if k == 'cast':
            return self.cast(e[1], self.ex(e[2]))
        if k == 'bin':
            a = self.ex(e[2])
            b = self.ex(e[3])
            if e[1] == '+' and b.kind == 'lean' and b.ty[0] == 'iter' and not (a.kind == 'lean' and a.ty[0] == 'iter'):
                a, b = b, a                 # `n + it` is `it + n`
            return self.binop(e[1], a, b)
        if k == 'un':
            if is_this_deref(e):
                return V(('thisobj',), 'lean', 'this')
            a = self.ex(e[2])
            if a.kind == 'lean' and a.ty[0] == 'iter':
                return self.iter_unop(e[1], a)
            if e[1] == '!' and a.kind == 'lean' and a.ty == INT('bool'):
                return V(INT('bool'), 'lean', '!%s' % paren(a.term))
            return self.unop(e[1], a)
        if k == 'cond':
            c, a, b = (self.to_cexpr(self.ex(x)) for x in e[1:4])
            return V(a.ty if a.ty == b.ty else INT('?'), 'cexpr', '(.cond %s %s %s)' % (c.term, a.term, b.term),
                     uses=merge_uses(c, a, b))
        if k == 'call':
            return self.call(e, hint)
        if k == 'brace':
            return self.brace(e, hint)
        if k == 'index':
            o = self.ex(e[1])
            if o.kind == 'lean' and o.ty[0] == 'iter' and o.ty[1] == 'ra':
                n = self.as_cval(self.ex(e[2]))
                return self.bind_result('entry', ENTRY, 'Rt.subscriptIt NT BT %s %s' % (o.term, n), False, hint)
            if o.ty == ('thisobj',):
                return self.call_method('subscript', [e[2]], hint)
            raise ExtractError('operator[] on a %s value' % (o.ty[0],))
        raise ExtractError('expression form %s is not translated' % k)

    def call(self, e, hint):
        fn, args = e[1], e[2]
        if is_this_deref(fn) or (fn[0] == 'name' and fn[1] == 'operator()') \
                or (fn[0] == 'member' and fn[1] == ('this',) and fn[2] == 'operator'):
            if not args or args[0][0] != 'brace' or not (args[0][1] or '').endswith('_tag') or args[0][2]:
                raise ExtractError('call of *this without a tag argument')
            tag = args[0][1]
            if tag == 'addressof_tag' and len(args) == 1:
                return V(PTR, 'cexpr', '(.var "addr")')
            if tag == 'end_ptr_tag' and len(args) == 1:
                return V(PTR, 'cexpr', '(.var "end")')
            return self.call_method(tag[:-len('_tag')], args[1:], hint)
        if fn[0] == 'name':
            n = strip_ns(fn[1])
            if n == 'size_bytes' and len(args) == 1:
                return self.size_bytes_of(self.ex(args[0]))
            if n == 'operator[]' and len(args) == 1:
                return self.call_method('subscript', args, hint)
            if fn[2] is None and n not in self.env and self.has_method(n):
                return self.call_method(n, args, hint)
            raise ExtractError('call of unknown function %s' % fn[1])
        if fn[0] == 'member':
            obj, name = fn[1], fn[2]
            if obj == ('this',):
                return self.call_method(name, args, hint)
            o = self.ex(obj)
            if o.ty == ('thisobj',):
                return self.call_method(name, args, hint)
            if o.ty == DIM:
                if name in HEADER_FIELDS:
                    t = HEADER_FIELDS[name]
                    if not args:
                        return V(('wrap', t), 'cexpr', '(.var "%s")' % {'NT': 'num', 'BT': 'bl'}[t])
                    if len(args) == 1:
                        return V(('setter', t), 'lean', None, cval=self.as_cval(self.ex(args[0])))
                raise ExtractError('header member %s with %d arguments' % (name, len(args)))
            if o.ty[0] == 'wrap' and name == 'value' and not args:
                return V(INT(o.ty[1]), 'cexpr', o.term, uses=o.uses, cval=o.cval)
            raise ExtractError('member call .%s on a %s value' % (name, o.ty[0]))
        raise ExtractError('call form is not translated')

    def brace(self, e, hint):
        if e[1] is None:
            raise ExtractError('untyped braced initialiser outside return')
        t = self.resolve(e[1])
        if t[0] == 'tag' and not e[2]:
            return V(t, 'lean', e[1])
        if t[0] == 'iter':
            return self.construct_iter(t[1], e[2], hint)
        raise ExtractError('construction of %s is not translated' % e[1])

    # ---- statements
    def check(self, idx, build_final):
        """`assertM chk idx (do <hoisted calls>; <final>)`"""
        saved = self.body.lines
        self.body.lines = []
        self.body.ind += 1
        try:
            final = build_final()
            inner = self.body.lines
        finally:
            self.body.lines = saved
            self.body.ind -= 1
        if not inner:
            self.body.emit('assertM chk %d (%s)' % (idx, final))
        else:
            self.body.emit('assertM chk %d (do' % idx)
            self.body.lines += inner
            self.body.emit(final + ')', self.body.ind + 1)
        self.last_hoist = None

    def truth_of(self, v):
        if v.kind == 'lean' and v.ty == INT('bool'):
            return 'pure %s' % paren(v.term)
        c = self.to_cexpr(v)
        xp, xv = self.xpxv(c.uses)
        return 'truth NT BT g %s %s %s' % (xp, xv, c.term)

    def stmt(self, s):
        if self.returned:
            raise ExtractError('statement after return')
        k = s[0]
        if k == 'assert':
            idx = self.assert_idx
            self.assert_idx += 1
            self.check(idx, lambda: self.truth_of(self.ex(s[1])))
        elif k == 'sizecheck':
            idx = self.assert_idx
            self.assert_idx += 1

            def fin():
                vs = [self.to_cexpr(self.ex(a)) for a in s[1]]
                xp, xv = self.xpxv(merge_uses(*vs))
                return 'truth NT BT g %s %s (Macro.SBEPP_SIZE_CHECK %s)' % (xp, xv, ' '.join(v.term for v in vs))
            self.check(idx, fin)
        elif k == 'decl':
            self.decl(s[1], s[2], s[3])
        elif k == 'expr':
            self.expr_stmt(s[1])
        elif k == 'return':
            self.ret(s[1])
        elif k == 'block':
            for x in s[1]:
                self.stmt(x)
        elif k == 'rangefor':
            self.rangefor(s[1], s[2], s[3])
        else:
            raise ExtractError('statement form `%s` is not translated here' % k)

    def decl(self, ty, name, init):
        t = ('auto',) if ty == 'auto' else self.resolve(ty)
        if t == DIM and init[0] == 'brace' and init[1] == ty:
            args = init[2]
            vs = [self.ex(a) for a in args]
            if len(vs) != 2 or vs[0].term != '(.var "addr")' or vs[1].term != '(.var "end")':
                raise ExtractError('a Dimension header over something else than the view\'s own [addr, end) is not representable')
            ln = self.body.fresh(name)
            self.body.emit('let %s := ()' % ln)
            self.env[name] = V(DIM, 'lean', ln)
            return
        if init[0] == 'brace' and init[1] == ty and t[0] == 'int' and len(init[2]) == 1:
            init = init[2][0]
        v = self.ex(init, hint=name)
        if v.kind == 'lean':
            if t != ('auto',) and t != v.ty and not (t[0] == v.ty[0] == 'iter'):
                raise ExtractError('%s %s initialised with a %s value' % (ty, name, v.ty[0]))
            if not re.fullmatch(r'\w+', v.term or ''):
                ln = self.body.fresh(name)
                self.body.emit('let %s := %s' % (ln, v.term))
                v = V(v.ty, 'lean', ln)
            self.env[name] = v
            return
        if t == ('auto',):
            if v.ty == INT('?'):
                raise ExtractError('`auto %s` of an arithmetic expression: the type is not tracked' % name)
            t = INT(v.ty[1]) if v.ty[0] == 'wrap' else v.ty
        if t[0] != 'int' and t != PTR:
            raise ExtractError('local variable %s of type %s' % (name, ty))
        c = self.convert_to(v, t)
        ln = self.body.fresh(name)
        xp, xv = self.xpxv(c.uses)
        self.body.emit('let %s ← value NT BT g %s %s %s' % (ln, xp, xv, c.term))
        self.body.emit('let %s := %s.bits' % (ln, ln))
        self.vars[ln] = (cty(t), ln)
        self.env[name] = V(t, 'cexpr', '(.var "%s")' % ln, uses=(ln,))
        self.last_hoist = None

    def local_target(self, e):
        if e[0] == 'name' and e[2] is None and e[1] in self.env:
            v = self.env[e[1]]
            if v.kind == 'cexpr' and len(v.uses) == 1 and v.term == '(.var "%s")' % v.uses[0] and self.vars[v.uses[0]][1] == v.uses[0]:
                return v
        return None

    def assign_local(self, target, rhs):
        ln = target.uses[0]
        c = self.to_cexpr(rhs)
        uses = merge_uses(target, c)
        xp, xv = self.xpxv(uses)
        self.body.emit('let env ← block NT BT chk g %s %s [(.assign "%s" %s)]' % (xp, xv, ln, c.term))
        self.body.emit('let %s ← getVar env "%s"' % (ln, ln))
        self.body.emit('let %s := %s.bits' % (ln, ln))
        self.last_hoist = None

    def expr_stmt(self, e):
        if e[0] == 'voidcast':
            return
        if e[0] == 'assign':
            tgt = self.local_target(e[2])
            if tgt is None:
                raise ExtractError('assignment to something else than a local integer variable')
            rhs = self.ex(e[3])
            if e[1] != '=':
                rhs = self.binop(e[1][:-1], tgt, rhs)
            self.assign_local(tgt, rhs)
            return
        if e[0] in ('post', 'un') and e[1] in ('++', '--'):
            tgt = self.local_target(e[2])
            if tgt is None:
                raise ExtractError('%s on something else than a local integer variable' % e[1])
            self.assign_local(tgt, self.binop(e[1][0], tgt, V(INT('int'), 'cexpr', '(.lit .i32 1)')))
            return
        v = self.ex(e)
        if v.ty[0] == 'setter':
            if v.ty[1] != 'NT':
                raise ExtractError('the blockLength setter of the header is not modelled')
            self.needs.add('write')
            w = 'setNumInGroup NT lay buf hoff %s' % v.cval
            if self.writes == 0:
                self.body.emit('let mbuf := %s' % w)
            else:
                self.body.emit('let mbuf := mbuf.bind (fun buf => %s)' % w)
            self.last_hoist = ('mbuf', w, len(self.body.lines) - 1, True) if self.writes == 0 else None
            self.writes += 1
            return
        if v.ty == ('buf',):
            if v.term != 'mbuf':
                self.body.lines[-1] = self.body.lines[-1].replace('let %s ←' % v.term, 'let mbuf ←', 1)
                if self.last_hoist and self.last_hoist[0] == v.term:
                    self.last_hoist = ('mbuf',) + self.last_hoist[1:]
            return
        # a call whose result is discarded: its effects (checks) were emitted

    def finish_return(self, term):
        lh = getattr(self, 'last_hoist', None)
        if lh and lh[0] == term and lh[2] == len(self.body.lines) - 1:
            self.body.lines.pop()
            self.body.emit(('return %s' % lh[1]) if lh[3] else lh[1])
        else:
            self.body.emit('return %s' % term)

    def ret(self, e):
        r = self.cret
        self.returned = True
        if e is None:
            if r != VOID:
                raise ExtractError('return without a value')
            return
        if r == VOID:
            raise ExtractError('a void function returns a value')
        if e[0] == 'brace' and e[1] is None:
            if r[0] != 'iter':
                raise ExtractError('braced return in a function that returns %s' % self.m.ret)
            v = self.construct_iter(r[1], e[2])
        else:
            v = self.ex(e)
        if r == DIM:
            if v.ty != DIM:
                raise ExtractError('returns a %s value, declared Dimension' % (v.ty[0],))
            self.body.emit('return %s' % v.term)
        elif r[0] == 'iter':
            if not (v.kind == 'lean' and v.ty[0] == 'iter' and v.ty[1] == r[1]):
                raise ExtractError('returns a %s value, declared iterator' % (v.ty[0],))
            self.finish_return(v.term)
        elif r == ENTRY:
            if v.ty != ENTRY:
                raise ExtractError('returns a %s value, declared reference' % (v.ty[0],))
            self.finish_return(v.term) if re.fullmatch(r'\w+', v.term) else self.body.emit('return %s' % v.term)
        elif r == INT('bool'):
            if v.kind == 'lean' and v.ty == INT('bool'):
                self.body.emit('return %s' % v.term)
            else:
                c = self.to_cexpr(v)
                xp, xv = self.xpxv(c.uses)
                self.body.emit('truth NT BT g %s %s %s' % (xp, xv, c.term))
        elif r == INT('size_t'):
            tgt = v if (v.kind == 'cexpr' and v.ty == r and len(v.uses) == 1 and v.term == '(.var "%s")' % v.uses[0]
                        and self.vars[v.uses[0]][1] == v.uses[0]) else None
            if tgt is not None:
                self.body.emit('return %s' % tgt.uses[0])
            else:
                c = self.convert_to(v, r)
                xp, xv = self.xpxv(c.uses)
                name = self.body.fresh('r')
                self.body.emit('let %s ← value NT BT g %s %s %s' % (name, xp, xv, c.term))
                self.body.emit('return %s.bits' % name)
        elif r[0] in ('int', 'wrap'):
            c = self.convert_to(v, r)
            xp, xv = self.xpxv(c.uses)
            self.body.emit('value NT BT g %s %s %s' % (xp, xv, c.term))
        else:
            raise ExtractError('return type %s' % self.m.ret)

    def assigned_locals(self, stmts):
        out = []

        def walk(x):
            if isinstance(x, tuple):
                if x and x[0] == 'assign' or (x and x[0] in ('post', 'un') and len(x) > 2 and x[1] in ('++', '--')):
                    t = self.local_target(x[2])
                    if t is not None and t.uses[0] not in out:
                        out.append(t.uses[0])
                for y in x:
                    walk(y)
            elif isinstance(x, list):
                for y in x:
                    walk(y)
        walk(stmts)
        return out

    def rangefor(self, name, rng, body):
        if not is_this_deref(rng) or self.kind != 'fwd':
            raise ExtractError('only `for(auto x : *this)` over a group with forward iterators is translated here')
        icls = ITER_CLASS['fwd']
        inc = self.model.translate(icls, 'inc')
        ne = self.model.translate(icls, 'ne')
        deref = self.model.translate(icls, 'deref')
        if not deref.pure or inc.pure or not ne.repr == 'bool':
            raise ExtractError('the iterator operations do not have the shape the range-for combinator expects')
        self.needs |= {'fuel'} | (inc.needs & {'esize'})
        b = self.call_method('begin', [])
        e_ = self.call_method('end', [])
        state = self.assigned_locals(body)
        if len(state) > 1:
            raise ExtractError('a loop that updates more than one local variable is not translated')
        ev = self.body.fresh(name)
        ops = '(Fwd.ne NT) (Fwd.deref chk) (Fwd.inc NT BT chk%s)' % (' esize' if 'esize' in inc.needs else '')
        sv = state[0] if state else None
        if sv:
            self.body.emit('let %s ← rangeFor %s %s (fun %s %s => do' % (sv, ops, e_.term, ev, sv))
        else:
            self.body.emit('let _ ← rangeFor %s %s (fun %s (_ : Unit) => do' % (ops, e_.term, ev))
        saved_env = dict(self.env)
        self.env[name] = V(ENTRY, 'lean', ev)
        self.body.ind += 2
        try:
            for x in body:
                self.stmt(x)
            if self.returned:
                raise ExtractError('return inside a loop is not translated here')
            self.body.emit('pure %s) fuel %s %s' % ((sv, b.term, sv) if sv else ('()', b.term, '()')))
        finally:
            self.body.ind -= 2
            self.env = saved_env
        self.last_hoist = None

    # ---- whole method
    def run(self):
        out = MethodOut()
        out.ns, out.name, out.line, out.text = self.ns, lean_name(method_key(self.m)), self.m.line, self.m.text
        self.last_hoist = None
        binders_c = []
        for ty, pname in self.m.params:
            t = self.resolve(ty)
            if t[0] == 'tag':
                continue
            if t[0] != 'int' or pname is None:
                raise ExtractError('parameter `%s %s` has no model-I type' % (ty, pname))
            ln = lean_ident(pname, self.body.used)
            self.body.used.add(ln)
            binders_c.append(ln)
            self.cparams.append((ln, t))
            self.body.emit('let %s := CVal.conv %s %s' % (ln, cty(t), ln))
            self.vars[ln] = (cty(t), ln + '.bits')
            self.env[pname] = V(t, 'cexpr', '(.var "%s")' % ln, uses=(ln,), cval=ln)
        self.cret = self.resolve(self.m.ret)
        if self.cret[0] == 'unknown':
            raise ExtractError('return type %s is not understood' % self.m.ret)
        stmts = Parser(self.m.body).statements()
        for s in stmts:
            self.stmt(s)
        r = self.cret
        if not self.returned:
            if r != VOID:
                raise ExtractError('control reaches the end of a non-void function')
            if self.writes:
                self.finish_return('mbuf')
            else:
                self.body.emit('return ()')
        if r == VOID:
            out.repr, out.ret = ('buf', 'Outcome (Option (List Nat))') if self.writes else ('void', 'Outcome Unit')
        elif r == DIM:
            out.repr, out.ret = 'unit', 'Outcome Unit'
        elif r == INT('size_t'):
            out.repr, out.ret = 'nat', 'Outcome Nat'
        elif r == INT('bool'):
            out.repr, out.ret = 'bool', 'Outcome Bool'
        elif r[0] in ('int', 'wrap'):
            out.repr, out.ret = 'cval', 'Outcome CVal'
        elif r[0] == 'iter':
            out.repr, out.ret = 'iter', 'Outcome %s' % ITER_LEAN[r[1]]
            r = ('iter', r[1])
        elif r == ENTRY:
            out.repr, out.ret = 'entry', 'Outcome Int'
        else:
            raise ExtractError('return type %s' % self.m.ret)
        if self.writes:
            self.needs.add('write')
        b = '(NT BT : CTy) (chk : Bool)'
        if 'write' in self.needs:
            b += ' (lay : DimLayout)'
        b += ' (g : Rt.Group)'
        if 'write' in self.needs:
            b += ' (buf : List Nat) (hoff : Nat)'
        if 'esize' in self.needs:
            b += ' (esize : Int → Nat)'
        if 'fuel' in self.needs:
            b += ' (fuel : Nat)'
        for ln in binders_c:
            b += ' (%s : CVal)' % ln
        out.binders, out.lines, out.needs, out.cparams, out.cret = b, self.body.lines, set(self.needs), self.cparams, r
        out.pure = False
        return out


class IterBaseI(ExprI):
    def __init__(self, model, cname, meth):
        self.model = model
        self.cname = cname
        self.m = meth
        self.ns = NS_I[cname]
        self.kind = {v: k for k, v in ITER_CLASS.items()}[cname]
        self.ci = model.classes[cname]
        self.binding = dict(model.binding_for(cname))
        for tp in meth.tparams:
            self.binding.setdefault(tp, ('tparam', tp))
        self.body = Body()
        self.env = {}
        self.vars = {}
        self.needs = set()
        self.lean_ty = ITER_LEAN[self.kind]
        # the data members as declared (checked variant), compared with what the DSL provides
        decl = [(n, self.resolve(t)) for t, n in model.variants['chk'][cname].members]
        want = [(n, t) for n, t, _, _ in ITER_MEMBERS[self.kind]]
        if sorted(decl) != sorted(want):
            raise ExtractError('%s: data members %r, the model has %r' % (cname, decl, want))

    def resolve(self, sp):
        return self.model.types.resolve(sp, self.ci, self.binding)


class IterCtorI(IterBaseI):
    """`iterator(Byte* ptr, ..., Byte* end) : ptr{ptr}, ...`: parameter-passing conversions as `.decl` statements
    in the order and with the types of the parameter list, then the member initialisers"""

    def run(self):
        m = self.m
        out = MethodOut()
        out.ns, out.name, out.line, out.text = self.ns, 'ctor', m.line, m.text
        ptypes = []
        for ty, pname in m.params:
            t = self.resolve(ty)
            if pname is None or (t[0] != 'int' and t != PTR):
                raise ExtractError('constructor parameter `%s %s` has no model type' % (ty, pname))
            ptypes.append((pname, t))
        pnames = [p for p, _ in ptypes]
        for s in Parser(m.body).statements():
            if not (s[0] == 'expr' and s[1][0] == 'voidcast'):
                raise ExtractError('a statement in the constructor body is not translated')
        members = {n: (f, pr) for n, _, f, pr in ITER_MEMBERS[self.kind]}
        inits = []
        for mem, args, _ in m.inits:
            if mem not in members:
                raise ExtractError('initialiser of unknown member %s' % mem)
            if len(args) != 1 or len(args[0]) != 1 or args[0][0][0] != 'id' or args[0][0][1] not in pnames:
                raise ExtractError('member %s is not initialised from a constructor parameter' % mem)
            inits.append((mem, args[0][0][1]))
        if sorted(x for x, _ in inits) != sorted(members):
            raise ExtractError('constructor initialises %r, the members are %r' % ([x for x, _ in inits], sorted(members)))
        lp = [lean_ident(p) for p in pnames]
        body = Body()
        decls = ', '.join('(.decl %s "it_%s" %s)' % (cty(t), p, l) for (p, t), l in zip(ptypes, lp))
        body.emit('let env ← block NT BT chk g xp xv [%s]' % decls)
        for mem, p in inits:
            body.emit('let m_%s ← getVar env "it_%s"' % (mem, p))
        body.emit('pure { %s }' % ', '.join('%s := m_%s.%s' % (members[mem][0], mem, members[mem][1]) for mem, _ in inits))
        out.binders = '(NT BT : CTy) (chk : Bool) (g : Rt.Group) (xp : List (String × CTy)) (xv : List Nat) (%s : CExpr)' % ' '.join(lp)
        out.ret = 'Outcome %s' % self.lean_ty
        out.lines, out.repr, out.cret, out.pure = body.lines, 'iter', ('iter', self.kind), False
        out.cparams = [(l, t) for (p, t), l in zip(ptypes, lp)]
        return out


class IterCmpI(IterBaseI):
    """`friend bool operator==(const iterator& lhs, const iterator& rhs)`"""

    def run(self):
        m = self.m
        out = MethodOut()
        out.ns, out.name, out.line, out.text = self.ns, lean_name(method_key(m)), m.line, m.text
        if len(m.params) != 2 or any(p[1] is None for p in m.params):
            raise ExtractError('comparison with %d named parameters' % len(m.params))
        for ty, _ in m.params:
            if re.sub(r'<.*>$', '', ty.rstrip('&')) != self.cname:
                raise ExtractError('comparison parameter of type %s' % ty)
        if self.resolve(m.ret) != INT('bool'):
            raise ExtractError('comparison returning %s' % m.ret)
        self.objs = {m.params[0][1]: 'lhs', m.params[1][1]: 'rhs'}
        stmts = Parser(m.body).statements()
        if len(stmts) != 1 or stmts[0][0] != 'return' or stmts[0][1] is None:
            raise ExtractError('comparison body is not a single return')
        c = self.to_cexpr(self.ex(stmts[0][1]))
        l0, l1 = lean_ident(m.params[0][1]), lean_ident(m.params[1][1])
        out.binders = '(NT : CTy) (%s %s : %s)' % (l0, l1, self.lean_ty)
        out.ret = 'Outcome Bool'
        out.lines = ['  fcompare NT %s %s %s' % (l0, l1, c.term)] if self.kind == 'fwd' else None
        if out.lines is None:
            raise ExtractError('comparisons of random_access_iterator are kernels, not translated here')
        out.repr, out.cret, out.pure, out.as_term = 'bool', INT('bool'), False, True
        return out

    def ex(self, e):
        k = e[0]
        if k == 'num':
            return self.lit(e)
        if k == 'bin':
            return self.binop(e[1], self.ex(e[2]), self.ex(e[3]))
        if k == 'un' and e[1] in UNOPS:
            return self.unop(e[1], self.ex(e[2]))
        if k == 'cast':
            return self.cast(e[1], self.ex(e[2]))
        if k == 'member' and e[1][0] == 'name' and e[1][1] in self.objs and not e[3]:
            if e[2] != 'index':
                raise ExtractError('a comparison reads member %s; the model compares positions only' % e[2])
            return V(INT('NT'), 'cexpr', '(.var "%s_index")' % self.objs[e[1][1]])
        raise ExtractError('expression form %s in a comparison' % k)

    def iter_binop(self, op, a, b):
        raise ExtractError('iterator arithmetic in a comparison')


class IterMethI(IterBaseI):
    """`operator*`, `operator++` of an iterator class"""

    def __init__(self, model, cname, meth):
        super().__init__(model, cname, meth)
        for n, t, _, _ in ITER_MEMBERS[self.kind]:
            self.env[n] = V(t, 'cexpr', '(.var "%s")' % n)
        self.fields = {n: (f, pr) for n, _, f, pr in ITER_MEMBERS[self.kind]}
        self.pending = []          # [(member, cexpr term)]
        self.pending_uses = ()
        self.assert_idx = 0
        self.mon = False
        self.in_check = False
        self.returned = False
        self.has_end = any(n == 'end' for _, n in model.variants['unc'][cname].members)
        self.variant_unc = meth in model.variants['unc'][cname].methods

    def vblock(self):
        return {'fwd': 'f', 'ra': 'r'}[self.kind]

    def hoisting(self):
        if self.pending:
            self.flush(final=False)

    def flush(self, final):
        if self.kind != 'fwd':
            raise ExtractError('member assignments of random_access_iterator are kernels, not translated here')
        xp, xv = self.xpxv(self.pending_uses)
        self.body.emit('let env ← fblock NT BT chk it %s %s [%s]' % (
            xp, xv, ', '.join('(.assign "%s" %s)' % (mem, t) for mem, t in self.pending)))
        self.mon = True
        mems = []
        for mem, _ in self.pending:
            if mem not in mems:
                mems.append(mem)
        for mem in mems:
            self.body.emit('let m_%s ← getVar env "%s"' % (mem, mem))
        upd = '{ it with %s }' % ', '.join('%s := m_%s.%s' % (self.fields[mem][0], mem, self.fields[mem][1]) for mem in mems)
        self.pending, self.pending_uses = [], ()
        if final:
            return upd
        self.body.emit('let it := %s' % upd)
        return 'it'

    def ex(self, e):
        k = e[0]
        if k == 'num':
            return self.lit(e)
        if k == 'nullptr':
            return V(PTR, 'cexpr', '(.lit .ptr 0)')
        if k == 'bool':
            return V(INT('bool'), 'cexpr', '(.lit .bool %d)' % (1 if e[1] else 0))
        if k == 'name' and e[2] is None and e[1] in self.env:
            if e[1] == 'end' and not self.has_end and self.variant_unc and not self.in_check:
                raise ExtractError('the `end` member is read outside SBEPP_SIZE_CHECK in a build without size checks')
            return self.env[e[1]]
        if k == 'bin':
            return self.binop(e[1], self.ex(e[2]), self.ex(e[3]))
        if k == 'un':
            if is_this_deref(e):
                return V(('iter', self.kind), 'lean', 'it')
            a = self.ex(e[2])
            if e[1] == '*' and a.kind == 'lean' and a.ty[0] == 'iter':
                return self.own_call('deref', [])
            return self.unop(e[1], a)
        if k == 'cast':
            return self.cast(e[1], self.ex(e[2]))
        if k == 'call':
            fn, args = e[1], e[2]
            if fn[0] == 'name':
                n = strip_ns(fn[1])
                if n == 'size_bytes' and len(args) == 1:
                    v = self.ex(args[0])
                    if v.ty != ENTRY:
                        raise ExtractError('sbepp::size_bytes of a %s value' % (v.ty[0],))
                    self.hoisting()
                    self.needs.add('esize')
                    name = self.body.fresh()
                    self.body.emit('let %s := esize %s' % (name, paren(v.term)))
                    self.vars[name] = ('.u64', name)
                    return V(INT('size_t'), 'cexpr', '(.var "%s")' % name, uses=(name,))
                if n.startswith('operator') and n[len('operator'):] in OPERATOR_NAMES:
                    return self.own_call(OPERATOR_NAMES[n[len('operator'):]], args)
            if fn[0] == 'member' and (fn[1] == ('this',) or is_this_deref(fn[1])):
                return self.own_call(fn[2], args)
            raise ExtractError('call form in an iterator member function')
        raise ExtractError('expression form %s is not translated' % k)

    def own_call(self, key, args):
        if args:
            raise ExtractError('call of %s with arguments' % key)
        callee = self.model.translate(self.cname, key)
        self.hoisting()
        if key == 'deref' and callee.pure:
            return V(ENTRY, 'lean', 'deref chk it')
        raise ExtractError('call of %s::%s from a member function' % (self.cname, key))

    def iter_binop(self, op, a, b):
        raise ExtractError('iterator arithmetic inside an iterator member function')

    def lean_arg(self, v, proj):
        c = self.to_cexpr(v)
        m = re.fullmatch(r'\(\.var "(\w+)"\)', c.term)
        if m and m.group(1) in self.fields and not self.pending:
            return 'it.%s' % self.fields[m.group(1)][0]
        if c.term == '(.lit .ptr 0)':
            return '0'
        self.hoisting()
        name = self.body.fresh()
        xp, xv = self.xpxv(c.uses)
        self.body.emit('let %s ← fvalue NT BT it %s %s %s' % (name, xp, xv, c.term))
        self.mon = True
        return '%s.%s' % (name, proj)

    def check(self, idx, build_final):
        saved = self.body.lines
        self.body.lines = []
        self.body.ind += 1
        self.in_check = True
        try:
            final = build_final()
            inner = self.body.lines
        finally:
            self.body.lines = saved
            self.body.ind -= 1
            self.in_check = False
        self.mon = True
        if not inner:
            self.body.emit('assertM chk %d (%s)' % (idx, final))
        else:
            self.body.emit('assertM chk %d (do' % idx)
            self.body.lines += inner
            self.body.emit(final + ')', self.body.ind + 1)

    def assign_member(self, target, op, rhs):
        if not (target[0] == 'name' and target[2] is None and target[1] in self.fields):
            raise ExtractError('assignment to something else than a data member')
        mem = target[1]
        tv = self.env[mem]
        if op != '=':
            rhs = self.binop(op[:-1], tv, rhs)
        c = self.to_cexpr(rhs)
        self.pending.append((mem, c.term))
        self.pending_uses = merge_uses(V(None, 'cexpr', '', uses=self.pending_uses), c)

    def stmt(self, s):
        if self.returned:
            raise ExtractError('statement after return')
        k = s[0]
        if k == 'sizecheck' or k == 'assert':
            self.hoisting()
            idx = self.assert_idx
            self.assert_idx += 1

            def fin():
                if k == 'assert':
                    c = self.to_cexpr(self.ex(s[1]))
                    term = c.term
                    uses = c.uses
                else:
                    vs = [self.to_cexpr(self.ex(a)) for a in s[1]]
                    term = '(Macro.SBEPP_SIZE_CHECK %s)' % ' '.join(v.term for v in vs)
                    uses = merge_uses(*vs)
                xp, xv = self.xpxv(uses)
                return 'ftruth NT BT it %s %s %s' % (xp, xv, term)
            self.check(idx, fin)
        elif k == 'expr':
            e = s[1]
            if e[0] == 'voidcast':
                return
            if e[0] == 'assign':
                self.assign_member(e[2], e[1], self.ex(e[3]))
            elif e[0] in ('post', 'un') and e[1] in ('++', '--'):
                self.assign_member(e[2], e[1][0] + '=', V(INT('int'), 'cexpr', '(.lit .i32 1)'))
            else:
                raise ExtractError('expression statement is not translated')
        elif k == 'return':
            self.returned = True
            e = s[1]
            r = self.cret
            if e is not None and is_this_deref(e):
                if r[0] != 'iter':
                    raise ExtractError('`return *this` in a function returning %s' % self.m.ret)
                if self.pending:
                    self.body.emit('return %s' % self.flush(final=True))
                else:
                    self.body.emit('return it')
            elif e is not None and e[0] == 'brace' and e[1] is None:
                if r != ENTRY:
                    raise ExtractError('braced return in a function returning %s' % self.m.ret)
                args = e[2]
                if len(args) != 3:
                    raise ExtractError('entry constructed from %d arguments' % len(args))
                vs = [self.ex(a) for a in args]
                if vs[0].ty != PTR or vs[1].ty != PTR or vs[2].ty[0] != 'int':
                    raise ExtractError('entry constructed from (%s, %s, %s)' % tuple(v.ty[0] for v in vs))
                self.model.entry_ctor_used = True
                self.body.emit('%sentryAt %s %s %s' % ('return ' if self.mon else '', self.lean_arg(vs[0], 'toInt'),
                                                    self.lean_arg(vs[1], 'toInt'), self.lean_arg(vs[2], 'bits')))
            else:
                raise ExtractError('return form is not translated')
        elif k == 'block':
            for x in s[1]:
                self.stmt(x)
        else:
            raise ExtractError('statement form `%s` is not translated here' % k)

    def run(self):
        m = self.m
        out = MethodOut()
        key = method_key(m)
        out.ns, out.name, out.line, out.text = self.ns, lean_name(key), m.line, m.text
        if m.params:
            raise ExtractError('%s with parameters' % key)
        self.cret = self.resolve(m.ret)
        if self.cret[0] == 'iter':
            self.cret = ('iter', self.kind)
        for s in Parser(m.body).statements():
            self.stmt(s)
        if not self.returned:
            raise ExtractError('control reaches the end of a non-void function')
        if key == 'deref':
            out.binders = '(chk : Bool) (it : %s)' % self.lean_ty
            if self.mon:
                out.binders = '(NT BT : CTy) ' + out.binders
        else:
            out.binders = '(NT BT : CTy) (chk : Bool)%s (it : %s)' % (
                ' (esize : Int → Nat)' if 'esize' in self.needs else '', self.lean_ty)
        if self.cret == ENTRY:
            out.repr, out.ret = 'entry', ('Outcome Int' if self.mon else 'Int')
        elif self.cret[0] == 'iter':
            out.repr, out.ret = 'iter', ('Outcome %s' % self.lean_ty if self.mon else self.lean_ty)
        else:
            raise ExtractError('return type %s' % m.ret)
        out.lines, out.pure, out.needs, out.cret = self.body.lines, not self.mon, set(self.needs), self.cret
        return out


def translate_macro(src):
    """`#define SBEPP_SIZE_CHECK(begin, end, offset, size) SBEPP_ASSERT(expr)` -> Lean function on `CExpr`"""
    params, body = cxx.parse_define(src, 'SBEPP_SIZE_CHECK')
    if len(params) != 4:
        raise ExtractError('SBEPP_SIZE_CHECK with %d parameters' % len(params))
    stmts = Parser(tokenize(body + ';')).statements()
    if len(stmts) != 1 or stmts[0][0] != 'assert':
        raise ExtractError('SBEPP_SIZE_CHECK does not expand to one SBEPP_ASSERT')
    lp = [lean_ident(p) for p in params]

    class M(ExprI):
        def resolve(self, sp):
            return BUILTIN_TYPES.get(sp, ('unknown', sp))

        def iter_binop(self, op, a, b):
            raise ExtractError('macro')

        def ex(self, e):
            k = e[0]
            if k == 'num':
                return self.lit(e)
            if k == 'name' and e[2] is None and e[1] in params:
                return V(('macroarg',), 'cexpr', lp[params.index(e[1])])
            if k == 'bin':
                return self.binop(e[1], self.ex(e[2]), self.ex(e[3]))
            if k == 'un' and e[1] in UNOPS:
                return self.unop(e[1], self.ex(e[2]))
            if k == 'cast':
                return self.cast(e[1], self.ex(e[2]))
            raise ExtractError('expression form %s in SBEPP_SIZE_CHECK' % k)
    term = M().ex(stmts[0][1]).term
    return ('/-- `#define SBEPP_SIZE_CHECK(%s)`\n```\n%s\n``` -/\ndef SBEPP_SIZE_CHECK (%s : CExpr) : CExpr :=\n  %s\n' % (
        ', '.join(params), ' '.join(body.split()), ' '.join(lp), term), params, ' '.join(body.split()))


# ------------------------------------------------------------------ class loading


def class_tparams(src, name):
    m = None
    for mm in re.finditer(r'template\s*<([^<>]*)>\s*(?:class|struct)\s+' + re.escape(name) + r'\b(?!\s*;)', src):
        m = mm
        break
    if m is None:
        raise ExtractError('template header of class %s not found' % name)
    out = []
    for part in m.group(1).split(','):
        ws = part.split('=')[0].split()
        if len(ws) >= 2 and ws[0] in ('typename', 'class'):
            out.append(ws[1])
        else:
            raise ExtractError('template parameter `%s` of %s' % (part.strip(), name))
    return out


def load_classes(src, report):
    """-> {'chk': {name: ClassInfo}, 'unc': {...}}"""
    variants = {'chk': {}, 'unc': {}}
    for name in CLASSES:
        try:
            s, e = cxx.find_class_body(src, name)
            base_line = src.count('\n', 0, s) + 1
            tps = class_tparams(src, name)
            texts = pp_variants(src[s:e])
            for vname, text in zip(('chk', 'unc'), texts):
                ci = scan_class(name, tokenize(text, base_line))
                ci.tparams = tps
                for m in ci.methods:
                    m.key = method_key(m)
                variants[vname][name] = ci
        except ERRS as ex:
            report['failed'][name] = 'class: %s' % ex
            variants['chk'].pop(name, None)
            variants['unc'].pop(name, None)
    return variants


def render_def(out, cname):
    src = (out.text or '').replace('-/', '- /').replace('/-', '/ -')
    head = '/-- `%s::%s`, sbepp.hpp:%d\n```\n%s\n``` -/\n' % (cname, out.key, out.line, src)
    if out.pure or getattr(out, 'as_term', False):
        return '%sdef %s %s : %s :=\n%s\n' % (head, out.name, out.binders, out.ret, '\n'.join(out.lines))
    return '%sdef %s %s : %s := do\n%s\n' % (head, out.name, out.binders, out.ret, '\n'.join(out.lines))


# ------------------------------------------------------------------ model II (Rt/Cursor.lean)

NS_II = {'entry_base': 'Entry', 'input_iterator': 'InputIt', 'cursor_range': 'CursorRange',
         'flat_group_base': 'CFlat', 'nested_group_base': 'CNested'}
KEYS_II = {
    'entry_base': ['ctor_ptr', 'ctor_cursor', 'get_block_length', 'get_level'],
    'input_iterator': ['ctor', 'deref', 'inc', 'eq', 'ne'],
    'cursor_range': ['ctor', 'size', 'begin', 'end'],
    'flat_group_base': ['get_header', 'sbe_size', 'size', 'cursor_range', 'cursor_subrange1', 'cursor_subrange2',
                        'cursor_begin', 'cursor_end', 'visit_children'],
    'nested_group_base': ['get_header', 'sbe_size', 'size', 'cursor_range', 'cursor_subrange1', 'cursor_subrange2',
                          'cursor_begin', 'cursor_end', 'visit_children'],
}
ENDP = ('endp',)
BINDER_ORDER = [('emptyCtor', '(emptyCtor : Bool)'), ('bo', '(bo : ByteOrder)'), ('buf', '(buf : List Nat)'),
                ('endp', '(endp : Option Nat)'), ('dim', '(dim : Dim)'), ('gaddr', '(gaddr : Nat)'), ('w', '(w : Nat)')]
# data members of the classes as the model has them: C++ name -> (C++ type, Lean projection of `this` | ambient value)
MEMBERS_II = {
    'input_iterator': {'index': (INT('NT'), 'this.index'), 'cursor': (CURSORPTR, None), 'block_length': (INT('BT'), 'this.bl'),
                       'end': (PTR, None)},
    'cursor_range': {'cursor': (CURSORPTR, None), 'block_length': (INT('BT'), 'this.bl'), 'start_pos': (INT('NT'), 'this.start'),
                     'end_ptr': (PTR, None), 'length': (INT('NT'), 'this.len')},
    'entry_base': {'block_length': (INT('BT'), 'this.wbl')},
}
THIS_TY = {'input_iterator': 'InIter', 'cursor_range': 'Range', 'entry_base': 'LView'}
FIELD_OF = {'input_iterator': {'index': 'index', 'block_length': 'bl'},
            'cursor_range': {'block_length': 'bl', 'start_pos': 'start', 'length': 'len'}}


class W:
    def __init__(self, ty, term):
        self.ty = ty
        self.term = term


class ModelII:
    def __init__(self, types, variants, report):
        self.types = types
        self.variants = variants
        self.classes = variants['chk']
        self.report = report
        self.done = {}
        self.order = []
        self.active = []
        self.bind = {}

    def binding_for(self, cname):
        if cname in self.bind:
            return self.bind[cname]
        ci = self.classes[cname]
        if cname in ('flat_group_base', 'nested_group_base'):
            if len(ci.tparams) != 3:
                raise ExtractError('%s: expected 3 template parameters (Byte, Entry, Dimension)' % cname)
            b = {ci.tparams[0]: BYTE, ci.tparams[1]: ENTRY, ci.tparams[2]: DIM}
        elif cname == 'entry_base':
            if len(ci.tparams) != 2:
                raise ExtractError('entry_base: expected 2 template parameters (Byte, BlockLengthType)')
            b = {ci.tparams[0]: BYTE, ci.tparams[1]: INT('BT')}
        else:
            found = []
            for g in ('flat_group_base', 'nested_group_base'):
                if g not in self.classes:
                    continue
                gi = self.classes[g]
                gb = self.binding_for(g)
                gb2 = dict(gb)
                gb2['Byte2'] = ('tparam', 'Byte2')
                t = self.types.resolve('cursor_range_t<Byte2>' if cname == 'cursor_range' else 'cursor_iterator<Byte2>', gi, gb2)
                if t[0] != ('crange' if cname == 'cursor_range' else 'citer'):
                    raise ExtractError('%s: the cursor range alias does not name %s' % (g, cname))
                found.append(dict(t[1]))
            if not found:
                raise ExtractError('no group class instantiates %s' % cname)
            if any(f != found[0] for f in found):
                raise ExtractError('the two group classes instantiate %s differently' % cname)
            b = found[0]
        self.bind[cname] = b
        return b

    def find(self, cname, key, variant):
        ci = self.variants[variant].get(cname)
        if ci is None:
            raise ExtractError('class %s not available' % cname)
        ms = [m for m in ci.methods if not m.defaulted]
        b = self.binding_for(cname)

        def ptypes(m):
            bb = dict(b)
            for tp in m.tparams:
                bb.setdefault(tp, ('tparam', tp))
            return [self.types.resolve(t, ci, bb) for t, _ in m.params]
        if key in ('ctor_ptr', 'ctor_cursor'):
            want = PTR if key == 'ctor_ptr' else CURSOR
            ms = [m for m in ms if m.is_ctor and len(m.params) == 3 and ptypes(m)[0] == want and ptypes(m)[1] == PTR]
        elif key == 'ctor':
            ms = [m for m in ms if m.is_ctor and m.params]
        elif key in ('cursor_subrange1', 'cursor_subrange2'):
            ms = [m for m in ms if method_key(m) == 'cursor_subrange' and len(m.params) == int(key[-1]) + 1]
        else:
            ms = [m for m in ms if method_key(m) == key]
        if not ms:
            raise ExtractError('%s::%s not found' % (cname, key))
        if len(ms) > 1:
            raise ExtractError('%s::%s is overloaded (%d definitions)' % (cname, key, len(ms)))
        return ms[0]

    def translate(self, cname, key):
        k = (cname, key)
        if k in self.done:
            r = self.done[k]
            if isinstance(r, ExtractError):
                raise ExtractError('%s::%s was not translated (%s)' % (cname, key, r))
            return r
        if k in self.active:
            raise ExtractError('recursive call chain through %s::%s' % k)
        self.active.append(k)
        try:
            outs = []
            for variant in ('chk', 'unc'):
                meth = self.find(cname, key, variant)
                outs.append(MethII(self, cname, key, meth, variant).run())
            a, b = outs
            if a.lines != b.lines or a.binders != b.binders:
                if a.ret != b.ret or a.pure != b.pure:
                    raise ExtractError('%s::%s: the checked and the unchecked variant have different result types' % (cname, key))
                if a.binders != b.binders:
                    # the variants need different parameters: take the union (in the canonical order)
                    a.needs |= b.needs
                    a.binders = binders_ii(a)
                a.needs.add('endp')
                a.binders = binders_ii(a)
                merged = ['  if endp.isSome then%s' % ('' if a.pure else ' do')]
                merged += ['  ' + l for l in a.lines]
                merged += ['  else%s' % ('' if a.pure else ' do')]
                merged += ['  ' + l for l in b.lines]
                a.lines = merged
            a.cls, a.key = cname, key
            self.done[k] = a
            self.order.append(k)
            return a
        except ERRS as ex:
            err = ex if isinstance(ex, ExtractError) else ExtractError('%s: %s' % (type(ex).__name__, ex))
            self.done[k] = err
            self.order.append(k)
            raise err
        finally:
            self.active.pop()


def binders_ii(out):
    parts = [txt for flag, txt in BINDER_ORDER if flag in out.needs]
    if 'visit' in out.needs:
        parts = ['{σ : Type}'] + parts + ['(on_entry : LView → Ptr → σ → Out (Bool × Ptr × σ))', '(fuel : Nat)',
                                          '(c : Ptr)', '(v : σ)']
    elif 'c' in out.needs:
        parts.append('(c : Ptr)')
    parts += out.tail_binders
    return ' '.join(parts)


def callargs_ii(callee, dim_w=True):
    """the ambient arguments of a call, in binder order; inside a group class `w` is `indexBits dim`"""
    out = []
    for flag, _ in BINDER_ORDER:
        if flag in callee.needs:
            out.append('(indexBits dim)' if flag == 'w' and dim_w else flag)
    return out


class MethII:
    def __init__(self, model, cname, key, meth, variant):
        self.model = model
        self.cname = cname
        self.key = key
        self.m = meth
        self.variant = variant
        self.ci = model.variants[variant][cname]
        self.binding = dict(model.binding_for(cname))
        for tp in meth.tparams:
            self.binding.setdefault(tp, ('tparam', tp))
        self.is_group = cname in ('flat_group_base', 'nested_group_base')
        self.body = Body()
        self.env = {}
        self.needs = set()
        self.mon = False
        self.roles = {}            # generic (template-typed) parameter -> 'cursor' | 'visitor'
        self.stateful = False      # threads (c, v) and returns them
        self.in_loop = False
        self.returned = False
        self.cret = None
        self.tail_binders = []
        self.cparams = []
        self.w = '(indexBits dim)' if self.is_group else 'w'

    def resolve(self, sp):
        return self.model.types.resolve(sp, self.ci, self.binding)

    def need(self, *flags):
        for f in flags:
            self.needs.add(f)
            if f == 'w' and self.is_group:
                self.needs.discard('w')
                self.needs.add('dim')

    def has_method(self, key):
        return any(method_key(m) == key for m in self.ci.methods)

    # ---- calls
    def hoist(self, callstr, mon, hint=None, pat=None):
        name = self.body.fresh(hint)
        if mon:
            self.mon = True
        self.body.emit('let %s %s %s' % (pat or name, '←' if mon else ':=', callstr))
        self.last_hoist = (name, callstr, len(self.body.lines) - 1, not mon)
        return name

    def result_of(self, callee, callstr, hint=None):
        self.needs |= {f for f in callee.needs if f not in ('w', 'visit', 'c')}
        if 'w' in callee.needs:
            self.need('w')
        if callee.pure:
            return W(callee.cret, callstr)
        return W(callee.cret, self.hoist(callstr, True, hint))

    def drop_ambient(self, v, pty, what):
        """an argument for a parameter the model does not carry (the cursor, the end pointer)"""
        if pty in (CURSOR, CURSORPTR):
            if v.ty not in (CURSOR, CURSORPTR) or v.term != 'c':
                if v.ty[0] == 'generic':
                    self.role(v.term, 'cursor')
                    return
                raise ExtractError('%s: the cursor handed on is not the ambient cursor (not representable)' % what)
            return
        if pty == PTR:
            ok = v.term == 'endp' or (v.term == 'none' and self.variant == 'unc')
            if not ok:
                raise ExtractError('%s: the end pointer handed on is not the view\'s end pointer (not representable)' % what)
            return
        raise ExtractError('%s: parameter type %r' % (what, pty))

    def call_args(self, callee, args, what):
        if len(args) != len(callee.all_params):
            raise ExtractError('%s called with %d arguments, takes %d' % (what, len(args), len(callee.all_params)))
        out = []
        for a, (pname, pty, carried) in zip(args, callee.all_params):
            v = self.ex(a)
            if not carried:
                self.drop_ambient(v, pty, what)
                continue
            if pty[0] in ('int', 'wrap'):
                if v.ty[0] not in ('int', 'wrap') or v.ty == INT('bool'):
                    raise ExtractError('%s: argument for %s is a %s value' % (what, pname, v.ty[0]))
            elif pty == PTR:
                if v.ty != PTR:
                    raise ExtractError('%s: argument for %s is a %s value' % (what, pname, v.ty[0]))
            elif pty == ENDP:
                if v.ty not in (ENDP, PTR):
                    raise ExtractError('%s: argument for %s is a %s value' % (what, pname, v.ty[0]))
            out.append(paren(v.term))
        return out

    def call_own(self, cname, key, args, hint=None, this=None):
        callee = self.model.translate(cname, key)
        argv = self.call_args(callee, args, '%s::%s' % (cname, key))
        amb = callargs_ii(callee, self.is_group)
        if 'c' in callee.needs:
            self.need('c')
            amb.append('c')
        prefix = '' if cname == self.cname else NS_II[cname] + '.'
        callstr = ' '.join([prefix + callee.name] + amb + ([this] if this else []) + argv)
        return self.result_of(callee, callstr, hint)

    def role(self, pname, r):
        if self.roles.setdefault(pname, r) != r:
            raise ExtractError('parameter %s is used both as a %s and as a %s' % (pname, self.roles[pname], r))

    # ---- expressions
    def ex(self, e, hint=None):
        k = e[0]
        if k == 'num':
            return W(INT('int'), str(e[1]))
        if k == 'bool':
            return W(INT('bool'), 'true' if e[1] else 'false')
        if k == 'nullptr':
            return W(PTR, 'none')
        if k == 'name':
            if e[2] is None and e[1] in self.env:
                return self.env[e[1]]
            raise ExtractError('unknown name %s' % e[1])
        if k == 'cast':
            return self.cast(e[1], e[2])
        if k == 'bin':
            return self.binop(e[1], self.ex(e[2]), self.ex(e[3]))
        if k == 'un':
            if is_this_deref(e):
                return W(('thisobj',), 'this')
            a = self.ex(e[2])
            if e[1] == '!' and a.ty == INT('bool'):
                return W(INT('bool'), '!%s' % paren(a.term))
            if e[1] == '*' and a.ty == CURSORPTR:
                self.need('c')
                return W(CURSOR, 'c')
            if e[1] == '&' and a.ty == CURSOR:
                return W(CURSORPTR, a.term)
            if e[1] == '&' and a.ty[0] == 'generic':
                self.role(a.term, 'cursor')
                return W(CURSORPTR, 'c')
            raise ExtractError('unary %s on a %s value' % (e[1], a.ty[0]))
        if k == 'call':
            return self.call(e, hint)
        if k == 'brace':
            if e[1] is None:
                raise ExtractError('untyped braced initialiser outside return')
            t = self.resolve(e[1])
            if t[0] == 'tag' and not e[2]:
                return W(t, e[1])
            return self.construct(t, e[2], hint)
        if k == 'member' and not e[3] and e[1][0] == 'name' and e[1][1] in getattr(self, 'cmp_objs', {}):
            f = FIELD_OF.get(self.cname, {}).get(e[2])
            if f is None:
                raise ExtractError('member %s has no counterpart in the model' % e[2])
            return W(MEMBERS_II[self.cname][e[2]][0], '%s.%s' % (self.cmp_objs[e[1][1]], f))
        raise ExtractError('expression form %s is not translated' % k)

    def cast(self, tyname, inner):
        t = self.resolve(tyname)
        if t == INT('size_t'):
            return W(t, self.nat(self.ex(inner)).term)
        if t in (INT('NT'), INT('BT')):
            if t == INT('BT'):
                raise ExtractError('conversion to the block length type is not modelled')
            self.need('w')
            if inner[0] == 'bin' and inner[1] in ('+', '-'):
                a, b = self.nat(self.ex(inner[2])), self.nat(self.ex(inner[3]))
                return W(t, '%s %s %s %s' % ('addIndex' if inner[1] == '+' else 'subIndex', self.w, paren(a.term), paren(b.term)))
            return W(t, 'castIndex %s %s' % (self.w, paren(self.nat(self.ex(inner)).term)))
        raise ExtractError('cast to %s' % tyname)

    def nat(self, v):
        if v.ty[0] in ('int', 'wrap') and v.ty != INT('bool'):
            return v
        raise ExtractError('a %s value is used as an integer' % (v.ty[0],))

    def binop(self, op, a, b):
        if op in ('&&', '||'):
            if a.ty != INT('bool') or b.ty != INT('bool'):
                raise ExtractError('%s on %s and %s' % (op, a.ty[0], b.ty[0]))
            return W(INT('bool'), '%s %s %s' % (paren(a.term), op, paren(b.term)))
        if a.ty == PTR and op == '+':
            return W(PTR, 'padd %s %s' % (paren(a.term), paren(self.nat(b).term)))
        if op in ('==', '!='):
            if a.ty == PTR and b.ty == PTR:
                t = 'peq %s %s' % (paren(a.term), paren(b.term))
                return W(INT('bool'), t if op == '==' else '!(%s)' % t)
            a, b = self.nat(a), self.nat(b)
            return W(INT('bool'), '%s %s %s' % (paren(a.term), op, paren(b.term)))
        a, b = self.nat(a), self.nat(b)
        if op in ('<', '<=', '>', '>='):
            return W(INT('bool'), 'decide (%s %s %s)' % (paren(a.term), {'<': '<', '<=': '≤', '>': '>', '>=': '≥'}[op], paren(b.term)))
        if op in ('+', '-', '*'):
            return W(INT('?'), '%s %s %s' % (paren(a.term), op, paren(b.term)))
        raise ExtractError('operator %s is not translated' % op)

    def call(self, e, hint):
        fn, args = e[1], e[2]
        if is_this_deref(fn) or (fn[0] == 'name' and fn[1] == 'operator()'):
            if not args or args[0][0] != 'brace' or not (args[0][1] or '').endswith('_tag') or args[0][2]:
                raise ExtractError('call of *this without a tag argument')
            tag = args[0][1]
            if self.is_group:
                if tag == 'addressof_tag' and len(args) == 1:
                    self.need('gaddr')
                    return W(PTR, 'some gaddr')
                if tag == 'end_ptr_tag' and len(args) == 1:
                    self.need('endp')
                    return W(ENDP, 'endp')
            elif self.cname == 'entry_base':
                if tag == 'addressof_tag' and len(args) == 1:
                    return W(PTR, 'some this.addr')
                if tag == 'end_ptr_tag' and len(args) == 1:
                    return W(ENDP, 'this.endp')
            return self.call_own(self.cname, tag[:-len('_tag')], args[1:], hint, this=None if self.is_group else 'this')
        if fn[0] == 'name':
            n = strip_ns(fn[1])
            if n == 'size_bytes' and len(args) == 1:
                v = self.ex(args[0])
                if v.ty != DIM:
                    raise ExtractError('sbepp::size_bytes of a %s value' % (v.ty[0],))
                self.need('dim')
                return W(INT('size_t'), 'headerSizeBytes dim %s' % v.term)
            if fn[2] is None and n not in self.env and self.has_method(n):
                return self.call_own(self.cname, self.ovl(n, args), args, hint, this=None if self.is_group else 'this')
            raise ExtractError('call of unknown function %s' % fn[1])
        if fn[0] == 'member':
            obj, name = fn[1], fn[2]
            if obj == ('this',) or is_this_deref(obj):
                return self.call_own(self.cname, self.ovl(name, args), args, hint, this=None if self.is_group else 'this')
            o = self.ex(obj)
            if o.ty == DIM and name in HEADER_FIELDS and not args:
                self.need('bo', 'buf', 'dim', 'gaddr')
                return W(('wrap', HEADER_FIELDS[name]), '%s bo buf dim gaddr %s' % (name, o.term))
            if o.ty[0] == 'wrap' and name == 'value' and not args:
                return W(INT(o.ty[1]), o.term)
            if o.ty[0] == 'crange':
                return self.call_own('cursor_range', name, args, hint, this=paren(o.term))
            if o.ty in (CURSOR,) and name == 'pointer' and not args:
                self.need('c')
                return W(PTR, 'c')
            if o.ty[0] == 'generic' and name == 'on_entry':
                return self.on_entry(o, args)
            raise ExtractError('member call .%s on a %s value' % (name, o.ty[0]))
        raise ExtractError('call form is not translated')

    def ovl(self, name, args):
        if name == 'cursor_subrange':
            return 'cursor_subrange%d' % (len(args) - 1)
        return name

    def on_entry(self, o, args):
        self.role(o.term, 'visitor')
        if len(args) != 2:
            raise ExtractError('on_entry with %d arguments' % len(args))
        en = self.ex(args[0])
        cu = self.ex(args[1])
        if en.ty != ENTRY:
            raise ExtractError('on_entry on a %s value' % (en.ty[0],))
        if cu.ty[0] == 'generic':
            self.role(cu.term, 'cursor')
        elif cu.ty != CURSOR:
            raise ExtractError('on_entry with a %s value as cursor' % (cu.ty[0],))
        self.needs.add('visit')
        self.stateful = True
        name = self.body.fresh()
        self.mon = True
        self.body.emit('let (%s, c, v) ← on_entry %s c v' % (name, en.term))
        return W(INT('bool'), name)

    def construct(self, t, args, hint=None):
        """`T{args}`: constructor call"""
        if t[0] == 'crange':
            return self.call_own('cursor_range', 'ctor', args, hint)
        if t[0] == 'citer':
            return self.call_own('input_iterator', 'ctor', args, hint)
        if t == ENTRY:
            if len(args) != 3:
                raise ExtractError('entry constructed from %d arguments' % len(args))
            first = self.ex(args[0])
            if first.ty == CURSOR:
                # `Entry{*cursor, end, block_length}`: Entry is the (generated) entry class; with declared members
                # it inherits the entry_base constructor from a cursor, without members it has its own
                callee = self.model.translate('entry_base', 'ctor_cursor')
                en, bl = self.ex(args[1]), self.nat(self.ex(args[2]))
                if en.ty not in (ENDP, PTR):
                    raise ExtractError('entry constructed with a %s value as end pointer' % (en.ty[0],))
                self.need('emptyCtor', 'c')
                name = self.body.fresh(hint)
                self.mon = True
                self.body.emit('let (%s, c) ← entryFromCursor emptyCtor Entry.%s c %s %s' % (
                    name, callee.name, paren(en.term), paren(bl.term)))
                self.cursor_moved = True
                return W(ENTRY, name)
            return self.call_own('entry_base', 'ctor_ptr', args, hint)
        if t == ('byterange',):
            raise ExtractError('byte_range outside a constructor initialiser')
        raise ExtractError('construction of a %s value is not translated' % (t[0],))

    # ---- statements
    def stmt(self, s):
        if self.returned:
            raise ExtractError('statement after return')
        k = s[0]
        if k == 'assert':
            self.need('endp')
            saved = self.body.lines
            self.body.lines = []
            self.body.ind += 1
            mon0 = self.mon
            try:
                v = self.ex(s[1])
                if v.ty != INT('bool'):
                    raise ExtractError('SBEPP_ASSERT of a %s value' % (v.ty[0],))
                inner = self.body.lines
            finally:
                self.body.lines = saved
                self.body.ind -= 1
            self.mon = True
            if not inner:
                self.body.emit('assertPre endp (pure %s)' % paren(v.term))
            else:
                self.body.emit('assertPre endp (do')
                self.body.lines += inner
                self.body.emit('pure %s)' % paren(v.term), self.body.ind + 1)
        elif k == 'sizecheck':
            b, en, o, z = [self.ex(a) for a in s[1]]
            if b.ty != PTR or en.ty != ENDP:
                raise ExtractError('SBEPP_SIZE_CHECK(%s, %s, ..)' % (b.ty[0], en.ty[0]))
            self.mon = True
            self.body.emit('SBEPP_SIZE_CHECK %s %s %s %s' % (paren(b.term), paren(en.term), paren(self.nat(o).term),
                                                          paren(self.nat(z).term)))
        elif k == 'decl':
            ty, name, init = s[1], s[2], s[3]
            t = ('auto',) if ty == 'auto' else self.resolve(ty)
            if t == DIM and init[0] == 'brace' and init[1] == ty:
                vs = [self.ex(a) for a in init[2]]
                if len(vs) != 2 or vs[0].term != 'some gaddr' or vs[1].term != 'endp':
                    raise ExtractError('a Dimension header over something else than the view\'s own [addr, end) is not representable')
                ln = self.body.fresh(name)
                self.body.emit('let %s := ()' % ln)
                self.env[name] = W(DIM, ln)
                return
            v = self.ex(init, hint=name)
            if not re.fullmatch(r'\w+', v.term):
                ln = self.body.fresh(name)
                self.body.emit('let %s := %s' % (ln, v.term))
                v = W(v.ty, ln)
            self.env[name] = v
        elif k == 'expr':
            e = s[1]
            if e[0] == 'voidcast':
                return
            if e[0] in ('post', 'un') and e[1] in ('++', '--') or e[0] == 'assign':
                self.assign(e)
                return
            self.ex(e)
        elif k == 'return':
            self.ret(s[1])
        elif k == 'block':
            for x in s[1]:
                self.stmt(x)
        elif k == 'if':
            c = self.ex(s[1])
            if c.ty != INT('bool'):
                raise ExtractError('if on a %s value' % (c.ty[0],))
            self.body.emit('if %s then' % c.term)
            self.body.ind += 1
            n0 = len(self.body.lines)
            for x in s[2]:
                self.stmt(x)
            if len(self.body.lines) == n0:
                self.body.emit('pure ()')
            r1 = self.returned
            self.returned = False
            self.body.ind -= 1
            r2 = False
            if s[3] is not None:
                self.body.emit('else')
                self.body.ind += 1
                n0 = len(self.body.lines)
                for x in s[3]:
                    self.stmt(x)
                if len(self.body.lines) == n0:
                    self.body.emit('pure ()')
                r2 = self.returned
                self.body.ind -= 1
            self.returned = r1 and r2
        elif k == 'rangefor':
            self.rangefor(s[1], s[2], s[3])
        else:
            raise ExtractError('statement form `%s` is not translated here' % k)

    def assign(self, e):
        """`index++` on a data member of an iterator"""
        tgt = e[2]
        if not (tgt[0] == 'name' and tgt[2] is None and tgt[1] in FIELD_OF.get(self.cname, {}) and tgt[1] not in self.locals):
            raise ExtractError('assignment to something else than a data member of the model')
        mem = tgt[1]
        mty = MEMBERS_II[self.cname][mem][0]
        cur = self.env[mem]
        if e[0] == 'assign':
            rhs = self.nat(self.ex(e[3]))
            if e[1] == '=':
                new = rhs.term
            elif e[1] in ('+=', '-=') and mty == INT('NT'):
                self.need('w')
                new = '%s %s %s %s' % ('addIndex' if e[1] == '+=' else 'subIndex', self.w, paren(cur.term), paren(rhs.term))
            else:
                raise ExtractError('%s on member %s' % (e[1], mem))
        else:
            if mty != INT('NT'):
                raise ExtractError('%s on member %s' % (e[1], mem))
            self.need('w')
            new = '%s %s %s 1' % ('addIndex' if e[1] == '++' else 'subIndex', self.w, paren(cur.term))
        f = FIELD_OF[self.cname][mem]
        self.body.emit('let this := { this with %s := %s }' % (f, new))

    def ret_tuple(self, term):
        return '(%s, c, v)' % term

    def ret(self, e):
        self.returned = True
        r = self.cret
        if e is None:
            raise ExtractError('return without a value')
        if self.in_loop:
            v = self.ex(e)
            self.body.emit('return (some %s, c, v)' % paren(v.term))
            return
        if is_this_deref(e):
            if r[0] not in ('citer', 'crange'):
                raise ExtractError('`return *this` in a function returning %s' % self.m.ret)
            self.emit_return('this')
            return
        if e[0] == 'brace' and e[1] is None:
            v = self.construct(r, e[2])
        else:
            v = self.ex(e)
        if r == DIM or r[0] in ('crange', 'citer') or r == ENTRY:
            if v.ty[0] != r[0]:
                raise ExtractError('returns a %s value, declared %s' % (v.ty[0], self.m.ret))
        elif r == INT('bool'):
            if v.ty != INT('bool'):
                raise ExtractError('returns a %s value, declared bool' % (v.ty[0],))
        elif r[0] in ('int', 'wrap'):
            self.nat(v)
        elif r == PTR:
            if v.ty != PTR:
                raise ExtractError('returns a %s value, declared pointer' % (v.ty[0],))
        else:
            raise ExtractError('return type %s' % self.m.ret)
        self.emit_return(v.term)

    def emit_return(self, term):
        if self.stateful:
            self.body.emit('return %s' % self.ret_tuple(term))
            return
        if getattr(self, 'cursor_moved', False):
            self.body.emit('return (%s, c)' % term)
            return
        lh = getattr(self, 'last_hoist', None)
        if lh and lh[0] == term and lh[2] == len(self.body.lines) - 1 and not lh[3]:
            self.body.lines.pop()
            self.body.emit(lh[1])
        elif self.mon:
            self.body.emit('return %s' % term)
        else:
            self.body.emit(term)

    def rangefor(self, name, rng, body):
        r = self.ex(rng)
        if r.ty[0] != 'crange' or not self.is_group:
            raise ExtractError('only a range-for over a cursor range inside a group class is translated here')
        it = {k: self.model.translate('input_iterator', k) for k in ('ne', 'inc', 'deref')}
        cr = {k: self.model.translate('cursor_range', k) for k in ('begin', 'end')}
        if not (it['ne'].pure and it['inc'].pure and cr['begin'].pure and cr['end'].pure) or it['deref'].pure:
            raise ExtractError('the iterator operations do not have the shape the range-for combinator expects')
        for o in list(it.values()) + list(cr.values()):
            self.needs |= {f for f in o.needs if f not in ('w', 'c')}
            if 'w' in o.needs:
                self.need('w')
        self.needs.add('visit')
        self.stateful = True

        def partial(ns, o):
            return paren(' '.join([ns + '.' + o.name] + callargs_ii(o, True)))
        ev = self.body.fresh(name)
        self.mon = True
        self.body.emit('let (ret, c, v) ← forRange %s %s %s %s (fun %s c v => do' % (
            partial('InputIt', it['ne']), partial('InputIt', it['inc']), partial('InputIt', it['deref']),
            paren(' '.join(['CursorRange.' + cr['end'].name] + callargs_ii(cr['end'], True) + [paren(r.term)])), ev))
        saved_env = dict(self.env)
        self.env[name] = W(ENTRY, ev)
        self.body.ind += 2
        self.in_loop = True
        try:
            for x in body:
                self.stmt(x)
            if not self.returned:
                self.body.emit('return (none, c, v)')
            self.body.lines[-1] += ') fuel %s c v' % paren(' '.join(['CursorRange.' + cr['begin'].name] + callargs_ii(cr['begin'], True) + [paren(r.term)]))
        finally:
            self.body.ind -= 2
            self.in_loop = False
            self.env = saved_env
            self.returned = False
        self.body.emit('if let some r := ret then')
        self.body.emit('return (r, c, v)', self.body.ind + 1)

    # ---- whole method
    def run(self):
        m = self.m
        out = MethodOut()
        out.ns, out.line, out.text = NS_II[self.cname], m.line, m.text
        out.name = lean_name(self.key)
        self.locals = set()
        self.last_hoist = None
        self.all_params = []
        if m.is_ctor:
            return self.run_ctor(out)
        # `this` and the data members
        if not self.is_group:
            for mem, (mty, proj) in MEMBERS_II[self.cname].items():
                if proj is not None:
                    self.env[mem] = W(mty, proj)
                elif mty == CURSORPTR:
                    self.env[mem] = W(CURSORPTR, 'c')
                elif mty == PTR:
                    self.env[mem] = W(ENDP, 'endp')
            decl = sorted((n, self.resolve(t)) for t, n in self.model.variants['chk'][self.cname].members)
            want = sorted((n, t) for n, (t, _) in MEMBERS_II[self.cname].items())
            if decl != want:
                raise ExtractError('%s: data members %r, the model has %r' % (self.cname, decl, want))
        cmp_friend = m.is_friend and len(m.params) == 2
        if cmp_friend:
            self.cmp_objs = {}
            names = []
            for ty, pname in m.params:
                if re.sub(r'<.*>$', '', ty.rstrip('&')) != self.cname or pname is None:
                    raise ExtractError('comparison parameter `%s %s`' % (ty, pname))
                ln = lean_ident(pname, self.body.used)
                self.body.used.add(ln)
                self.cmp_objs[pname] = ln
                names.append(ln)
            self.env = {}
            self.tail_binders.append('(%s : %s)' % (' '.join(names), THIS_TY[self.cname]))
        else:
            for ty, pname in m.params:
                t = self.resolve(ty)
                if t[0] == 'tag':
                    continue
                if pname is None:
                    raise ExtractError('unnamed parameter of type %s' % ty)
                if t == CURSOR:
                    self.env[pname] = W(CURSOR, 'c')
                    self.all_params.append((pname, CURSOR, False))
                elif t[0] in ('tparam', 'unknown'):
                    self.env[pname] = W(('generic', pname), pname)
                    self.all_params.append((pname, ('generic',), False))
                elif t[0] == 'int' and t != INT('bool'):
                    ln = lean_ident(pname, self.body.used)
                    self.body.used.add(ln)
                    self.env[pname] = W(t, ln)
                    self.all_params.append((ln, t, True))
                    self.tail_binders.append('(%s : Nat)' % ln)
                else:
                    raise ExtractError('parameter `%s %s` has no model-II type' % (ty, pname))
        self.cret = self.resolve(m.ret)
        if self.cret[0] == 'unknown':
            raise ExtractError('return type %s is not understood' % m.ret)
        for s in Parser(m.body).statements():
            self.stmt(s)
        if not self.returned:
            raise ExtractError('control reaches the end of a non-void function')
        out.needs = set(self.needs)
        if not self.is_group and not cmp_friend:
            self.tail_binders.insert(0, '(this : %s)' % THIS_TY[self.cname])
        out.tail_binders = self.tail_binders
        r = self.cret
        lean_ret = {'dim': 'Unit', 'crange': 'Range', 'citer': 'InIter', 'entry': 'LView', 'ptr': 'Ptr'}.get(r[0])
        if r == INT('bool'):
            lean_ret = 'Bool'
        elif r[0] in ('int', 'wrap'):
            lean_ret = 'Nat'
        if lean_ret is None:
            raise ExtractError('return type %s' % m.ret)
        if self.stateful:
            lean_ret = '(%s × Ptr × σ)' % lean_ret
        elif getattr(self, 'cursor_moved', False):
            lean_ret = '(%s × Ptr)' % lean_ret
        out.pure = not self.mon
        out.ret = lean_ret if out.pure else 'Out %s' % lean_ret
        out.lines, out.cret, out.all_params = self.body.lines, r, self.all_params
        out.binders = binders_ii(out)
        return out

    def run_ctor(self, out):
        """constructors: `cursor_range(...)`, `input_iterator(...)`, `entry_base(ptr, end, bl)`,
        `entry_base(cursor&, end, bl)`"""
        m = self.m
        pinfo = []
        for ty, pname in m.params:
            t = self.resolve(ty)
            if pname is None:
                raise ExtractError('unnamed constructor parameter')
            pinfo.append((pname, t))
        for s in Parser(m.body).statements():
            if not (s[0] == 'expr' and s[1][0] == 'voidcast'):
                raise ExtractError('a statement in the constructor body is not translated')
        used = set()
        if self.cname == 'entry_base':
            # parameters: a pointer or the cursor, the end pointer, the block length: all carried
            for pname, t in pinfo:
                ln = lean_ident(pname, used)
                used.add(ln)
                if t == CURSOR:
                    self.env[pname] = W(CURSOR, ln)
                    self.all_params.append((ln, PTR, True))
                    self.tail_binders.append('(%s : Ptr)' % ln)
                elif t == PTR and len(self.all_params) == 0:
                    self.env[pname] = W(PTR, ln)
                    self.all_params.append((ln, PTR, True))
                    self.tail_binders.append('(%s : Ptr)' % ln)
                elif t == PTR:
                    self.env[pname] = W(ENDP, ln)
                    self.all_params.append((ln, ENDP, True))
                    self.tail_binders.append('(%s : Option Nat)' % ln)
                elif t[0] == 'int':
                    self.env[pname] = W(t, ln)
                    self.all_params.append((ln, t, True))
                    self.tail_binders.append('(%s : Nat)' % ln)
                else:
                    raise ExtractError('constructor parameter %s of type %r' % (pname, t))
            inits = m.inits
            if len(inits) == 1 and inits[0][0] == self.cname:
                # delegating constructor
                args = [Parser(a).expr() for a in inits[0][1]]
                vs = []
                for a in args:
                    if a[0] == 'call' and a[1][0] == 'member' and a[1][2] == 'pointer' and not a[2]:
                        o = self.ex(a[1][1])
                        if o.ty != CURSOR:
                            raise ExtractError('.pointer() on a %s value' % (o.ty[0],))
                        vs.append(W(PTR, o.term))
                    else:
                        vs.append(self.ex(a))
                callee = self.model.translate('entry_base', 'ctor_ptr')
                if len(vs) != 3 or vs[0].ty != PTR or vs[1].ty not in (ENDP, PTR) or vs[2].ty[0] != 'int':
                    raise ExtractError('delegation to entry_base{%s}' % ', '.join(v.ty[0] for v in vs))
                self.body.emit(' '.join([callee.name] + [paren(v.term) for v in vs]))
                self.mon = not callee.pure
            else:
                bases = {i[0]: i[1] for i in inits}
                br = [k for k in bases if k.startswith('byte_range')]
                if len(br) != 1 or sorted(k for k in bases if k not in br) != ['block_length']:
                    raise ExtractError('entry_base constructor initialises %r' % sorted(bases))
                a = [self.ex(Parser(x).expr()) for x in bases[br[0]]]
                bl = [self.ex(Parser(x).expr()) for x in bases['block_length']]
                if len(a) != 2 or a[0].ty != PTR or a[1].ty not in (ENDP, PTR) or len(bl) != 1 or bl[0].ty[0] != 'int':
                    raise ExtractError('entry_base constructor: byte_range{%s}, block_length{%s}' % (
                        ', '.join(v.ty[0] for v in a), ', '.join(v.ty[0] for v in bl)))
                self.body.emit('mkEntry %s %s %s' % (paren(a[0].term), paren(a[1].term), paren(bl[0].term)))
                self.mon = True
            out.tail_binders = self.tail_binders
            out.needs = set()
            out.pure = False
            out.ret = 'Out LView'
            out.lines, out.cret, out.all_params = self.body.lines, ENTRY, self.all_params
            out.binders = binders_ii(out)
            out.as_term = True
            return out
        # cursor_range / input_iterator: the model carries the integer members only
        fields = FIELD_OF[self.cname]
        for pname, t in pinfo:
            ln = lean_ident(pname, used)
            used.add(ln)
            if t[0] == 'int':
                self.env[pname] = W(t, ln)
                self.all_params.append((ln, t, True))
                self.tail_binders.append('(%s : Nat)' % ln)
            elif t in (CURSOR, CURSORPTR):
                self.env[pname] = W(t, 'c')
                self.all_params.append((ln, t, False))
            elif t == PTR:
                self.env[pname] = W(ENDP, 'endp')
                self.all_params.append((ln, PTR, False))
            else:
                raise ExtractError('constructor parameter %s of type %r' % (pname, t))
        members = MEMBERS_II[self.cname]
        got = {}
        for mem, args, _ in m.inits:
            if mem not in members:
                raise ExtractError('initialiser of unknown member %s' % mem)
            if len(args) != 1:
                raise ExtractError('member %s initialised with %d arguments' % (mem, len(args)))
            v = self.ex(Parser(args[0]).expr())
            mty = members[mem][0]
            if mem in fields:
                got[mem] = self.nat(v).term
            elif mty == CURSORPTR:
                if v.ty != CURSORPTR or v.term != 'c':
                    raise ExtractError('member %s is not initialised with the cursor parameter' % mem)
                got[mem] = None
            elif mty == PTR:
                if v.term != 'endp':
                    raise ExtractError('member %s is not initialised with the end pointer parameter' % mem)
                got[mem] = None
        want = set(members) - ({m2 for m2, (t2, _) in members.items() if t2 == PTR} if self.variant == 'unc' else set())
        if set(got) != want:
            raise ExtractError('constructor initialises %r, the members are %r' % (sorted(got), sorted(want)))
        order = [mem for mem, _, _ in m.inits if mem in fields]
        self.body.emit('{ %s }' % ', '.join('%s := %s' % (fields[mem], got[mem]) for mem in order))
        out.tail_binders = self.tail_binders
        out.needs = set()
        out.pure = True
        out.ret = THIS_TY[self.cname]
        out.lines, out.all_params = self.body.lines, self.all_params
        out.cret = ('crange',) if self.cname == 'cursor_range' else ('citer',)
        out.binders = binders_ii(out)
        return out


# ------------------------------------------------------------------ output

HEADER = '''-- GENERATED by /verif/extract/methods_group.py from %(hpp)s on every check run. Do not edit.
--
-- %(what)s
-- translated statement by statement from the C++ text.  Target language: %(dsl)s.  Tie: %(tie)s.
-- C++ typing facts assumed by the translator:
%(facts)s
import %(imp)s

set_option linter.unusedVariables false

'''

WHAT_I = ('One definition per member function of detail::flat_group_base, detail::nested_group_base (container part),\n'
          '-- detail::forward_iterator, constructor / operator* of detail::random_access_iterator, and the SBEPP_SIZE_CHECK macro,')
FACTS_I = '''--  * Byte* = .ptr (signed 64-bit offset, nullptr = 0), std::size_t = .u64, size_type = NT, block length type = BT,
--    difference_type = diffTy NT, integer literals are int; which template argument of an iterator template is the
--    index / block length type is read from the `using iterator = ...` alias of the group class
--  * arguments are converted to the declared parameter type (`.decl` for constructor parameters, `CVal.conv` at the
--    entry of a member function); `return e` converts unless `e` has exactly the declared type
--  * a Dimension header object is only constructed over the view's own [addr, end); its generated accessors are
--    modelled by what they read (hdr = size_bytes, num = numInGroup().value(), bl = blockLength().value()), the
--    numInGroup(v) setter by what it writes
--  * SBEPP_ASSERT / SBEPP_SIZE_CHECK are enabled together with SBEPP_SIZE_CHECKS_ENABLED (`chk`); the argument of a
--    disabled assertion is not evaluated; `#if SBEPP_SIZE_CHECKS_ENABLED` regions are translated for both settings;
--    the `end` data member of an iterator exists only with size checks and is read only inside them
--  * sbepp::size_bytes(entry) = esize (address of the entry; an entry view is its address); loops carry `fuel`
--  * `++ -- + - []` and the comparisons of random_access_iterator are the kernel wrappers of Rt/Iter.lean'''
WHAT_II = ('One definition per cursor-range member function of detail::flat_group_base / detail::nested_group_base (with the\n'
           '-- header accessors they call), of detail::cursor_range, detail::input_iterator and the entry_base constructors /\n'
           '-- accessors the iterators use,')
FACTS_II = '''--  * Byte* = Option Nat (none = nullptr), sizes and positions = Nat; checks are enabled exactly when the view's end
--    pointer `endp` is `some _`; `#if SBEPP_SIZE_CHECKS_ENABLED` regions are translated for both settings
--  * the group header is read from `buf` at `gaddr` through the dimension description `dim`; a Dimension header
--    object is only constructed over the view's own [addr, end)
--  * size_type arithmetic in Nat (`a - b` truncated: exact under the preceding SBEPP_ASSERT(pos < size())), the explicit
--    conversions static_cast<size_type>(a - b) / static_cast<IndexType>(a + b) / index++ wrap at
--    2 ^ (8 * sizeof(size_type)) (`w` / `indexBits dim`)
--  * a range / iterator refers to the ambient cursor `c` and end pointer `endp` (handing on anything else is rejected);
--    an entry object is the `LView` of its block; an entry class without members has the generated constructor
--    (`emptyCtor`); a visitor is its `on_entry` callback; loops carry `fuel`'''


def extract(repo, outdir):
    # keys of `methods` / `failed`: 'I:<class>::<member>' (model I), 'II:<class>::<member>' (model II), '<class>' (the
    # class could not be scanned), 'SBEPP_SIZE_CHECK', 'model-I', 'model-II'
    report = {'source': HPP, 'methods': {}, 'failed': {}}
    path = os.path.join(repo, HPP)
    try:
        raw = open(path, encoding='utf-8').read()
    except OSError as e:
        report['failed']['sbepp.hpp'] = str(e)
        return report
    src = cxx.strip_comments(raw)
    variants = load_classes(src, report)
    types = Types(variants['chk'])
    parts = []

    def failed(name, ex):
        report['failed'][name] = str(ex)
        return '-- EXTRACTION FAILED: %s: %s\n' % (name, str(ex).replace('\n', ' '))

    def emit_model(model, keys, nsmap, tag):
        for cname in keys:
            if cname not in variants['chk']:
                continue
            for key in keys[cname]:
                try:
                    model.translate(cname, key)
                except ERRS:
                    pass
        # definitions grouped in consecutive runs of the same class, in completion order (callees first)
        runs = []
        for cname, key in model.order:
            if runs and runs[-1][0] == cname:
                runs[-1][1].append(key)
            else:
                runs.append((cname, [key]))
        for cname, ks in runs:
            defs = []
            for key in ks:
                r = model.done[(cname, key)]
                if isinstance(r, ExtractError):
                    defs.append(failed('%s:%s::%s' % (tag, cname, key), r))
                    continue
                defs.append(render_def(r, cname))
                report['methods']['%s:%s::%s' % (tag, cname, key)] = {
                    'line': r.line, 'lean': '%s.%s.%s' % (LEAN_NS, nsmap[cname], r.name),
                    'term_sha': hashlib.sha256(('\n'.join(r.lines) + r.binders + r.ret).encode()).hexdigest()[:12]}
            parts.append('namespace %s\n\n%s\nend %s\n' % (nsmap[cname], '\n'.join(defs), nsmap[cname]))

    # ---- model I
    parts.append('/-! ## model I: `Rt/Iter.lean` -/\nnamespace %s\nopen Sbepp Sbepp.Rt Sbepp.Rt.GroupDsl\n' % LEAN_NS)
    try:
        mtext, mparams, mbody = translate_macro(src)
        parts.append('namespace Macro\n\n%s\nend Macro\n' % mtext)
        report['methods']['SBEPP_SIZE_CHECK'] = {'lean': LEAN_NS + '.Macro.SBEPP_SIZE_CHECK', 'text': mbody}
    except ERRS as ex:
        parts.append(failed('SBEPP_SIZE_CHECK', ex))
    try:
        m1 = ModelI(types, variants, report)
        emit_model(m1, KEYS_I, NS_I, 'I')
    except ERRS as ex:
        parts.append(failed('model-I', ex))
    parts.append('end %s\n' % LEAN_NS)
    text1 = HEADER % {'hpp': HPP, 'what': WHAT_I, 'facts': FACTS_I, 'imp': 'Sbepp.Rt.GroupDsl',
                      'dsl': 'Sbepp/Rt/GroupDsl.lean over Sbepp/Rt/Iter.lean',
                      'tie': 'Sbepp/Lemmas/GroupTie.lean'} + '\n'.join(parts)
    # ---- model II (a module of its own: the schema layer's `Sbepp.Group` must not enter the modules about `Sbepp.Rt.Group`)
    parts[:] = []
    parts.append('/-! ## model II: `Rt/Cursor.lean` -/\nnamespace %s\n'
                 'open Sbepp Sbepp.Gen Sbepp.Cursor Sbepp.Rt.Cursor Sbepp.Rt.Cursor.Dsl Sbepp.Rt.Cursor.GroupDsl\n' % LEAN_NS)
    try:
        m2 = ModelII(types, variants, report)
        emit_model(m2, KEYS_II, NS_II, 'II')
    except ERRS as ex:
        parts.append(failed('model-II', ex))
    parts.append('end %s\n' % LEAN_NS)
    text2 = HEADER % {'hpp': HPP, 'what': WHAT_II, 'facts': FACTS_II, 'imp': 'Sbepp.Rt.GroupCursorDsl',
                      'dsl': 'Sbepp/Rt/GroupCursorDsl.lean over Sbepp/Rt/Cursor.lean',
                      'tie': 'Sbepp/Lemmas/GroupCursorTie.lean'} + '\n'.join(parts)
    if outdir:
        write_if_changed(os.path.join(outdir, 'GroupMethods.lean'), text1)
        write_if_changed(os.path.join(outdir, 'GroupCursorMethods.lean'), text2)
    report['sha256'] = hashlib.sha256(raw.encode()).hexdigest()
    return report


if __name__ == '__main__':
    import json
    import sys
    rep = extract(sys.argv[1] if len(sys.argv) > 1 else '/repo', sys.argv[2] if len(sys.argv) > 2 else None)
    print(json.dumps(rep['failed'], indent=1))
