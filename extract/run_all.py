"""Run every extractor against the repository's current working tree."""
import hashlib
import json
import os

from . import kernels, kernels_group, tables, guards, unchecked_sites, nondet_sources, cursor_sites, size_checks, gen_templates


def run(repo, outdir):
    report = {'failed': {}, 'parts': {}}
    for name, mod in (('kernels', kernels), ('kernels_group', kernels_group), ('tables', tables), ('guards', guards), ('unchecked_sites', unchecked_sites),
                      ('nondet_sources', nondet_sources), ('cursor_sites', cursor_sites), ('size_checks', size_checks), ('gen_templates', gen_templates)):
        r = mod.extract(repo, outdir)
        report['parts'][name] = r
        for k, v in r.get('failed', {}).items():
            report['failed']['%s.%s' % (name, k)] = v
    report['digest'] = hashlib.sha256(json.dumps(report['parts'], sort_keys=True).encode()).hexdigest()[:16]
    with open(os.path.join(outdir, 'extract_report.json'), 'w') as f:
        json.dump(report, f, indent=1, sort_keys=True)
    return report
