"""Run every extractor against the repository's current working tree."""
import hashlib
import json
import os

from . import kernels, kernels_group, tables, guards, unchecked_sites, nondet_sources, cursor_sites, size_checks, gen_templates

from . import methods_dynarray
from . import methods_cursor
from . import methods_staticarray
from . import methods_checked
from . import methods_optional
from . import validator_layout
from . import methods_group


def run(repo, outdir):
    report = {'failed': {}, 'parts': {}}
    for name, mod in (('kernels', kernels), ('kernels_group', kernels_group), ('tables', tables), ('guards', guards), ('unchecked_sites', unchecked_sites),
                      ('nondet_sources', nondet_sources), ('cursor_sites', cursor_sites), ('size_checks', size_checks), ('gen_templates', gen_templates), ('methods_dynarray', methods_dynarray), ('methods_cursor', methods_cursor), ('methods_staticarray', methods_staticarray), ('methods_checked', methods_checked), ('methods_optional', methods_optional), ('validator_layout', validator_layout), ('methods_group', methods_group)):
        r = mod.extract(repo, outdir)
        report['parts'][name] = r
        for k, v in r.get('failed', {}).items():
            report['failed']['%s.%s' % (name, k)] = v
    report['digest'] = hashlib.sha256(json.dumps(report['parts'], sort_keys=True).encode()).hexdigest()[:16]
    with open(os.path.join(outdir, 'extract_report.json'), 'w') as f:
        json.dump(report, f, indent=1, sort_keys=True)
    return report
