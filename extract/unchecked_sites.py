"""Unchecked-access sites of sbeppc (property C09).

Scans every source file of `sbeppc/src/sbepp/sbeppc` for constructs that abort,
throw something other than `sbe_error`, or are undefined behaviour when their
precondition does not hold:

  at          `.at(` / `->at(`                      (std::out_of_range)
  get         `std::get<` on a variant              (std::bad_variant_access)
  getif       result of `std::get_if<` dereferenced without a test in between
  ptrderef    result of a function of these sources that returns a pointer (`get_encoding`,
              `find_composite_element`, ...) dereferenced without a test: `*f(..)`, `f(..)->`,
              or `x = f(..)` followed by `*x` / `x->` with no test of x in between
  optderef    `*x` / `x->` on a `std::optional`     (UB / libstdc++ assertion)
  optvalue    `.value()`                            (std::bad_optional_access)
  assert      `assert(`                             (abort in checked builds)
  index       `x[<integer literal>]`                (UB when out of range)
  frontback   `.front()` / `.back()`                (UB on empty)
  strto       std::stoi family / strtol / strtof... (throws / errno protocol)
  resize      `.resize(` with a value computed from input (length_error/bad_alloc)
  substr      `.substr(` / `.remove_prefix(` / `.remove_suffix(`  (out_of_range / UB when pos > size())
  popback     `.pop_back()`                          (UB on empty)
  rtfmt       a run-time string used as a {fmt} format string (fmt::format_error)
  recursion   a function on a cycle of the (name level) call graph

and writes `Sbepp/Extracted/UncheckedSites.lean`:

  def uncheckedSites : List Site      -- Site = (file, function, kind, line, text)

`text` is the normalised source line; when the same (file, function, kind,
text) occurs more than once the later ones get the suffix ` #2`, ` #3`... so
that a *duplicated* access is a new site.  The Lean side keys its table on
(file, function, kind, text) -- not on the line number -- so that unrelated
edits do not disturb it, while every new access does.

Python stdlib only.  Same interface as the other extractors.
"""
import hashlib
import os
import re

from .kernels import write_if_changed

SRC_DIR = 'sbeppc/src/sbepp/sbeppc'

# --------------------------------------------------------------------- lexing


def blank(src):
    """Comments removed, contents of string / char / raw-string literals
    replaced by spaces (delimiters and newlines kept): brace and parenthesis
    structure of the result is that of the code."""
    out = []
    i, n = 0, len(src)
    while i < n:
        c = src[i]
        if c == '/' and src.startswith('//', i):
            j = src.find('\n', i)
            j = n if j < 0 else j
            out.append(' ' * (j - i))
            i = j
        elif c == '/' and src.startswith('/*', i):
            j = src.find('*/', i + 2)
            j = n - 2 if j < 0 else j
            out.append(''.join(ch if ch == '\n' else ' ' for ch in src[i:j + 2]))
            i = j + 2
        elif c == 'R' and src.startswith('R"', i) and (i == 0 or not (src[i - 1].isalnum() or src[i - 1] == '_')):
            k = src.find('(', i)
            delim = src[i + 2:k]
            end = src.find(')' + delim + '"', k)
            end = n if end < 0 else end
            out.append('R"' + ' ' * (k - i - 2) + '(')
            out.append(''.join(ch if ch == '\n' else ' ' for ch in src[k + 1:end]))
            out.append(')' + ' ' * len(delim) + '"')
            i = end + len(delim) + 2
        elif c == '"' or c == "'":
            # digit separator 1'000 does not occur in these sources
            j = i + 1
            while j < n and src[j] != c:
                if src[j] == '\\':
                    j += 1
                j += 1
            out.append(c + ' ' * (j - i - 1) + c)
            i = j + 1
        else:
            out.append(c)
            i += 1
    return ''.join(out)


SCOPE_RE = re.compile(r'^(?:template\s*<[^{}]*>\s*)?(?:inline\s+)?(namespace|class|struct|union|enum)\b')
NAME_BEFORE_PAREN = re.compile(r'([A-Za-z_~][\w]*|operator\s*[^\s(]+|operator\s*\(\s*\))\s*$')
CONTROL = {'if', 'for', 'while', 'switch', 'catch', 'return', 'sizeof', 'decltype', 'static_assert', 'alignof',
           'noexcept', 'defined', 'assert'}


def top_level_paren(header):
    """Index of the first '(' that is not nested inside <...> of a template
    argument list (cheap: counts only <> directly following an identifier)."""
    depth = 0
    for i, ch in enumerate(header):
        if ch == '(' and depth == 0:
            return i
        # no template-heavy signatures before the name in these sources
    return -1


def functions(code):
    """Yield (name, body_start, body_end, line) for every function definition
    (free, member, constructor incl. its member initialisers).  Nested lambdas
    and local blocks belong to the enclosing function."""
    res = []
    stack = []          # entries: ('scope'|'fn'|'other', name, start)
    n = len(code)
    i = 0
    seg_start = 0       # start of the current declaration header at non-fn scope
    pending = None      # constructor whose initialiser list is being scanned
    in_fn = 0
    while i < n:
        c = code[i]
        if c == '{':
            if in_fn:
                stack.append(('other', None, i))
            else:
                header = code[seg_start:i].strip()
                m = SCOPE_RE.match(header)
                p = header.find('(')
                if m and (p < 0 or m.group(1) in ('namespace',)):
                    stack.append(('scope', None, i))
                elif m and p >= 0 and not re.search(r'\)\s*(const|override|noexcept|final|\s)*(->[^{;]*)?$', header):
                    stack.append(('scope', None, i))
                elif pending and (header == '' or header.startswith(',')):
                    stack.append(('fn', pending, i))
                    in_fn += 1
                elif p >= 0:
                    nm = NAME_BEFORE_PAREN.search(header[:p])
                    name = re.sub(r'\s+', '', nm.group(1)) if nm else '?'
                    if name in CONTROL:
                        stack.append(('other', None, i))
                    else:
                        stack.append(('fn', name, i))
                        in_fn += 1
                else:
                    stack.append(('other', None, i))
            pending = None
        elif c == '}':
            if stack:
                kind, name, start = stack.pop()
                if kind == 'fn':
                    in_fn -= 1
                    res.append((name, start, i, code.count('\n', 0, start) + 1))
                    if not in_fn:
                        # constructor initialiser list continues?
                        j = i + 1
                        while j < n and code[j].isspace():
                            j += 1
                        hdr = code[seg_start:start]
                        if j < n and code[j] in ',{' and re.search(r'\)\s*(noexcept\s*)?:\s*[\w:]+\s*(<[^{}]*>)?\s*$|^\s*,\s*[\w:]+\s*$', hdr):
                            pending = name
                if not in_fn:
                    seg_start = i + 1
        elif c == ';' and not in_fn:
            seg_start = i + 1
            pending = None
        elif c == ':' and not in_fn and code[i - 1] != ':' and (i + 1 < n and code[i + 1] != ':'):
            # access specifier `public:` ends a header segment
            if re.search(r'\b(public|private|protected)\s*$', code[seg_start:i]):
                seg_start = i + 1
        i += 1
    # merge the pieces of one constructor (initialisers + body) under one name:
    # callers only need (name, start, end) ranges, several ranges per name are fine
    return sorted(res, key=lambda r: r[1])


# --------------------------------------------------------------------- optionals

OPT_DECL = re.compile(r'std::optional<[^;{}()]*?>\s*(?:&\s*)?(\w+)\s*(?:[;,){=]|\{)')
OPT_FN = re.compile(r'std::optional<[^;{}()]*?>\s*\n?\s*(\w+)\s*\(')


def optional_names(codes):
    """Names declared with an optional type anywhere in the sources (struct
    members, parameters, locals), and names of functions returning optional."""
    names, fns = set(), set()
    for code in codes.values():
        for m in OPT_DECL.finditer(code):
            names.add(m.group(1))
        for m in OPT_FN.finditer(code):
            fns.add(m.group(1))
    names -= fns
    names -= {'const', 'get'}
    return names, fns


def optional_locals(body, opt_fns):
    """Locals initialised from a call to a function returning optional."""
    out = set()
    for m in re.finditer(r'\b(?:const\s+)?auto\s*(?:&\s*)?(\w+)\s*=\s*(?:[\w:.>-]*?)(\w+)\s*(?:<[^;()]*>)?\s*\(', body):
        if m.group(2) in opt_fns:
            out.add(m.group(1))
    return out


# --------------------------------------------------------------------- sites

def norm(s):
    return re.sub(r'\s+', ' ', s).strip()


def statement_around(raw_lines, line):
    """The source line (1-based), normalised; long lines cut."""
    t = norm(raw_lines[line - 1]) if 0 < line <= len(raw_lines) else ''
    return t[:110]


SIMPLE = [
    ('at', re.compile(r'(?:\.|->)at\s*\(')),
    ('get', re.compile(r'\bstd::get\s*<')),
    ('optvalue', re.compile(r'(?:\.|->)value\s*\(\s*\)')),
    ('assert', re.compile(r'(?<![\w])assert\s*\(')),
    ('index', re.compile(r'(?<=[\w\)\]])\s*\[\s*\d+\s*\]')),
    ('frontback', re.compile(r'(?:\.|->)(?:front|back)\s*\(\s*\)')),
    ('strto', re.compile(r'\b(?:std::)?(?:sto(?:i|l|ll|ul|ull|f|d|ld)|strto(?:l|ll|ul|ull|f|d|ld|imax|umax)|ato(?:i|l|ll|f))\s*\(')),
    ('resize', re.compile(r'(?:\.|->)resize\s*\(')),
    ('substr', re.compile(r'(?:\.|->)(?:substr|remove_prefix|remove_suffix)\s*\(')),
    ('popback', re.compile(r'(?:\.|->)pop_back\s*\(\s*\)')),
]


def find_getif_derefs(body, base):
    """`x = std::get_if<..>(..)` followed by `*x` / `x->` with no test of x in
    between; and direct `std::get_if<..>(..)->` / `*std::get_if`."""
    out = []
    for m in re.finditer(r'\b(\w+)\s*=\s*std::get_if\s*<', body):
        var = m.group(1)
        if re.search(r'\bif\s*\(\s*(?:const\s+)?auto\s*\*?\s*$', body[:m.start(1)]):
            continue        # `if(auto x = std::get_if<..>(..))` is the test
        rest = body[m.end():]
        d = re.search(r'(?<![\w.>])\*\s*%s\b|\b%s\s*->' % (var, var), rest)
        if not d:
            continue
        between = rest[:d.start()]
        tested = re.search(r'[!(]\s*%s\s*[)&|]|\b%s\s*(?:\?|&&|\|\||[!=]=)|if\s*\(\s*!?\s*%s\b' % (var, var, var), between)
        if not tested:
            out.append(base + m.end() + d.start())
    for m in re.finditer(r'\*\s*std::get_if\s*<|std::get_if\s*<[^;]*?\)\s*->', body):
        out.append(base + m.start())
    return out


PTR_FN = re.compile(r'\*\s*\n?\s*(\w+)\s*\(\s*(?:const\b|std::|sbe::|[A-Za-z_][\w:<>]*\s*[&*]?\s*\w+\s*[,)]|\))')


def pointer_functions(codes):
    """names of functions defined in the sources whose return type is a pointer"""
    out = set()
    for code in codes.values():
        for m in re.finditer(r'(?:const\s+)?[\w:]+(?:<[^;{}()]*>)?\s*\*\s*\n?\s*(\w+)\s*\([^;{}]*\)\s*(?:const\s*)?(?:noexcept\s*)?\{', code):
            out.add(m.group(1))
    return out - {'if', 'for', 'while', 'switch', 'return'}


def find_ptr_derefs(body, base, fns):
    out = []
    if not fns:
        return out
    alt = '|'.join(sorted(map(re.escape, fns)))
    call = r'(?:\b\w+\s*(?:::|\.|->)\s*)*\b(?:%s)\s*\(' % alt
    # direct: *f(...)   f(...)->
    for m in re.finditer(r'(?<![\w\)\]])\*\s*' + call, body):
        out.append(base + m.start())
    for m in re.finditer(call, body):
        try:
            close = match_paren(body, m.end() - 1)
        except ValueError:
            continue
        if re.match(r'\s*->', body[close + 1:close + 6]):
            out.append(base + m.start())
    # through a variable
    for m in re.finditer(r'\b(\w+)\s*=\s*' + call, body):
        var = m.group(1)
        if re.search(r'\bif\s*\(\s*(?:const\s+)?auto\s*\*?\s*$', body[:m.start(1)]):
            continue
        rest = body[m.end():]
        d = re.search(r'(?<![\w.>])\*\s*%s\b(?!\s*\()|\b%s\s*->' % (var, var), rest)
        if not d:
            continue
        between = rest[:d.start()]
        tested = re.search(r'!\s*%s\b|\bif\s*\(\s*%s\s*[)&|]|\b%s\s*(?:\?|&&|\|\||[!=]=)|assert\s*\(\s*%s\s*[)&]' % (var, var, var, var), between)
        if not tested:
            out.append(base + m.end() + d.start())
    return sorted(set(out))


def find_opt_derefs(body, base, names):
    out = []
    if not names:
        return out
    alt = '|'.join(sorted(map(re.escape, names), key=len, reverse=True))
    # unary star: previous significant char is not an identifier char, ')' or ']'
    star = re.compile(r'(?<![\w\)\]\s])\s*\*\s*((?:\w+\s*(?:\.|->)\s*)*?)(%s)\b(?!\s*(?:\(|\.|->|<))' % alt)
    for m in star.finditer(body):
        # exclude declarations such as `const sbe::type* length_type`
        before = body[max(0, m.start() - 1):m.start() + 1]
        out.append(base + m.start(2))
    # binary-looking star directly after '(' ',' '=' 'return' etc. is covered by
    # the lookbehind; a star after whitespace needs the previous token
    star2 = re.compile(r'([=(,!&|?:{<>+-]|\breturn)\s+\*\s*((?:\w+\s*(?:\.|->)\s*)*?)(%s)\b(?!\s*(?:\(|\.|->|<))' % alt)
    for m in star2.finditer(body):
        out.append(base + m.start(3))
    arrow = re.compile(r'\b(%s)\s*->' % alt)
    for m in arrow.finditer(body):
        out.append(base + m.start(1))
    return sorted(set(out))


# functions whose argument number N is handed to fmt::format as the format string
FMT_WRAPPERS = {'throw_error': 0, 'error': 0, 'warning': 0, 'add_or_throw': 1, 'string_to_number_or_throw': 1,
                'format': 0, 'print': 0}
WRAP_CALL = re.compile(r'\b(%s)\s*(?:<[^;(){}]*>)?\s*\(' % '|'.join(FMT_WRAPPERS))


def split_args(s):
    args, depth, cur = [], 0, ''
    for ch in s:
        if ch in '([{<':
            depth += 1
        elif ch in ')]}>':
            depth -= 1
        if ch == ',' and depth == 0:
            args.append(cur)
            cur = ''
        else:
            cur += ch
    args.append(cur)
    return [a.strip() for a in args]


def find_rtfmt(body, base):
    """A call of a {fmt} wrapper whose format argument is neither a string
    literal nor the wrapper's own forwarded parameter `format`."""
    out = []
    for m in WRAP_CALL.finditer(body):
        fn = m.group(1)
        pre = body[max(0, m.start() - 8):m.start()]
        if fn in ('format', 'print') and not pre.rstrip().endswith('fmt::'):
            continue
        if fn in ('error', 'warning') and not re.search(r'(\.|->)\s*$', pre):
            continue
        try:
            close = match_paren(body, m.end() - 1)
        except ValueError:
            continue
        args = split_args(body[m.end():close])
        k = FMT_WRAPPERS[fn]
        if k >= len(args):
            continue
        a = args[k]
        if a.startswith('"') or a.startswith('R"') or a == 'format' or a == '':
            continue
        out.append(base + m.start())
    return out


def match_paren(s, i):
    depth = 0
    for j in range(i, len(s)):
        if s[j] == '(':
            depth += 1
        elif s[j] == ')':
            depth -= 1
            if depth == 0:
                return j
    raise ValueError('unbalanced')


CALL = re.compile(r'((?:\b[\w]+\s*::\s*)*)((?:\b\w+\s*(?:\.|->)\s*)?)\b(\w+)\s*(?:<[^;(){}]*>)?\s*\(')


def call_graph(fns, code):
    """Name-level call graph of one file.  Not counted: calls qualified with
    a namespace/class of another component (`std::get(`, `utils::f(`), member
    calls on an object of a class that is not defined in this file
    (`tc.compile(`).  Counted: unqualified calls, `this->f(`, and member calls
    on locals whose class is defined in this file (`parser.parse_schema_content()`
    with `auto parser = schema_parser{..}`)."""
    names = {f[0] for f in fns}
    classes = set(re.findall(r'\b(?:class|struct)\s+(\w+)\s*(?:final\s*)?(?::[^;{]*)?\{', code))
    g = {}
    for name, s, e, _ in fns:
        body = code[s:e]
        own = {'this'}
        for c in classes:
            own.update(re.findall(r'\b%s\s+(\w+)\s*[{(;]' % c, body))
            own.update(re.findall(r'\bauto\s+(\w+)\s*=\s*%s\s*[{(]' % c, body))
        callees = set()
        for m in CALL.finditer(body):
            qual, obj, fn = m.group(1), m.group(2), m.group(3)
            if fn not in names:
                continue
            if qual and re.sub(r'\W', '', qual) not in classes:
                continue
            if obj and re.match(r'\w+', obj).group(0) not in own:
                continue
            callees.add(fn)
        g.setdefault(name, set()).update(callees)
    return g


def recursive_functions(g):
    """Names on a cycle of the call graph (Tarjan SCC, name level)."""
    index, low, on, st, res = {}, {}, set(), [], set()
    counter = [0]

    def strong(v):
        index[v] = low[v] = counter[0]
        counter[0] += 1
        st.append(v)
        on.add(v)
        for w in g.get(v, ()):
            if w not in index:
                strong(w)
                low[v] = min(low[v], low[w])
            elif w in on:
                low[v] = min(low[v], index[w])
        if low[v] == index[v]:
            comp = []
            while True:
                w = st.pop()
                on.discard(w)
                comp.append(w)
                if w == v:
                    break
            if len(comp) > 1 or v in g.get(v, ()):
                res.update(comp)
    import sys
    sys.setrecursionlimit(10000)
    for v in sorted(g):
        if v not in index:
            strong(v)
    return res


def lean_str(s):
    return '"' + s.replace('\\', '\\\\').replace('"', '\\"') + '"'


def scan(repo):
    d = os.path.join(repo, SRC_DIR)
    files = sorted(f for f in os.listdir(d) if f.endswith(('.hpp', '.cpp')))
    raws, codes = {}, {}
    for f in files:
        raws[f] = open(os.path.join(d, f), encoding='utf-8').read()
        codes[f] = blank(raws[f])
    opt_names, opt_fns = optional_names(codes)
    ptr_fns = pointer_functions(codes)
    sites = []
    nfun = 0
    for f in files:
        code, raw_lines = codes[f], raws[f].split('\n')
        fns = functions(code)
        nfun += len(fns)
        # outermost function ranges only (nested ones were already merged by
        # construction: nested braces inside a function are 'other')
        found = []   # (pos, kind, fn)
        for name, s, e, _ in fns:
            body = code[s:e + 1]
            for kind, rx in SIMPLE:
                for m in rx.finditer(body):
                    found.append((s + m.start(), kind, name))
            for p in find_getif_derefs(body, s):
                found.append((p, 'getif', name))
            for p in find_ptr_derefs(body, s, ptr_fns):
                found.append((p, 'ptrderef', name))
            locs = optional_locals(body, opt_fns)
            for p in find_opt_derefs(body, s, opt_names | locs):
                found.append((p, 'optderef', name))
            for p in find_rtfmt(body, s):
                found.append((p, 'rtfmt', name))
        # schema_parser constructs itself recursively through parse_include:
        # treat `schema_parser{` / `auto parser = schema_parser{` as a call of the
        # constructor
        g = call_graph(fns, code)
        for name, s, e, _ in fns:
            body = code[s:e + 1]
            for cls in re.findall(r'\b(\w+)\s*\{', body):
                if cls in g and cls != name:
                    g[name].add(cls)
        rec = recursive_functions(g)
        reported = set()
        for name, s, e, line in fns:
            if name in rec and name not in reported:
                reported.add(name)      # one site per name (overloads share it)
                callees = sorted(g[name] & rec)
                found.append((s, 'recursion', name, 'calls ' + ', '.join(callees)))
        found.sort(key=lambda x: (x[0], x[1]))
        seen = {}
        last = None
        for item in found:
            pos, kind, fn = item[0], item[1], item[2]
            line = code.count('\n', 0, pos) + 1
            text = item[3] if len(item) > 3 else statement_around(raw_lines, line)
            if (kind, fn, line) == last and kind != 'recursion':
                # two matches of one kind on one line: keep both, numbered
                pass
            last = (kind, fn, line)
            key = (f, fn, kind, text)
            seen[key] = seen.get(key, 0) + 1
            if seen[key] > 1:
                text = '%s #%d' % (text, seen[key])
            sites.append((f, fn, kind, line, text))
    return sites, {'files': files, 'functions': nfun, 'pointer_functions': sorted(ptr_fns), 'optional_names': sorted(opt_names),
                   'optional_functions': sorted(opt_fns)}


def extract(repo, outdir):
    report = {'source': SRC_DIR, 'failed': {}}
    try:
        sites, info = scan(repo)
    except (OSError, ValueError, IndexError, KeyError, RecursionError) as ex:
        report['failed']['unchecked_sites'] = repr(ex)
        sites, info = [], {}
    hist = {}
    for s in sites:
        hist[s[2]] = hist.get(s[2], 0) + 1
    report.update({'sites': len(sites), 'by_kind': hist, 'info': {k: v for k, v in info.items() if k != 'optional_names'},
                   'sha256': hashlib.sha256(repr(sites).encode()).hexdigest()})
    if info and info.get('functions', 0) < 100:
        report['failed']['function_scan'] = 'only %d function bodies recognised' % info.get('functions', 0)
    lines = ['-- GENERATED by /verif/extract/unchecked_sites.py from %s on every check run. Do not edit.' % SRC_DIR,
             'namespace Sbepp.Extracted', '',
             '/-- (file, function, kind, line, text) -/',
             'abbrev Site := String × String × String × Nat × String', '',
             'def uncheckedSites : List Site := [']
    body = ['  (%s, %s, %s, %d, %s)' % (lean_str(f), lean_str(fn), lean_str(k), ln, lean_str(t))
            for f, fn, k, ln, t in sites]
    lines.append(',\n'.join(body))
    lines += [']', '', 'end Sbepp.Extracted', '']
    write_if_changed(os.path.join(outdir, 'UncheckedSites.lean'), '\n'.join(lines))
    report['list'] = [list(s) for s in sites]
    return report


def table_diff(repo, pipeline_lean):
    """Maintenance helper: which extracted sites are missing from / stale in
    `guardTable` of Sbepp/Gen/Pipeline.lean (the Lean obligation
    `unchecked_sites_covered` demands equality, in order)."""
    sites, _ = scan(repo)
    txt = open(pipeline_lean, encoding='utf-8').read()
    a = txt.index('def guardTable')
    b = txt.index('\n]', a)
    lit = r'"((?:[^"\\]|\\.)*)"'
    keys = re.findall(r'\(\(%s,\s*%s,\s*%s,\s*%s\),' % (lit, lit, lit, lit), txt[a:b])
    unesc = lambda t: re.sub(r'\\(.)', r'\1', t)  # noqa: E731
    table = [tuple(unesc(x) for x in k) for k in keys]
    ext = [(f, fn, k, t) for f, fn, k, _, t in sites]
    missing = [s for s in sites if (s[0], s[1], s[2], s[4]) not in set(table)]
    stale = [k for k in table if k not in set(ext)]
    return {'extracted': len(ext), 'table': len(table), 'same_order': ext == table, 'missing_in_table': missing,
            'stale_in_table': stale}


if __name__ == '__main__':
    import json
    import sys
    if len(sys.argv) > 1 and sys.argv[1] == '--diff':
        d = table_diff(sys.argv[2] if len(sys.argv) > 2 else '/repo',
                       sys.argv[3] if len(sys.argv) > 3 else os.path.join(os.path.dirname(os.path.dirname(
                           os.path.abspath(__file__))), 'lean', 'Sbepp', 'Gen', 'Pipeline.lean'))
        print('extracted %d, table %d, same order: %s' % (d['extracted'], d['table'], d['same_order']))
        for s_ in d['missing_in_table']:
            print('MISSING  (%s, %s, %s, %s)  -- line %d' % (lean_str(s_[0]), lean_str(s_[1]), lean_str(s_[2]),
                                                            lean_str(s_[4]), s_[3]))
        for k in d['stale_in_table']:
            print('STALE    (%s)' % ', '.join(lean_str(x) for x in k))
        sys.exit(0 if d['same_order'] else 1)
    r = extract(sys.argv[1] if len(sys.argv) > 1 else '/repo', sys.argv[2] if len(sys.argv) > 2 else '.')
    json.dump({k: v for k, v in r.items() if k != 'list'}, sys.stdout, indent=1)
    for s in r['list']:
        print('%-32s %-38s %-10s %5d  %s' % tuple(s))
